"""C02 - CRDT: replicas converge; batching neither loses nor reorders operations.

SPEC  CrdtPinsetBatchMC  batching layer of consensus/crdt (queue, batchWorker, timer, commit failures):
                         EffectIsPrefix, HooksCover, CommitRule, NotStranded, NoHang, NoCrash, NothingLost, RefuseRule
                         (exhaustive); the as-coded age-failure path is shown to violate NoHang / NotStranded
                         (witness runs, not counted).
      CrdtPinsetMC       go-ds-crdt v0.1.21 set/register/delivery transcription: MembershipConvergence and
                         LocalEffect hold (exhaustive); ValueConvergence and HooksCoverStep are refuted by TLC and
                         the counterexamples become replay scripts.
GEN   batching scripts (behaviours of the specification simulated by TLC - CrdtPinsetBatchGen; seeded: disabled / size / age / queue smaller than burst / injected commit failures, plus
      targeted ones) and multi-replica scripts (TLC counterexamples, the design-phase history, seeded histories).
R     scripts run on real crdt.Consensus replicas (harness datastore with fault injection, harness PinTracker).
T     the repository's own consensus/crdt tests run with the verif tag; their recorded batching events are judged
      by CrdtPinsetTrace per Consensus instance (with a self-test of the binding on corrupted copies).
V     CrdtPinsetTrace / CrdtPinsetNetTrace: TLC evaluates the property predicates on the recorded lines and
      checks conformance to the transcription (inferring channel / timer / delivery steps).
"""
import json
import os
import random
import re

import tla
import vcheck

CIDS = ["c1", "c2"]
VALS = ["A", "B", "C"]


# --------------------------------------------------------------------------- request contexts
CTX_MODES = ["now", "delay", "dl", "never"]


def ctx_policy(rng, steps, policy=None):
    """Every LogPin/LogUnpin gets its own request context; per script (seeded) the contexts are cancelled right
    after the call returns (what REST/RPC callers do), after a short delay, carry a deadline that expires while
    the item is queued, are never cancelled, or a mix. An accepted operation must take effect regardless."""
    policy = policy or rng.choice(["now", "now", "now", "mixed", "mixed", "delay", "dl", "never"])
    for x in steps:
        if x["k"] in ("pin", "unpin", "batch"):
            x["ctx"] = rng.choice(CTX_MODES) if policy == "mixed" else policy
    return policy


# --------------------------------------------------------------------------- batching scripts
def rnd_op(rng, cids=CIDS, punpin=0.35):
    c = rng.choice(cids)
    if rng.random() < punpin:
        return {"k": "unpin", "c": c}
    return {"k": "pin", "c": c, "v": rng.choice(VALS)}


def ops(rng, n, cids=CIDS):
    return [rnd_op(rng, cids) for _ in range(n)]


def gen_batch(rng, klass):
    age = 150
    s = {"batching": True, "maxsize": 3, "maxage_ms": age, "maxq": 20, "class": klass}
    one = [rng.choice(CIDS)]
    if klass == "direct":
        s.update(batching=False, maxsize=0, maxage_ms=0)
        st = ops(rng, rng.randint(2, 4))
        if rng.random() < 0.6:
            st.insert(rng.randint(0, len(st)), {"k": "arm", "n": 1})
        st += ops(rng, rng.randint(1, 3), one)
    elif klass == "size":
        s["maxsize"] = rng.choice([1, 2, 3])
        st = ops(rng, rng.randint(3, 7), rng.choice([one, CIDS]))
        if rng.random() < 0.4:
            st += [{"k": "settle"}] + ops(rng, rng.randint(1, 3))
    elif klass == "age":
        s["maxsize"] = 8
        st = ops(rng, rng.randint(1, 4), rng.choice([one, CIDS]))
        if rng.random() < 0.6:
            st += [{"k": "pause", "ms": 3 * age}] + ops(rng, rng.randint(1, 3))
    elif klass == "queue":
        s["maxsize"] = rng.choice([2, 3])
        s["maxq"] = rng.choice([1, 2])
        st = ops(rng, rng.randint(5, 8))
        if rng.random() < 0.5:
            st += [{"k": "settle"}] + ops(rng, rng.randint(2, 4))
    elif klass == "failsize":
        s["maxsize"] = 2
        st = [{"k": "arm", "n": rng.choice([1, 1, 2])}] + ops(rng, rng.randint(2, 5))
    elif klass == "failage":
        s["maxsize"] = rng.choice([3, 4])
        st = ops(rng, rng.randint(1, 2)) + [{"k": "arm", "n": 1}, {"k": "pause", "ms": 3 * age}]
        st += ops(rng, rng.randint(0, 4))
        if rng.random() < 0.5:
            st += [{"k": "settle"}] + ops(rng, rng.randint(1, 3))
    else:  # mixed
        s["maxsize"] = rng.choice([2, 3])
        s["maxq"] = rng.choice([2, 3, 20])
        st = []
        for _ in range(rng.randint(4, 9)):
            x = rng.random()
            if x < 0.12:
                st.append({"k": "arm", "n": 1})
            elif x < 0.22:
                st.append({"k": "pause", "ms": 3 * age})
            elif x < 0.3:
                st.append({"k": "settle"})
            else:
                st.append(rnd_op(rng))
    st.append({"k": "settle"})
    s["steps"] = st
    linger(s)
    s["ctxpolicy"] = ctx_policy(rng, st)
    s["nontrivial"] = batch_nontrivial(s)
    return s


def linger(s):
    """after the last settle the replica stays alive for > MaxBatchAge and is observed again (a stray timer
    expiry or a late effect must not change anything)"""
    if s["batching"]:
        s["steps"] += [{"k": "pause", "ms": 3 * s["maxage_ms"]}, {"k": "settle"}]


def batch_nontrivial(s):
    st = s["steps"]
    nops = [x for x in st if x["k"] in ("pin", "unpin")]
    per = {}
    for x in nops:
        per[x["c"]] = per.get(x["c"], 0) + 1
    return bool(any(x["k"] in ("arm", "armread") for x in st) or (s["batching"] and s["maxq"] < len(nops)) or
                (s["batching"] and any(v >= 2 for v in per.values())))


def tlc_batch_scripts(ctx, num, rng):
    """Scripts read off behaviours of the specification: TLC simulates CrdtPinsetBatch (CrdtPinsetBatchGen) and
    prints the environment's part of each behaviour once it is quiescent."""
    r = ctx.tlc("CrdtPinsetBatchGen.tla", "CrdtPinsetBatchGen.cfg", count=False, workers=1, timeout=1200,
                simulate="num=%d" % num, depth=80, seed=ctx.seed)
    raw = set()
    for l in r.out.split("\n"):
        if l.startswith('"{'):
            raw.add(tla.parse_value(l))
    js = [json.loads(x) for x in sorted(raw)]
    out = []
    age = 150
    for j in js:
        key = json.dumps(j["steps"])[:-1]
        if any(o is not j and (o["batching"], o["maxsize"], o["maxq"]) == (j["batching"], j["maxsize"], j["maxq"]) and
               json.dumps(o["steps"]).startswith(key + ",") for o in js):
            continue    # a longer script of the same behaviour exists
        st = []
        for x in j["steps"]:
            if x["k"] == "pause":
                if j["batching"]:
                    st.append({"k": "pause", "ms": 3 * age})
            elif x["k"] == "arm":
                st.append({"k": "arm", "n": x["n"]})
            elif x["k"] == "pin":
                st.append({"k": "pin", "c": x["c"], "v": x["v"]})
            else:
                st.append({"k": "unpin", "c": x["c"]})
        st.append({"k": "settle"})
        s = {"batching": j["batching"], "maxsize": j["maxsize"], "maxage_ms": age if j["batching"] else 0,
             "maxq": j["maxq"], "class": "tlc-sim", "steps": st}
        linger(s)
        s["ctxpolicy"] = ctx_policy(rng, s["steps"])
        s["nontrivial"] = batch_nontrivial(s)
        out.append(s)
    if not out:
        raise vcheck.Infra("CrdtPinsetBatchGen produced no scripts")
    return out


def targeted_batch():
    a = 150
    P = lambda c, v: {"k": "pin", "c": c, "v": v}
    U = lambda c: {"k": "unpin", "c": c}
    base = lambda **kw: dict({"batching": True, "maxsize": 3, "maxage_ms": a, "maxq": 20}, **kw)
    out = [
        # age-path commit failure, then the size limit is reached, then more operations (worker must not hang)
        base(klass="t-agefail-then-size", steps=[P("c1", "A"), {"k": "arm", "n": 1}, {"k": "pause", "ms": 3 * a},
                                                 P("c2", "B"), P("c1", "B"), {"k": "settle"}, P("c2", "A"), U("c1"),
                                                 {"k": "settle"}]),
        # age-path commit failure and nothing else arrives (batch must not stay stranded)
        base(klass="t-agefail-alone", steps=[P("c1", "A"), U("c2"), {"k": "arm", "n": 1}, {"k": "settle"}]),
        # size-path commit failure, retried by age
        base(klass="t-sizefail-age", maxsize=2, steps=[{"k": "arm", "n": 1}, P("c1", "A"), P("c1", "B"), {"k": "settle"}]),
        # size-path commit failure, retried by the next item
        base(klass="t-sizefail-next", maxsize=2, steps=[{"k": "arm", "n": 1}, P("c1", "A"), P("c2", "B"), U("c1"),
                                                        {"k": "settle"}]),
        # pin and unpin of the same new CID inside one batch; unpin+pin of an existing one
        base(klass="t-pin-unpin-one-batch", maxsize=4, steps=[P("c1", "A"), U("c1"), P("c2", "B"), P("c2", "C"), {"k": "settle"},
                                                              U("c2"), P("c2", "A"), P("c1", "C"), U("c1"), {"k": "settle"}]),
        # queue of one, burst of six
        base(klass="t-queue1", maxsize=2, maxq=1, steps=[P("c1", "A"), P("c2", "A"), U("c1"), P("c1", "B"), U("c2"),
                                                         P("c2", "C"), {"k": "settle"}]),
        # exactly max size, then exactly max size again
        base(klass="t-size-exact", maxsize=2, steps=[P("c1", "A"), P("c2", "A"), P("c1", "B"), U("c2"), {"k": "settle"}]),
        # the first item of a batch cannot be added (datastore read error in batchingState.Rm): the age timer is
        # already armed and fires with nothing batched - the worker must not commit (nil delta: go-ds-crdt panics)
        base(klass="t-itemerr-first", steps=[{"k": "armread", "n": 1}, U("c1"), {"k": "pause", "ms": 3 * a}, P("c1", "A"), P("c2", "B"),
                                             {"k": "settle"}]),
        base(klass="t-itemerr-after-commit", maxsize=2, steps=[P("c1", "A"), P("c2", "B"), {"k": "settle"}, {"k": "armread", "n": 1}, U("c3"),
                                                               {"k": "pause", "ms": 3 * a}, U("c2"), {"k": "settle"}]),
        # the same error on an unpin that matters: the acknowledged unpin is dropped by the worker
        base(klass="t-itemerr-effective", steps=[P("c1", "A"), {"k": "settle"}, {"k": "armread", "n": 1}, U("c1"), P("c2", "B"),
                                                 {"k": "settle"}]),
        # read error on a direct (non-batched) unpin: reported to the caller, no effect
        base(klass="t-direct-readfail", batching=False, maxsize=0, maxage_ms=0,
             steps=[P("c1", "A"), {"k": "armread", "n": 1}, U("c1"), P("c2", "B"), U("c2"), {"k": "settle"}]),
        # a steady trickle slower than the age limit: every batch must still be committed by age
        base(klass="t-trickle", maxsize=30, maxq=50,
             steps=sum([[P("c1" if n % 3 else "c2", "ABC"[n % 3]), {"k": "pause", "ms": 100}] for n in range(14)], []) +
             [{"k": "settle"}]),
        # direct writes with a failing write in the middle
        base(klass="t-direct-fail", batching=False, maxsize=0, maxage_ms=0,
             steps=[P("c1", "A"), {"k": "arm", "n": 1}, P("c1", "B"), {"k": "arm", "n": 1}, U("c1"), P("c2", "C"), U("c2"),
                    {"k": "settle"}]),
    ]
    for s in out:
        s["class"] = s.pop("klass")
        linger(s)
        s["ctxpolicy"] = ctx_policy(None, s["steps"], "now")
        s["nontrivial"] = batch_nontrivial(s)
    return out


# --------------------------------------------------------------------------- multi-replica scripts
def hist_to_script(hist, nrep, klass):
    """TLC counterexample (hist of CrdtPinsetMC) -> script: operations and connections in order, a sync
    around every connection, after every operation once connected, and at the end (delivery steps are left to the
    real replicas). With batches in the history every operation goes through the batching layer (bsize 2)."""
    st = []
    connected = False
    bsize = 2 if any(h["k"] == "batch" for h in hist) else 0
    for h in hist:
        if h["k"] in ("pin", "unpin", "batch"):
            if h["k"] == "batch":
                x = {"k": "batch", "r": h["r"], "ops": [dict(k=o["k"], c=o["c"], v=o["v"]) for o in h["ops"]]}
            elif bsize:
                x = {"k": "batch", "r": h["r"], "ops": [dict(k=h["k"], c=h["c"], v=h["v"])]}
            else:
                x = {"k": h["k"], "r": h["r"], "c": h["c"]}
                if h["k"] == "pin":
                    x["v"] = h["v"]
            st.append(x)
            if connected:
                st.append({"k": "sync"})    # keep the issuing replica level with its component
        elif h["k"] == "connect":
            connected = True
            st.append({"k": "sync"})
            st.append({"k": "connect", "r": h["r"], "s": h["s"]})
            st.append({"k": "sync"})
    st.append({"k": "sync"})
    st = [x for i, x in enumerate(st) if not (x["k"] == "sync" and i > 0 and st[i - 1]["k"] == "sync")]
    return {"nrep": nrep, "bsize": bsize, "class": klass, "steps": st}


def gen_net(rng):
    nrep = rng.choice([2, 3, 3])
    reps = ["r%d" % i for i in range(nrep)]
    st = []
    comp = {r: {r} for r in reps}
    hot = rng.choice(CIDS)

    bsize = 2 if rng.random() < 0.35 else 0

    def one_op():
        c = hot if rng.random() < 0.8 else rng.choice(CIDS)
        if rng.random() < 0.35:
            return {"k": "unpin", "c": c, "v": "-"}
        return {"k": "pin", "c": c, "v": rng.choice(VALS)}

    def some_ops(r, n):
        for _ in range(n):
            if bsize:
                st.append({"k": "batch", "r": r, "ops": [one_op() for _ in range(rng.choice([1, 2, 2]))]})
            else:
                o = one_op()
                x = {"k": o["k"], "r": r, "c": o["c"]}
                if o["k"] == "pin":
                    x["v"] = o["v"]
                st.append(x)

    # isolated phase: everybody may write
    for r in reps:
        some_ops(r, rng.randint(0, 3))
    pairs = [(a, b) for a in reps for b in reps if a < b]
    rng.shuffle(pairs)
    for (a, b) in pairs:
        if comp[a] is comp[b]:
            continue
        st.append({"k": "connect", "r": a, "s": b})
        merged = comp[a] | comp[b]
        for x in merged:
            comp[x] = merged
        st.append({"k": "sync"})
        # one writer per component between syncs
        seen = []
        for r in reps:
            if any(comp[r] is s for s in seen):
                continue
            seen.append(comp[r])
            w = rng.choice(sorted(comp[r]))
            some_ops(w, rng.randint(0, 2))
        st.append({"k": "sync"})
    # drop duplicate syncs
    out = []
    for x in st:
        if x["k"] == "sync" and out and out[-1]["k"] == "sync":
            continue
        out.append(x)
    return {"nrep": nrep, "bsize": bsize, "trust": rng.choice(["all", "all", "mutual"]), "class": "seeded", "steps": out}


def net_nontrivial(s):
    w = {}
    for x in s["steps"]:
        if x["k"] in ("pin", "unpin"):
            w.setdefault(x["c"], set()).add(x["r"])
        elif x["k"] == "batch":
            for o in x["ops"]:
                w.setdefault(o["c"], set()).add(x["r"])
    return any(len(v) >= 2 for v in w.values())


DESIGN_NET = {"nrep": 3, "bsize": 0, "class": "design-phase", "steps": [
    {"k": "pin", "r": "r0", "c": "c1", "v": "B"}, {"k": "pin", "r": "r1", "c": "c1", "v": "A"},
    {"k": "unpin", "r": "r1", "c": "c1"}, {"k": "connect", "r": "r0", "s": "r2"}, {"k": "sync"},
    {"k": "connect", "r": "r1", "s": "r2"}, {"k": "sync"}]}


# --------------------------------------------------------------------------- stages
def write_cases(path, cases):
    with open(path, "w") as f:
        for c in cases:
            f.write(json.dumps(c) + "\n")


def tlc_verdict(ctx, module, cfg, trace, name):
    verdict = os.path.join(ctx.work, name + "_verdict.ndjson")
    if os.path.exists(verdict):
        os.remove(verdict)
    r = tla.run_tlc(ctx.specdir(), module, cfg, workers=1, timeout=2400, heap=os.environ.get("VERIF_TLC_HEAP", "6g"),
                    env_extra={"TRACE_FILE": trace, "VERDICT_FILE": verdict})
    ctx.log("tlc %s on %s: rc=%s states=%d %.1fs %s" % (module, os.path.basename(trace), r.rc, r.distinct, r.wall,
                                                       r.violation or ""))
    if r.timed_out or r.error or not os.path.exists(verdict):
        print(r.out[-3000:])
        raise vcheck.Infra("%s produced no verdict (%s)" % (module, r.error or r.violation or "timeout"))
    if r.violation:
        # an invariant of the specification broken on a state reached by a recorded run
        print(r.out[-3000:])
        raise vcheck.Infra("%s: %s on a state explaining a recorded run - investigate (the property predicates "
                           "over the recorded lines decide verdicts)" % (module, r.violation))
    v = json.loads(open(verdict).readline())
    ctx.model_runs.append({"module": module, "cfg": cfg, "distinct": r.distinct, "generated": r.generated,
                           "trace_lines": sum(1 for _ in open(trace)), "wall_s": round(r.wall, 1)})
    return v


class Crashed(Exception):
    pass


def crashed(ctx, dr):
    """A panic inside ipfs-cluster / go-ds-crdt code while the scripts ran is a violation (recorded by go_test);
    there is no trace to validate then."""
    if dr.rc != 0:
        raise Crashed()


def run_batch(ctx, scripts, par=8):
    inp = os.path.join(ctx.work, "c02_batch.ndjson")
    trace = os.path.join(ctx.work, "c02_batch.trace")
    write_cases(inp, scripts)
    dr = ctx.go_test("c02_crdt", run="TestBatch$", infile=inp, env={"VERIF_TRACE": trace, "VERIF_PAR": par}, timeout=2400,
                     panic_is_violation=True)
    crashed(ctx, dr)
    v = tlc_verdict(ctx, "CrdtPinsetTrace.tla", "CrdtPinsetTrace.cfg", trace, "batch")
    byid = {s["id"]: s for s in scripts}
    lines = [json.loads(l) for l in open(trace)]
    if v["n"] != len(scripts):
        raise vcheck.Infra("batch: %d runs recorded for %d scripts" % (v["n"], len(scripts)))
    drift = []
    good = 0
    what = {"lost": "accepted operations are not (all) in effect / a refused or failed one is",
            "hook": "pinset differs from what was handed to the tracker",
            "refuse": "operation refused although the queue was not full",
            "err": "LogPin/LogUnpin returned an unexpected error",
            "commit": "batch not committed at its size limit, committed before its age limit, or left uncommitted far beyond it",
            "pending": "accepted operations still uncommitted long after the age limit",
            "invariant": "a state explaining the recorded run breaks EffectIsPrefix / HooksCover of CrdtPinsetBatch"}
    for k, rv in enumerate(v["runs"]):
        s = byid[rv["run"]]
        bad = [p for p in ("lost", "hook", "refuse", "err", "commit", "pending") if rv[p]]
        conform = v["hwm"][k] == rv["last"] + 1
        if v["invbad"][k]:
            bad.append("invariant")
            rv["invariant"] = [v["invbad"][k]]
        for p in bad:
            ln = sorted(rv[p])[0]
            fclass = rv["fclass"]
            if p == "lost" and fclass == "item-error:injected-store-read-fault" and set(rv["lost"]) - set(rv["lostdrop"]):
                # more is missing than the operations whose add the harness made fail
                fclass = "item-error:beyond-injected-faults"
            ctx.violation("C02:batch:%s:%s" % (p, fclass),
                          "%s (batching=%s maxsize=%s maxq=%s, after %s; line %s)" % (
                              what[p], s["batching"], s["maxsize"], s["maxq"], rv["fclass"], json.dumps(lines[ln - 1])),
                          {"kind": "batch", "script": s, "lines": lines[rv["first"] - 1:rv["last"]]})
        if not bad and not conform:
            drift.append((s, v["hwm"][k], lines[min(v["hwm"][k], len(lines)) - 1]))
        if not bad and conform:
            good += 1
    ctx.traces_validated += good
    ctx.extra["batch_runs"] = ctx.extra.get("batch_runs", 0) + len(scripts)
    if drift and not ctx.violations:
        s, h, l = drift[0]
        print("SPEC-DRIFT: %d batching runs satisfy the property predicates but are not behaviours of the "
              "transcription CrdtPinsetBatch; first: run %s stuck at line %s" % (len(drift), s["id"], json.dumps(l)), flush=True)
        raise vcheck.Infra("specification out of date w.r.t. consensus/crdt batchWorker (no property breach observed)")


def run_net(ctx, scripts, par=8):
    inp = os.path.join(ctx.work, "c02_net.ndjson")
    trace = os.path.join(ctx.work, "c02_net.trace")
    write_cases(inp, scripts)
    dr = ctx.go_test("c02_crdt", run="TestNet$", infile=inp, env={"VERIF_TRACE": trace, "VERIF_PAR": par}, timeout=2400,
                     panic_is_violation=True)
    crashed(ctx, dr)
    v = tlc_verdict(ctx, "CrdtPinsetNetTrace.tla", "CrdtPinsetNetTrace.cfg", trace, "net")
    byid = {s["id"]: s for s in scripts}
    lines = [json.loads(l) for l in open(trace)]
    if v["n"] != len(scripts):
        raise vcheck.Infra("net: %d runs recorded for %d scripts" % (v["n"], len(scripts)))
    drift = []
    good = 0
    for k, rv in enumerate(v["runs"]):
        s = byid[rv["run"]]
        case = {"kind": "net", "script": s, "lines": lines[rv["first"] - 1:rv["last"]]}
        conform = v["hwm"][k] == rv["last"] + 1
        sfx = "" if conform else ":unexplained"
        if rv["notsynced"] or rv["badobs"]:
            raise vcheck.Infra("net run %s: observation without complete exchange / unknown pin value" % s["id"])
        bad = False
        if v["invbad"][k]:
            bad = True
            ctx.violation("C02:net:membership-divergence:model-state", "a state explaining the recorded run breaks "
                          "MembershipConvergence of CrdtPinset (line %d of the run)" % (v["invbad"][k] - rv["first"] + 1), case)
        for ln in rv["memberdiv"]:
            bad = True
            ctx.violation("C02:net:membership-divergence", "replicas that exchanged all updates disagree on which CIDs "
                          "are pinned: " + json.dumps(lines[ln - 1]["obs"]), case)
        for x in rv["own"]:
            bad = True
            ctx.violation("C02:net:local-order", "replica %s was never connected and does not show exactly its own accepted "
                          "operations in submission order: %s" % (x["rep"], json.dumps(lines[x["line"] - 1]["obs"])), case)
        for x in rv["valuediv"]:
            bad = True
            ctx.violation("C02:net:value-divergence:%s%s" % (x["shape"], sfx),
                          "replicas that exchanged all updates hold different pin records for %s: %s" % (
                              x["c"], json.dumps([[o["r"], o["pins"]] for o in lines[x["line"] - 1]["obs"]])), case)
        for x in rv["hook"]:
            bad = True
            ctx.violation("C02:net:hook-missing:%s%s%s" % (x["shape"], ":stale-record-resurfaced" if x["stale"] else "", sfx),
                          "the pinset of %s changed for %s without the matching Track/Untrack hand-off (sync at line %d)" % (
                              x["rep"], x["c"], x["line"] - rv["first"] + 1), case)
        if not bad and not conform:
            drift.append((s, lines[min(v["hwm"][k], len(lines)) - 1]))
        if not bad and conform:
            good += 1
    ctx.traces_validated += good
    ctx.extra["net_runs"] = ctx.extra.get("net_runs", 0) + len(scripts)
    if drift and not ctx.violations:
        s, l = drift[0]
        print("SPEC-DRIFT: %d multi-replica runs satisfy the property predicates but are not behaviours of the "
              "transcription CrdtPinset; first: run %s stuck at %s" % (len(drift), s["id"], json.dumps(l)[:600]), flush=True)
        raise vcheck.Infra("specification out of date w.r.t. go-ds-crdt / consensus/crdt (no property breach observed)")


REPO_TESTS = "TestBatching|TestConsensusPin|TestConsensusUnpin|TestConsensusUpdate"


def run_repo_tests(ctx):
    """Executions of the repository's OWN consensus/crdt tests become validated traces: the tests run with the
    verif tag and VERIF_TRACE_FILE (default observer of consensus/crdt/verif_on.go), the events are split per
    Consensus instance and TLC evaluates the batching predicates that need no driver knowledge (CommitBad) and the
    counter consistency CurDrift of CrdtPinsetTrace on every instance. The binding is self-tested on corrupted copies."""
    import subprocess
    import time
    raw = os.path.join(ctx.work, "c02_repo.raw")
    env = ctx.goenv()
    env["VERIF_TRACE_FILE"] = raw
    cmd = ["go", "test", "-modfile=" + ctx.modfile(), "-tags", "verif", "-count=1", "-vet=off", "-timeout", "600s",
           "-run", REPO_TESTS, "github.com/ipfs/ipfs-cluster/consensus/crdt"]
    t0 = time.time()
    try:
        cp = subprocess.run(cmd, cwd=os.path.join(ctx.verif, "harness"), env=env, stdout=subprocess.PIPE,
                            stderr=subprocess.STDOUT, timeout=900)
    except subprocess.TimeoutExpired:
        raise vcheck.Infra("repository consensus/crdt tests timed out")
    ctx.log("go test consensus/crdt (repository tests, tag verif): rc=%d %.1fs" % (cp.returncode, time.time() - t0))
    if cp.returncode != 0:
        print(cp.stdout.decode("utf-8", "replace")[-3000:])
        raise vcheck.Infra("the repository's own consensus/crdt tests failed (rc=%d): no trace to validate" % cp.returncode)
    if not os.path.exists(raw) or os.path.getsize(raw) == 0:
        raise vcheck.Infra("no events recorded: consensus/crdt has no VERIF_TRACE_FILE observer (branch verif-crdt3 not applied?)")
    evs = [json.loads(l) for l in open(raw)]
    order, by = [], {}
    for e in evs:
        p = e.get("peer", "?")
        if p not in by:
            by[p] = []
            order.append(p)
        by[p].append(e)
    runs = []
    for n, p in enumerate(order):
        w = [e for e in by[p] if e["ev"] == "worker"]
        hdr = {"ev": "reset", "run": n + 1, "kind": "repo", "class": "repo-test", "batching": bool(w),
               "maxsize": w[0]["maxsize"] if w else 0, "maxage_ms": w[0]["maxage_ms"] if w else 0,
               "maxq": w[0]["maxq"] if w else 1}
        ls = []
        for e in by[p]:
            if e["ev"] == "logcall":
                ls.append({"ev": "call", "op": e["op"], "c": e["cid"], "v": "A" if e["op"] == "pin" else "-", "t": e["t"]})
            elif e["ev"] in ("batched", "batcherr"):
                ls.append({"ev": e["ev"], "op": "pin" if e.get("pin") else "unpin", "c": e.get("cid", ""), "cur": e["cur"], "t": e["t"]})
            elif e["ev"] == "commit":
                ls.append({"ev": "commit", "reason": e["reason"], "cur": e["cur"], "ok": e["ok"], "t": e["t"]})
            elif e["ev"] == "shutdown":
                ls.append({"ev": "shutdown", "t": e["t"]})
        runs.append((hdr, ls))
    nreal = len(runs)
    nb = [k for k, (h, ls) in enumerate(runs) if h["batching"]]
    if not nb or not any(l["ev"] == "commit" and l["reason"] == "size" for k in nb for l in runs[k][1]) or \
            not any(l["ev"] == "commit" and l["reason"] == "age" for k in nb for l in runs[k][1]):
        raise vcheck.Infra("the repository tests no longer exercise a size-triggered and an age-triggered batch commit")
    # self-test of the binding: a corrupted field and a dropped commit event must be rejected
    corrupt = []
    for k in nb:
        h, ls = runs[k]
        js = [j for j, l in enumerate(ls) if l["ev"] == "commit" and l["reason"] == "size" and l["ok"]]
        if js and not any(c[0] == "field" for c in corrupt):
            c = [dict(l) for l in ls]
            c[js[0]]["cur"] -= 1
            corrupt.append(("field", dict(h), c))
        js = [j for j, l in enumerate(ls) if l["ev"] == "commit" and l["ok"] and any(m["ev"] == "batched" for m in ls[j + 1:])]
        if js and not any(c[0] == "drop" for c in corrupt):
            corrupt.append(("drop", dict(h), [dict(l) for j, l in enumerate(ls) if j != js[0]]))
    if {c[0] for c in corrupt} != {"field", "drop"}:
        raise vcheck.Infra("cannot build the corrupted traces for the binding self-test")
    for n, (kind, h, ls) in enumerate(corrupt):
        h["run"] = 9001 + n
        runs.append((h, ls))
    trace = os.path.join(ctx.work, "c02_repo.trace")
    with open(trace, "w") as f:
        for h, ls in runs:
            f.write(json.dumps(h) + "\n")
            for l in ls:
                f.write(json.dumps(l) + "\n")
    v = tlc_verdict(ctx, "CrdtPinsetTrace.tla", "CrdtPinsetTrace.cfg", trace, "repo")
    if v["n"] != len(runs):
        raise vcheck.Infra("repo traces: %d runs judged for %d written" % (v["n"], len(runs)))
    lines = [json.loads(l) for l in open(trace)]
    for n, (kind, h, ls) in enumerate(corrupt):
        rv = v["runs"][nreal + n]
        if not (rv["commit"] or rv["curdrift"]):
            raise vcheck.Infra("binding self-test failed: the corrupted repository trace (%s) was accepted" % kind)
    good, drift = 0, []
    for k in range(nreal):
        rv = v["runs"][k]
        if rv["commit"]:
            ln = sorted(rv["commit"])[0]
            ctx.violation("C02:repo-test:commit", "execution of the repository's own consensus/crdt tests: batch not committed "
                          "at its size limit, committed before its age limit, grown beyond the limit or left uncommitted "
                          "(maxsize=%s maxage_ms=%s; line %s)" % (runs[k][0]["maxsize"], runs[k][0]["maxage_ms"], json.dumps(lines[ln - 1])),
                          {"kind": "repo", "tests": REPO_TESTS, "lines": lines[rv["first"] - 1:rv["last"]]})
        elif rv["curdrift"]:
            drift.append(lines[sorted(rv["curdrift"])[0] - 1])
        else:
            good += 1
    ctx.traces_validated += good
    ctx.extra["repo_test_instances_validated"] = good
    ctx.extra["repo_test_events"] = len(evs)
    ctx.extra["repo_binding_selftest"] = "corrupted field and dropped commit event both rejected"
    if drift and not ctx.violations:
        print("SPEC-DRIFT: %d instances of the repository tests do not follow the batchCurSize arithmetic of "
              "CrdtPinsetBatch; first: %s" % (len(drift), json.dumps(drift[0])), flush=True)
        raise vcheck.Infra("specification out of date w.r.t. consensus/crdt batchWorker (repository test traces)")


def counterexample_hist(r):
    m = list(re.finditer(r'^/\\ hist = (.*?)(?=^/\\ |\Z)', r.out, re.M | re.S))
    if not m:
        return None
    return tla.parse_value(m[-1].group(1).strip())


def run(ctx):
    rng = random.Random(ctx.seed)
    quick = ctx.quick()
    ctx.rule = ("batching: one script = batching setting (disabled / size / age / queue smaller than burst) + pin/unpin "
                "sequence over 2 CIDs x 3 pin records + injected commit failures + pauses; non-trivial = has an injected "
                "failure, or a burst longer than the queue, or a CID touched twice. multi-replica: one script = "
                "operations at 2-3 replicas, connections and sync points; non-trivial = some CID written by >= 2 "
                "replicas. distinct by abstract script content")
    ctx.assumptions = [
        "every LogPin/LogUnpin is issued with its own request context, cancelled right after the call / after a delay / "
        "by a 300us deadline / never (seeded per script); an operation that returned nil must take effect regardless",
        "delivery order between replicas is controlled only through connectivity (connections are only added); the "
        "specification over-approximates the orders in which a replica may merge deltas",
        "operations are issued by a replica that is not behind its connected component (single writer per component "
        "between sync points)",
        "injected datastore failures hit the first write of a commit (the DAG block), so a failed commit has no partial effect",
        "age-limit timing is validated with a 3x margin (never earlier than MaxBatchAge/3, committed within 25x MaxBatchAge)",
        "go-ds-crdt beyond set.go/crdt.go as transcribed, libp2p pubsub and bitswap are trusted"]
    # ---- SPEC
    ctx.tlc("CrdtPinsetBatchMC.tla", "CrdtPinsetBatchMC_quick.cfg" if quick else "CrdtPinsetBatchMC_thorough.cfg",
            workers=8, timeout=3000)
    ctx.tlc("CrdtPinsetMC.tla", "CrdtPinsetMC_quick.cfg" if quick else "CrdtPinsetMC_thorough.cfg", workers=8, timeout=3000)
    ctx.tlc("CrdtPinsetMC.tla", "CrdtPinsetMC_batch.cfg", workers=8, timeout=3000)
    ctx.exhaustive = True
    for cfg in ("CrdtPinsetBatchMC_ascoded_hang.cfg", "CrdtPinsetBatchMC_ascoded_stranded.cfg",
                "CrdtPinsetBatchMC_ascoded_crash.cfg"):
        r = ctx.tlc("CrdtPinsetBatchMC.tla", cfg, count=False, expect_violation=True, workers=4, timeout=1200)
        if not r.violation:
            raise vcheck.Infra("%s: expected the as-coded (unrepaired) age path to violate the invariant" % cfg)
    net = [dict(DESIGN_NET)]
    for cfg, nrep, klass in (("CrdtPinsetMC_value.cfg", 3, "tlc-value-divergence"), ("CrdtPinsetMC_hooks.cfg", 2, "tlc-hook-missing"),
                             ("CrdtPinsetMC_batchvalue.cfg", 2, "tlc-value-divergence-batch")):
        r = ctx.tlc("CrdtPinsetMC.tla", cfg, count=False, expect_violation=True, workers=4, timeout=1200)
        h = counterexample_hist(r) if r.violation else None
        if not h:
            raise vcheck.Infra("%s: expected a counterexample of the transcribed go-ds-crdt register" % cfg)
        net.append(hist_to_script(h, nrep, klass))
    # ---- GEN
    classes = ["direct", "size", "age", "queue", "failsize", "failage", "mixed"]
    nb = 8 if quick else 100
    batch = targeted_batch() + tlc_batch_scripts(ctx, 30 if quick else 1000, rng) + \
        [gen_batch(rng, k) for k in classes for _ in range(nb)]
    for i, s in enumerate(batch):
        s["id"] = i + 1
    for _ in range(24 if quick else 300):
        net.append(gen_net(rng))
    for i, s in enumerate(net):
        s["id"] = i + 1
        s["ctxpolicy"] = ctx_policy(rng, s["steps"], None if s["class"] == "seeded" else "now")
        s["nontrivial"] = net_nontrivial(s)
    ctx.log("generated %d batching scripts, %d multi-replica scripts" % (len(batch), len(net)))
    # ---- R + V
    try:
        run_repo_tests(ctx)
        run_batch(ctx, batch, par=8 if quick else 12)
        try:
            run_net(ctx, net, par=8 if quick else 12)
        except Exception as e:     # vcheck.Infra (the orchestrator runs as __main__, so match by name)
            if type(e).__name__ != "Infra" or not ctx.violations:
                raise
            # the batching stage already observed a property breach on real code; a rig that cannot
            # construct its multi-replica situations afterwards does not take that verdict away
            ctx.log("multi-replica stage: %s (violations from the batching stage stand)" % e)
    except Crashed:
        pass


def replay(ctx, path):
    j = json.load(open(path))
    case = j.get("case") or {}
    s = dict(case.get("script") or {})
    if case.get("kind") == "repo":
        return run_repo_tests(ctx)
    if not s:
        # a crash of the driver process has no single script: repeat the whole run with the stored seed and tier
        ctx.seed = j.get("seed", ctx.seed)
        ctx.tier = j.get("tier", ctx.tier)
        return run(ctx)
    s["id"] = 1
    try:
        if case.get("kind") == "net":
            run_net(ctx, [s], par=1)
        else:
            run_batch(ctx, [s], par=1)
    except Crashed:
        pass
    ctx.samples.append(s)
