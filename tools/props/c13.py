"""C13 - added content is fully delivered, readable from its blocks, and pinned as asked.

SPEC  AdderMC: the transcribed single / sharding DAG services (spec/Adder.tla) are run call by call on
      every small input (block stream x parameters x allocation / block-put / pin fault script); the
      property predicates hold after every call (safety part) and at the end (whole statement).
      A second run with DepthRule="coded" reproduces the design-level defect (witness only).
R     scripted block streams are fed through Add/Finalize of the real single.DAGService and
      sharding.DAGService against three libp2p hosts with scripted BlockAllocate / BlockPut / Pin
      (TestReplay); the indirection boundary is crossed with the real MaxLinks (5984/5985/... tiny blocks).
C     Cluster.AddFile on a real Cluster (real allocate, real Cluster.Pin -> checkPinType, pins read from the
      consensus log; CAR uploads of tiny blocks reach the indirect-shard boundary end to end); these records are
      checked against the property predicates only (TestCluster).
V     the real adder.Adder (FromFiles / FromMultipart) imports generated file trees (TestAdder); a
      recording wrapper logs the block stream, the rig logs what reached the daemons and the cluster,
      the driver logs SHA-256 of inputs and of the bytes read back from the delivered blocks, the root
      computed with the upstream importer libraries and the root with sharding flipped.
Both: TLC (AdderTrace) evaluates every property predicate and the transcription predicate Conforms on
      every recorded run; a failed property predicate is a violation, a failed Conforms alone is
      reported as "spec out of date" (exit 2).
"""
import json
import os
import random

import tla
import vcheck

MAXLINKS = 5984

ALLOCS = [
    [{"ok": True, "peers": ["p1"]}],
    [{"ok": True, "peers": ["p1", "p2"]}],
    [{"ok": True, "peers": ["p2", "p3"]}],
    [{"ok": True, "peers": ["p1", "p2", "p3"]}],
    [{"ok": True, "peers": ["p2"]}],
    [{"ok": True, "peers": ["p1", "p2"]}, {"ok": True, "peers": ["p2", "p3"]}],
    [{"ok": True, "peers": ["p3", "p1"]}, {"ok": True, "peers": ["p2"]}, {"ok": True, "peers": ["p1", "p3"]}],
]
FACTORS = [(1, 2), (2, 3), (1, 1), (-1, -1)]


def fault_script(rng, nfaults, maxk):
    out = {"p1": [], "p2": [], "p3": []}
    for _ in range(nfaults):
        d = rng.choice(["p1", "p2", "p3", "p2", "p3"])
        k = rng.randint(1, maxk)
        r = "app" if d == "p1" else rng.choice(["app", "rpc", "rpc"])
        s = out[d]
        while len(s) < k:
            s.append("ok")
        s[k - 1] = r
    if nfaults and rng.random() < 0.3:    # the same call index refused at every destination, kinds mixed
        k = rng.randint(1, maxk)
        for d in ("p1", "p2", "p3"):
            s = out[d]
            while len(s) < k:
                s.append("ok")
            s[k - 1] = "app" if d == "p1" else rng.choice(["app", "rpc"])
    if rng.random() < 0.08:     # a destination that is down from some point on
        d = rng.choice(["p2", "p3"])
        k = rng.randint(1, maxk)
        s = out[d]
        while len(s) < k:
            s.append("ok")
        out[d] = s[:k - 1] + ["rpc"] * 40
    return out


def script(rng, maxk, faulty=True):
    alloc = json.loads(json.dumps(rng.choice(ALLOCS)))
    if faulty and rng.random() < 0.08:
        k = rng.randint(1, 3)
        alloc = (alloc * 3)[:k - 1] + [{"ok": False, "peers": []}]
    nf = rng.choice([0, 0, 1, 1, 2, 3]) if faulty else 0
    pinres = []
    if faulty and rng.random() < 0.25:
        k = rng.randint(1, 5)
        pinres = [True] * (k - 1) + [False]
    return {"alloc": alloc, "out": fault_script(rng, nf, maxk), "pinres": pinres}


def r_random(rng, cid):
    nb = rng.randint(1, 9)
    blocks = []
    for i in range(nb):
        if i > 0 and rng.random() < 0.3:
            links = sorted(rng.sample(range(1, i + 1), rng.randint(1, min(i, 3))))
            blocks.append({"kind": "proto", "size": rng.randint(0, 20), "links": links})
        else:
            blocks.append({"kind": "raw", "size": rng.randint(2, 40), "links": []})
    stream = list(range(1, nb + 1))
    for _ in range(rng.choice([0, 0, 1, 2])):
        stream.insert(rng.randint(0, len(stream)), rng.randint(1, nb))
    shard = rng.random() < 0.65
    f = rng.choice(FACTORS)
    if rng.random() < 0.75:
        limit = {"k": rng.randint(1, len(stream)), "delta": rng.choice([-1, 0, 0, 1, 1, 2, 5])}
    else:
        limit = {"abs": rng.choice([100, 1000, 100000])}
    return {"id": cid, "mode": "R", "class": "random", "shard": shard, "limit": limit, "rmin": f[0], "rmax": f[1],
            "local": (not shard) and rng.random() < 0.3, "name": rng.choice(["n", "a-b", ""]),
            "script": script(rng, 2 * nb + 4), "blocks": blocks, "stream": stream, "root": nb}


def r_boundary(rng, cid):
    """sizes chosen so that the running shard size hits limit-1, limit, limit+1 exactly"""
    nb = rng.randint(2, 6)
    sizes = [rng.randint(2, 30) for _ in range(nb)]
    k = rng.randint(1, nb)
    f = rng.choice(FACTORS[:3])
    return {"id": cid, "mode": "R", "class": "boundary", "shard": True,
            "limit": {"k": k, "delta": rng.choice([-1, 0, 1])}, "rmin": f[0], "rmax": f[1], "local": False,
            "name": "bd", "script": script(rng, 2 * nb + 4, faulty=rng.random() < 0.3),
            "blocks": [{"kind": "raw", "size": s, "links": []} for s in sizes],
            "stream": list(range(1, nb + 1)), "root": nb}


def r_mixed(rng, cid):
    """one block refused by EVERY destination, with different kinds of refusal (RPC-level at some,
    daemon-level at the others): the block reaches no daemon, so the add must not succeed"""
    nb = rng.randint(1, 6)
    peers = rng.choice([["p2", "p3"], ["p1", "p2"], ["p3", "p1"], ["p1", "p2", "p3"], ["p3", "p2"]])
    shard = rng.random() < 0.5
    k = rng.randint(1, nb + (2 if shard else 0))       # call index at every destination (same block)
    kinds = {}
    remote = [d for d in peers if d != "p1"]
    rpc_at = set(rng.sample(remote, rng.randint(1, len(remote)))) if len(peers) > 1 else set()
    if len(rpc_at) == len(peers):                      # keep at least one daemon-level refusal
        rpc_at.discard(rng.choice(sorted(rpc_at)))
    out = {"p1": [], "p2": [], "p3": []}
    for d in peers:
        out[d] = ["ok"] * (k - 1) + ["rpc" if d in rpc_at else "app"]
    f = rng.choice(FACTORS[:3])
    return {"id": cid, "mode": "R", "class": "mixed-refusal", "shard": shard,
            "limit": rng.choice([{"abs": 100000}, {"k": rng.randint(1, nb), "delta": 1}]),
            "rmin": f[0], "rmax": f[1], "local": False, "name": "mx",
            "script": {"alloc": [{"ok": True, "peers": peers}], "out": out, "pinres": []},
            "blocks": [{"kind": "raw", "size": rng.randint(2, 30), "links": []} for _ in range(nb)],
            "stream": list(range(1, nb + 1)), "root": nb}


def r_big(cid, nblocks, alloc, limit_abs=10 ** 6, out=None, size=3):
    """one shard (or a few) with about MaxLinks links of tiny blocks: the indirection boundary"""
    return {"id": cid, "mode": "R", "class": "big%d" % nblocks, "shard": True, "limit": {"abs": limit_abs},
            "rmin": 1, "rmax": 2, "local": False, "name": "big",
            "script": {"alloc": alloc, "out": out or {"p1": [], "p2": [], "p3": []}, "pinres": []},
            "blocks": [{"kind": "raw", "size": size, "links": []} for _ in range(nblocks)],
            "stream": list(range(1, nblocks + 1)), "root": nblocks}


def r_repeat(cid, m, dists, partial):
    """m distinct tiny blocks in one sharded add, then some of them handed in again: re-adding block k
    means m-k distinct blocks came in between.  A repeated block must not be ingested again, however
    far back its first occurrence is (Partition: every block linked exactly once across the shards)."""
    c = r_big(cid, m, [{"ok": True, "peers": ["p1"]}], limit_abs=3 * 5000 + 1)
    c["class"] = "repeat-within-%d" % m
    c["stream"] = list(range(1, m + 1)) + [m - d for d in dists if 0 <= d < m]
    c["partial"] = partial
    return c


CHUNKERS = [("size-256", 256), ("size-1024", 1024), ("size-4096", 4096), ("size-262144", 262144), ("", 262144),
            ("rabin-128-256-512", 256), ("rabin-2048", 2048), ("buzhash", 262144)]
HASHES = ["sha2-256", "sha2-256", "sha2-512", "blake2b-256", "sha3-256"]


def v_case(rng, cid, big_ok):
    chname, ch = rng.choice(CHUNKERS if big_ok else CHUNKERS[:3] + CHUNKERS[5:7])
    budget = 900 * ch if ch <= 4096 else (4 << 20)     # keep runs below ~1000 blocks / a few MB

    def fsize():
        c = rng.random()
        if c < 0.15:
            return 0
        if c < 0.45:
            return max(0, rng.choice([1, 2, 3]) * ch + rng.choice([-1, 0, 1]))
        if c < 0.55 and 175 * ch <= budget:
            return 174 * ch + rng.choice([-1, 0, 1, ch])        # more leaves than links per node
        if c < 0.8:
            return rng.randint(1, 100)
        return rng.randint(1, min(6 * ch, budget))
    kind = rng.choice(["file", "file", "nested", "nested", "many", "flat"])
    tree = []
    names = ["a", "b.txt", ".hidden", "c d", "e", "f.bin", "g", "h", ".git", "zz"]
    if kind == "file":
        tree = [{"path": rng.choice(names), "size": fsize()}]
    elif kind == "flat":
        for n in rng.sample(names, rng.randint(1, 6)):
            tree.append({"path": n, "size": fsize()})
    elif kind == "nested":
        for i in range(rng.randint(1, 8)):
            depth = rng.randint(0, 3)
            parts = [rng.choice(["d1", "d2", ".d3", "x"]) for _ in range(depth)] + ["f%d" % i]
            tree.append({"path": "/".join(parts), "size": fsize()})
    else:
        for i in range(rng.randint(40, 250)):
            d = rng.choice(["", "", "s1/", "s2/", "s1/t/"])
            tree.append({"path": "%sm%03d" % (d, i), "size": rng.choice([0, 1, 7, 50, 100, 300])})
    total = 0
    for f in tree:
        if total + f["size"] > budget:
            f["size"] = rng.randint(0, 50)
        total += f["size"]
        f["seed"] = rng.randint(1, 1 << 40)
    # a path may not be both a file and a directory
    seen_dirs = set()
    for f in tree:
        parts = f["path"].split("/")
        for i in range(1, len(parts)):
            seen_dirs.add("/".join(parts[:i]))
    tree = [f for f in tree if f["path"] not in seen_dirs]
    dedup = {}
    for f in tree:
        dedup[f["path"]] = f
    tree = list(dedup.values())
    top = "file" if kind == "file" else "dir"
    shard = rng.random() < 0.6
    cidv = rng.choice([0, 1])
    h = rng.choice(HASHES)
    if h != "sha2-256":
        cidv = 1
    rawleaves = rng.random() < 0.5
    f = rng.choice(FACTORS)
    c = rng.random()
    if c < 0.6:
        limit = {"abs": max(300, rng.choice([2, 3, 5, 10, 40]) * ch + rng.choice([-1, 0, 1, 50, 200]))}
    elif c < 0.7:
        limit = {"abs": rng.choice([64, 200, 1000])}       # may be too small: a refused add is a valid outcome
    else:
        limit = {"abs": 100 * 1024 * 1024}
    faulty = rng.random() < 0.35
    sc = script(rng, 30, faulty=faulty)
    if ch > 4096:
        # An RPC-level refusal is realised by the remote gorpc server denying the call before it reads the
        # arguments; with a block larger than the stream window the client then blocks in Write for ever
        # (the importer calls DAGService.Add with context.TODO()). Liveness is not part of C13: large-chunk
        # runs only use daemon-level ("app") failures.
        for d in sc["out"]:
            sc["out"][d] = ["app" if r == "rpc" else r for r in sc["out"][d]]
    return {"id": cid, "mode": "V", "class": kind, "shard": shard, "limit": limit, "rmin": f[0], "rmax": f[1],
            "local": (not shard) and rng.random() < 0.25, "name": rng.choice(["v", "my add", ""]),
            "script": sc, "tree": tree, "top": top,
            "via": rng.choice(["files", "multipart"]), "wrap": rng.random() < 0.5, "chunker": chname,
            "layout": rng.choice(["balanced", "trickle"]), "rawleaves": rawleaves, "cidv": cidv, "hash": h,
            "flip": rng.random() < 0.7}


def gen_cases(ctx):
    rng = random.Random(ctx.seed * 7919 + 13)
    cases = []
    nid = [0]

    def add(c):
        nid[0] += 1
        c["id"] = nid[0]
        cases.append(c)
    quick = ctx.quick()
    for _ in range(500 if quick else 12000):
        add(r_random(rng, 0))
    for _ in range(200 if quick else 4000):
        add(r_boundary(rng, 0))
    for _ in range(150 if quick else 2000):
        add(r_mixed(rng, 0))
    local = [{"ok": True, "peers": ["p1"]}]
    two = [{"ok": True, "peers": ["p1", "p2"]}]
    add(r_big(0, MAXLINKS, local))                 # exactly MaxLinks links: still a direct shard
    add(r_big(0, MAXLINKS + 1, two))               # one more: indirect
    if not quick:
        add(r_big(0, 6000, [{"ok": True, "peers": ["p2", "p3"]}],
                  out={"p1": [], "p2": ["ok"] * 3000 + ["rpc"], "p3": ["ok"] * 10 + ["app"]}))
        add(r_big(0, 2 * MAXLINKS, local))         # exact multiple: the empty trailing leaf
        add(r_big(0, 2 * MAXLINKS + 5, local, limit_abs=3 * (MAXLINKS + 3) + 1))   # indirect shard, then a direct one
    # a block handed in again after N distinct ones (de-duplication must span the whole add).  The closed-form
    # Run(in) costs TLC O(n^2), so the long streams are judged by the property predicates only (partial).
    add(r_repeat(0, 300, [0, 1, 2, 50, 299], partial=False))
    add(r_repeat(0, 20001, [1, MAXLINKS, 16384, 16385, 20000], partial=True))
    if not quick:
        ds = sorted(set([2 ** e + d for e in range(4, 17) for d in (-1, 0, 1)] + [10000, 50000, 70000] +
                        [rng.randint(2, 70000) for _ in range(40)]))
        add(r_repeat(0, 70001, ds, partial=True))
        add(r_repeat(0, 33000, [d for d in ds if d < 33000][::3], partial=True))
    for _ in range(120 if quick else 4000):
        add(v_case(rng, 0, big_ok=not quick or rng.random() < 0.15))
    # put failure exactly at the first chunk of a two-chunk file (balanced layout): see known_findings.d/c13.json
    add({"mode": "V", "class": "first-chunk-put-fails", "shard": False, "limit": {"abs": 100 * 1024 * 1024},
         "rmin": 1, "rmax": 1, "local": False, "name": "w",
         "script": {"alloc": [{"ok": True, "peers": ["p2"]}], "out": {"p1": [], "p2": ["app"], "p3": []}, "pinres": []},
         "tree": [{"path": "two-chunks", "size": 1500, "seed": 99}], "top": "file", "via": "files", "wrap": False,
         "chunker": "size-1024", "layout": "balanced", "rawleaves": True, "cidv": 1, "hash": "sha2-256", "flip": False})
    add({"mode": "V", "class": "first-chunk-put-fails", "shard": False, "limit": {"abs": 100 * 1024 * 1024},
         "rmin": 1, "rmax": 1, "local": False, "name": "w",
         "script": {"alloc": [{"ok": True, "peers": ["p2"]}], "out": {"p1": [], "p2": ["app"], "p3": []}, "pinres": []},
         "tree": [{"path": "two-chunks", "size": 1500, "seed": 99}], "top": "file", "via": "files", "wrap": False,
         "chunker": "size-1024", "layout": "trickle", "rawleaves": True, "cidv": 1, "hash": "sha2-256", "flip": False})
    # composition: Cluster.AddFile on a real Cluster (real allocate, real Cluster.Pin / checkPinType)
    def car(n, limit=10 ** 6):
        return {"mode": "C", "class": "car%d" % n, "shard": True, "limit": {"abs": limit}, "rmin": 1, "rmax": 1,
                "local": False, "name": "car", "script": {"alloc": [], "out": {}, "pinres": []}, "flip": True,
                "blocks": [{"kind": "raw", "size": 3, "links": []}] * n}
    add(car(3))
    add(car(MAXLINKS + 1))
    add(car(40, limit=31))
    if not quick:
        add(car(2 * MAXLINKS))
        add(car(3 * MAXLINKS + 7))
    k = 0
    while k < (12 if quick else 300):
        c = v_case(rng, 0, big_ok=False)
        if c["limit"]["abs"] < 300:
            continue
        c.update({"mode": "C", "rmin": 1, "rmax": 1, "local": False, "flip": k % 2 == 0, "via": "multipart",
                  "script": {"alloc": [], "out": {}, "pinres": []}})
        if c["shard"]:      # every block must fit: a refused add is not what this mode observes
            c["limit"]["abs"] = max(c["limit"]["abs"], 20000)
        add(c)
        k += 1
    return cases


def shard_links(rec):
    """largest number of data links of any pinned shard (for the violation key only)"""
    g = rec["out"]["graph"]
    data = set(b["id"] for b in rec["in"]["blk"])

    def count(x):
        n = 0
        for l in g.get(x, {}).get("links", []):
            n += 1 if l in data else count(l)
        return n
    m = 0
    for ev in rec["out"]["evs"]:
        if ev["t"] == "pin" and ev["ok"] and ev["pin"]["type"] == "shard":
            m = max(m, count(ev["pin"]["cid"]))
    return m


def swallowed_old_root(rec):
    """The adder reported success although DAGService.Add returned an error, and every such block is the
    first child of a file node built by the balanced layout (the 'old root' of go-unixfs balanced.Layout)."""
    errs = rec.get("adderrs") or []
    if not (rec["out"]["ok"] and errs and rec.get("layout") == "balanced"):
        return False
    first = set(b["links"][0] for b in rec["in"]["blk"] if len(b["links"]) >= 2)
    return all(e in first for e in errs)


def key_for(rec, pred):
    i = rec["in"]
    kind = "shard" if i["shard"] else ("single-local" if i["local"] else "single")
    if rec["mode"] == "C":
        kind += "-cluster"
    if pred in ("Delivered", "Closed", "Partition", "ContentOK", "StoredByAllocation") and swallowed_old_root(rec):
        return "C13:%s:add-error-swallowed:balanced-old-root" % pred
    if pred == "DepthCovers":
        qual = "links>MaxLinks" if shard_links(rec) > i["maxLinks"] else "links<=MaxLinks"
    elif pred == "ContentOK":
        c = rec["out"]["content"]
        if any(f["shain"] != f["shaout"] for f in c["files"]):
            qual = "readback"
        elif c["refroot"] and c["refroot"] != c["rootcid"]:
            qual = "reference-root"
        else:
            qual = "root-differs-with-sharding"
    else:
        faults = any(ev["t"] == "put" and any(r["r"] != "ok" for r in ev["res"]) for ev in rec["out"]["evs"]) or \
            any(ev["t"] in ("pin", "alloc") and not ev["ok"] for ev in rec["out"]["evs"])
        qual = "faults" if faults else "nofault"
    return "C13:%s:%s:%s" % (pred, kind, qual)


def validate(ctx, trace, cases_by_id):
    """TLC decides: property predicates and Conforms on every recorded run."""
    verdict = trace + ".verdict"
    r = tla.run_tlc(ctx.specdir(), "AdderTrace.tla", "AdderTrace.cfg", workers=1, timeout=3000,
                    heap=os.environ.get("VERIF_TLC_HEAP", "6g"),
                    env_extra={"TRACE_FILE": trace, "VERDICT_FILE": verdict})
    ctx.log("tlc AdderTrace on %s: rc=%s %.1fs" % (os.path.basename(trace), r.rc, r.wall))
    if r.timed_out:
        raise vcheck.Infra("AdderTrace timed out")
    if not os.path.exists(verdict) or r.error:
        print(r.out[-3000:])
        raise vcheck.Infra("AdderTrace produced no verdict: %s" % (r.error or r.rc))
    v = json.loads(open(verdict).readline())
    recs = [json.loads(l) for l in open(trace)]
    if v["n"] != len(recs):
        raise vcheck.Infra("verdict covers %d of %d records" % (v["n"], len(recs)))
    bad = {b["i"]: b["failed"] for b in v["bad"]}
    drift = set(v["drift"])
    ctx.traces_validated += len(recs) - len(set(bad) | drift)
    ctx.model_runs.append({"module": "AdderTrace.tla", "records": len(recs), "wall_s": round(r.wall, 1)})
    for i in sorted(bad):
        rec = recs[i - 1]
        for pred in sorted(bad[i]):
            summary = {"ok": rec["out"]["ok"], "root": rec["out"]["root"], "err": rec.get("err", ""),
                       "pins": [e for e in rec["out"]["evs"] if e["t"] == "pin"][:8],
                       "content": rec["out"]["content"] if pred == "ContentOK" else None,
                       "max_shard_links": shard_links(rec)}
            ctx.violation(key_for(rec, pred), "%s does not hold on a recorded %s run (case %d, class %s): %s" % (
                pred, rec["mode"], rec["id"], rec["class"], json.dumps(summary)[:1500]),
                cases_by_id.get(rec["id"]))
    drift_only = sorted(drift - set(bad))
    return len(recs), drift_only, recs


def drive(ctx, cases):
    by_id = {c["id"]: c for c in cases}
    inp = os.path.join(ctx.work, "c13_cases.ndjson")
    with open(inp, "w") as f:
        for c in cases:
            f.write(json.dumps(c) + "\n")
    total = 0
    drifts = []
    for mode, test in (("R", "TestReplay"), ("V", "TestAdder"), ("C", "TestCluster")):
        if not any(c["mode"] == mode for c in cases):
            continue
        trace = os.path.join(ctx.work, "c13_%s.ndjson" % mode)
        ctx.go_test("c13_adder", run=test + "$", infile=inp, env={"VERIF_TRACE": trace}, timeout=3000)
        n, d, recs = validate(ctx, trace, by_id)
        total += n
        ctx.extra["runs_checked_by_tlc_" + mode] = n
        if d:
            drifts.append((mode, d, recs[d[0] - 1]))
    return total, drifts


def setup(ctx):
    ctx.rule = ("R inputs = (block stream with sizes/links/repeats, shard or single, shard size at +-1 of a prefix sum, "
                "replication factors, local flag, allocation script, per-destination put outcome script, pin outcome "
                "script), seeded random plus the MaxLinks boundary cases; V inputs = (generated file tree, chunker, "
                "layout, raw-leaves, CID version, hash, wrap, FromFiles/FromMultipart, shard size, fault script), "
                "seeded random; non-trivial = more than 3 pins, or a fault fired, or more than one file; distinct by "
                "abstract case content")
    ctx.assumptions = [
        "byte identity and root equality are decided by TLC on logged SHA-256 / CID strings computed by the driver "
        "(go-unixfs io.DagReader over the delivered block map; reference root from go-unixfs/importer + "
        "go-ipfs-chunker + go-unixfs/io directories)",
        "'delivered to the destination daemons' is the union over destinations: the adder by design moves on when "
        "one destination stored the block",
        "for local=true adds the allocations clause is not asserted (blocks go to the local daemon only, by design)",
        "an RPC-level put failure is realised as an authorization error of the remote gorpc server",
        "statement clause 'shard under the size limit' is read as <= limit (the code keeps shards strictly below)",
    ]


def run(ctx):
    setup(ctx)
    # SPEC
    if not os.environ.get("VERIF_C13_NOMC"):      # (mutant self-tests skip the model-only stage)
        cfg = "AdderMC_quick.cfg" if ctx.quick() else "AdderMC_thorough.cfg"
        ctx.tlc("AdderMC.tla", cfg, workers=int(os.environ.get("VERIF_WORKERS", "8")), timeout=3000)
        ctx.exhaustive = True
        if not ctx.quick():     # two simultaneous put faults (smaller streams)
            ctx.tlc("AdderMC.tla", "AdderMC_thorough2.cfg", workers=int(os.environ.get("VERIF_WORKERS", "8")),
                    timeout=3000)
        w = ctx.tlc("AdderMC.tla", "AdderMC_coded.cfg", workers=4, timeout=1200, expect_violation=True, count=False)
        ctx.extra["design_witness_coded_depth_rule"] = bool(w.violation)
    # GEN + R + V
    cases = gen_cases(ctx)
    ctx.log("generated %d cases" % len(cases))
    total, drifts = drive(ctx, cases)
    known = ctx.known()
    unknown = [v for v in ctx.violations if (ctx.prop, v.get("key", "")) not in known]
    if drifts and not unknown:
        mode, d, rec = drifts[0]
        raise vcheck.Infra("spec out of date: %d recorded %s runs satisfy every property predicate but not the "
                           "transcription (first: case %d class %s err=%r)" % (len(d), mode, rec["id"], rec["class"],
                                                                               rec.get("err")))


def replay(ctx, path):
    setup(ctx)
    j = json.load(open(path))
    c = j.get("case")
    if not c:
        raise vcheck.Infra("replay file has no case")
    total, drifts = drive(ctx, [c])
    if not ctx.samples:
        ctx.samples.append({"replayed": c.get("id")})
    if drifts and not ctx.violations:
        raise vcheck.Infra("spec out of date on the replayed case")
