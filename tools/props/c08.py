"""C08 - pins and API records survive every encoding boundary; decoders never crash.

SPEC  CodecMC: the laws of the lossy projection Proj over the whole executed case space
      (in-domain, idempotent, loses only the documented fields, export = pb;json;pb, Proj accepted by
      the verdict operator) - exhaustive.
GEN   CodecGen: TLC enumerates the cases: pairwise-complete (quick) / three-wise-complete (thorough)
      over 2-3 base values of each of the 8 record types, for every format of the record, plus a
      seeded sample of the full product of the pin domains.
R     the Go driver concretises each abstract value (seeded), runs the real encoder/decoder pair of
      the boundary and records the abstraction of what came back; structured corruptions and seeded
      random bytes go into every decoder (sampling).
V     CodecTrace: TLC decides every observation field by field against Proj (never Pin.Equals) and
      every decoder outcome against AllowedOutcomes.
"""
import json
import os

import tla
import vcheck


def gen(ctx, strength, nrandom, path, seqpath=None, nseq=0):
    r = tla.run_tlc(ctx.specdir(), "CodecGen.tla", "CodecGen.cfg", workers=1, timeout=1500, heap="8g",
                    extra=["-seed", str(ctx.seed)],
                    env_extra=dict({"STRENGTH": str(strength), "NRANDOM": str(nrandom), "CASES_FILE": path},
                                   **({"SEQ_FILE": seqpath, "NSEQ": str(nseq)} if seqpath else {})))
    ctx.log("tlc CodecGen strength=%d nrandom=%d: rc=%s %.1fs" % (strength, nrandom, r.rc, r.wall))
    if r.rc != 0 or not os.path.exists(path):
        print(r.out[-3000:])
        raise vcheck.Infra("CodecGen did not produce the cases")
    n = sum(1 for _ in open(path)) - 1
    hdr = json.loads(open(path).readline())
    if hdr.get("n") != n:
        raise vcheck.Infra("CodecGen wrote %d cases, header says %s" % (n, hdr.get("n")))
    return n


def decide(ctx, trace, fuzz, replaying=False, seqtrace=None):
    verdict = os.path.join(ctx.work, "c08_verdict.ndjson")
    if seqtrace is None:
        seqtrace = os.path.join(ctx.work, "c08_noseq.ndjson")
        open(seqtrace, "w").close()
    r = tla.run_tlc(ctx.specdir(), "CodecTrace.tla", "CodecTrace.cfg", workers=1, timeout=3000, heap="8g",
                    env_extra={"TRACE_FILE": trace, "FUZZ_FILE": fuzz, "SEQ_TRACE_FILE": seqtrace, "VERDICT_FILE": verdict})
    ctx.log("tlc CodecTrace: rc=%s %.1fs" % (r.rc, r.wall))
    if r.rc != 0 or not os.path.exists(verdict):
        print(r.out[-3000:])
        raise vcheck.Infra("CodecTrace produced no verdict")
    v = json.loads(open(verdict).readline())
    recs = [json.loads(l) for l in open(trace)] if os.path.getsize(trace) else []
    rows = [json.loads(l) for l in open(fuzz)] if os.path.getsize(fuzz) else []
    if v["n"] != len(recs) or v["nfuzz"] != len(rows):
        raise vcheck.Infra("verdict covers %d/%d observations and %d/%d outcome rows" % (v["n"], len(recs), v["nfuzz"], len(rows)))
    if rows and not replaying and (v.get("missing") or v.get("unknown")):
        raise vcheck.Infra("decoder totality: corruption classes not exercised %s / not in the specification %s" % (v.get("missing"), v.get("unknown")))
    nbad = 0
    for b in v["bad"]:
        rec = recs[b["i"] - 1]
        nbad += 1
        case = {k: rec[k] for k in ("rec", "fmt", "v", "ok", "got", "stage", "err", "culprit") if k in rec}
        case["expected_by_spec"] = b.get("exp")
        if "<error>" in b["fields"]:
            cul = "+".join(rec.get("culprit") or []) or "any"
            ctx.violation("C08:%s:%s.%s:error" % (rec["fmt"], rec["rec"], cul),
                          "%s of a well-formed %s fails at the %s boundary (%s: %s); field(s) that trigger it: %s"
                          % (rec.get("stage", "round trip"), rec["rec"], rec["fmt"], rec.get("stage"), (rec.get("err") or "")[:200], cul), case)
        else:
            for f in sorted(b["fields"]):
                ctx.violation("C08:%s:%s.%s" % (rec["fmt"], rec["rec"], f),
                              "%s.%s does not survive the %s boundary: sent %s, got %s"
                              % (rec["rec"], f, rec["fmt"], json.dumps(rec["v"].get(f)), json.dumps(rec["got"].get(f))), case)
    for i in v["badfuzz"]:
        row = rows[i - 1]
        ctx.violation("C08:totality:%s:%s" % (row["dec"], row["outcome"]),
                      "decoder %s: %s on %d input(s) of class %s (%s)" % (row["dec"], row["outcome"], row["n"], row["class"], row.get("detail", "")[:160]),
                      row)
    seqs = [json.loads(l) for l in open(seqtrace)] if os.path.getsize(seqtrace) else []
    if v.get("nseq") != len(seqs):
        raise vcheck.Infra("verdict covers %s of %d sequence observations" % (v.get("nseq"), len(seqs)))
    for b in v["badseq"]:
        so = seqs[b["n"] - 1]
        case = {"seq": True, "rec": so["rec"], "fmt": so["fmt"], "items": so["items"], "ok": so["ok"], "got": so["got"],
                "extra": so.get("extra"), "stage": so.get("stage"), "err": so.get("err"), "bad_items": b["items"]}
        fields = sorted({f for it in b["items"] for f in it["fields"]})
        for fld in fields:
            ctx.violation("C08:%s:%s[]%s" % (so["fmt"], so["rec"], "" if fld.startswith("<") else "." + fld) + (":" + fld.strip("<>") if fld.startswith("<") else ""),
                          "%d %s values through one %s encoder/decoder: %s (%s %s)" % (
                              len(so["items"]), so["rec"], so["fmt"],
                              {"<error>": "the whole restore/decode fails or an item is missing/undecodable",
                               "<count>": "the number of values changed", "<extra>": "values appear that were never stored"}.get(
                                  fld, "field %s of an item comes back different from what was stored in its slot" % fld),
                              so.get("stage") or "", (so.get("err") or "")[:160]), case)
    ctx.traces_validated += len(seqs) - len(v["badseq"])
    ctx.extra["sequence_observations_decided_by_tlc"] = len(seqs)
    ctx.traces_validated += len(recs) - nbad
    ctx.extra["observations_decided_by_tlc"] = len(recs)
    ctx.extra["decoder_outcome_rows_decided_by_tlc"] = len(rows)
    return v


def run(ctx):
    ctx.level = "exploration"
    ctx.rule = ("a case = (record type, format, abstract value); quick: pairwise-complete over 2-3 base values per record type "
                "x every format of the record + 2000 seeded values from the full product of the pin domains; thorough: "
                "three-wise-complete + 60000; non-trivial = the value is not the minimal base value; distinct by abstract content. "
                "Sequence cases (several values through one encoder/decoder: 2..8-pin states through the dsstate snapshot into a fresh / "
                "a non-empty in-memory datastore and through the export stream and through the real cmdutils ExportState -> ImportState of Raft state managers on temp dirs; committed as LogOps through the real go-libp2p-raft FSM of consensus/raft, which decodes into a reused LogOp; lists of every record type via msgpack and JSON; bursts of 3..8 metrics through real pubsubmon monitors on a two-peer gossipsub): all "
                "ordered pairs over the one-field variations of the minimal base and all bases + 40 (quick) / 1500 (thorough) seeded "
                "sequences per length 3..8, record type and format. Decoder totality inputs are counted separately (decoder_inputs_sampled) and are SAMPLING: structured "
                "corruptions of real encodings (every truncation offset, byte substitutions at every offset, inserted "
                "oversize lengths, wrong type / invalid CID-peer-multiaddr / non-UTF8 per field, deep nesting) + seeded random bytes")
    ctx.assumptions = [
        "msgpack handles are configured in the driver as go-libp2p-gorpc (zero MsgpackHandle), go-libp2p-raft (decode with "
        "ErrorIfNoField) and pubsubmon configure them; the transports themselves are not run",
        "equality of abstract values (Codec.tla Norm): nil = empty for lists and maps, peer/address lists compared as sets with "
        "multiplicity count, time.Time{} = Unix(0,0) (both mean 'never expires'), instants compared regardless of location",
        "every 32-bit msgpack length/count header in an input fed to a msgpack decoder is clamped below 2^20 (ugorji/codec reading "
        "from a stream allocates what a bin32/str32/array32/map32 header announces: a 20-byte random input made the driver grow "
        "to 9.8 GB; an amplification, not a crash, so it is not fed on the shared machine)",
        "state export/import is reproduced from cmdutils (List -> json lines -> Decode -> Add) on real dsstate",
    ]
    quick = ctx.quick()
    cases = os.path.join(ctx.work, "c08_cases.ndjson")
    seqcases = os.path.join(ctx.work, "c08_seqcases.ndjson")
    if quick:
        # SPEC
        ctx.tlc("CodecMC.tla", "CodecMC_quick.cfg", workers=8, timeout=3000)
        # GEN
        n = gen(ctx, 2, 2000, cases, seqcases, 40)
    else:
        # SPEC + GEN in one run: every state of the three-wise model is a case, printed by the (parallel) model
        # checker while it checks the laws of Proj on it; the seeded full-product sample comes from CodecGen
        r = ctx.tlc("CodecMC.tla", "CodecMC_emit.cfg", workers=8, timeout=3000, heap="8g")
        n = gen(ctx, 1, 60000, cases, seqcases, 1500)
        seen = set(l for l in open(cases))
        with open(cases, "a") as f:
            for line in r.out.splitlines():
                if line.startswith('"{'):
                    c = json.loads(line) + "\n"
                    if c not in seen:
                        seen.add(c)
                        f.write(c)
                        n += 1
        if n < r.distinct // 2:
            raise vcheck.Infra("the model checker printed %d cases for %d states" % (n, r.distinct))
    ctx.exhaustive = True
    ctx.log("TLC enumerated %d cases" % n)
    ctx.extra["cases_enumerated_by_tlc"] = n
    # R
    trace = os.path.join(ctx.work, "c08_obs.ndjson")
    fuzz = os.path.join(ctx.work, "c08_fuzz.ndjson")
    ctx.go_test("c08_codec", run="TestRoundTrip$", infile=cases, env={"VERIF_TRACE": trace}, timeout=3000)
    seqtrace = os.path.join(ctx.work, "c08_seqobs.ndjson")
    ctx.go_test("c08_codec", run="TestSequences$", infile=seqcases, env={"VERIF_TRACE": seqtrace}, timeout=3000)
    d = ctx.go_test("c08_codec", run="TestDecoderTotality$", infile=cases,
                    env={"VERIF_FUZZ": fuzz, "VERIF_FUZZ_RANDOM": 3000 if quick else 200000}, timeout=3000,
                    panic_is_violation=True)
    if not os.path.exists(fuzz):
        if d.violations:
            return
        raise vcheck.Infra("decoder totality driver wrote no outcome file")
    # V
    decide(ctx, trace, fuzz, seqtrace=seqtrace)


def replay(ctx, path):
    j = json.load(open(path))
    case = j.get("case") or {}
    trace = os.path.join(ctx.work, "c08_obs.ndjson")
    fuzz = os.path.join(ctx.work, "c08_fuzz.ndjson")
    open(trace, "w").close()
    open(fuzz, "w").close()
    seqtrace = None
    if case.get("seq"):
        seqcases = os.path.join(ctx.work, "c08_seqcases.ndjson")
        seqtrace = os.path.join(ctx.work, "c08_seqobs.ndjson")
        pre = case["items"][1:] + case["items"][:1] if case["fmt"] == "snapshot-nonempty" else []
        with open(seqcases, "w") as f:
            # the snapshot is written in datastore (map) iteration order, which the code leaves free: repeat the case
            for _ in range(32):
                f.write(json.dumps({"rec": case["rec"], "fmt": case["fmt"], "items": case["items"], "pre": pre}) + "\n")
        ctx.go_test("c08_codec", run="TestSequences$", infile=seqcases,
                    env={"VERIF_TRACE": seqtrace, "VERIF_SEED": j.get("seed", ctx.seed)})
    elif "dec" in case:
        ctx.go_test("c08_codec", run="TestDecoderTotality$", replay=os.path.abspath(path), env={"VERIF_FUZZ": fuzz})
    elif "rec" in case:
        cases = os.path.join(ctx.work, "c08_cases.ndjson")
        with open(cases, "w") as f:
            f.write(json.dumps({"id": 1, "rec": case["rec"], "fmt": case["fmt"], "v": case["v"]}) + "\n")
        ctx.seed = j.get("seed", ctx.seed)
        ctx.go_test("c08_codec", run="TestRoundTrip$", infile=cases, env={"VERIF_TRACE": trace, "VERIF_SEED": ctx.seed})
    else:
        raise vcheck.Infra("replay file holds neither an observation nor a decoder input")
    decide(ctx, trace, fuzz, replaying=True, seqtrace=seqtrace)
    ctx.samples.append(case)
