"""C04 - Pin, unpin and update change the pinset exactly as requested, or not at all.

SPEC  ClusterAPIMC: for every environment (follower, default factors, metrics, blocks), every pinset of a small
      universe and every call, every outcome of the transcribed code (Decide/Outcomes: pin, setupPin, PinUpdate,
      Unpin, unpinClusterDag, PinPath, PinOptions.Equals; allocation by Allocator!Outs) satisfies the property
      predicate EffectOK (allocation clause: Allocator!Good). A second run with the constants set to the pinned
      commit's behaviour (EqualsMode=ascoded, UpdateGuard=FALSE) must FAIL: its counterexample becomes a replay script.
GEN   call histories from TLC -simulate on ClusterAPISim (re-pins identical to / one option away from stored entries,
      updates, unpins of sharded content, typed pins, paths, metric changes, BlockGet faults appearing and
      disappearing) + a directed one-option sweep + directed sharded-unpin scripts with BlockGet fault injection
      (cluster-DAG block failing / a shard block failing / none) and consensus fault injection (LogUnpin failing for
      a shard in either position / the cluster-DAG / the meta pin / a data pin, LogPin failing) each with a retry.
R     each history is executed on a real Cluster; after each call Cluster.Pins(), result and LogPin/LogUnpin are recorded.
DEFER ClusterAPIDeferMC: the consensus acknowledges LogPin/LogUnpin into a queue, reads see the committed pinset, Flush
      commits in order; every history with Flush at every position is checked (FlushOK: at a flushed state the pinset is
      the sequential application of the acknowledged successful calls) and replayed on a real Cluster over
      rig.DeferredState; TLC judges every flushed state.
V     TLC (ClusterAPITrace) evaluates EffectOK (property) and StepOK (transcription) on every recorded tuple.
"""
import json
import os
import random
import re

import tla
import vcheck

PLAIN = {"name": "n1", "mode": "rec", "rmin": 1, "rmax": 2, "exp": "f1", "meta": [["a", "x"], ["b", "x"]],
         "orig": ["o1"], "ua": [], "upd": ""}
DIMS = {
    "name": ["", "n1", "n2"],
    "mode": ["rec", "dir"],
    "f": [(0, 0), (-1, -1), (1, 2), (2, 2), (2, 1), (0, 2), (-1, 2), (3, 3), (1, 1)],
    "exp": ["none", "past", "f1", "f2"],
    "meta": [[], [["a", "x"]], [["a", "y"], ["b", "x"]], [["a", "x"], ["b", "x"]], [["b", "x"]],
             [["a", "x"], ["b", "x"], ["c", "x"]]],
    "orig": [[], ["o1"], ["o2"], ["o1", "o2"]],
    "ua": [[], ["p3"], ["p2", "p3"]],
}
PATHS = [["/ipfs/ok1/x", "c1"], ["/ipfs/ok3", "c3"], ["/ipns/okm", "m1"]]
BLOCKS = [["d1", ["s1", "s2"]]]
MS_GOOD = {"p1": "v1", "p2": "v0", "p3": "v2"}


def env(follower=False, d=(1, 2), strat="asc", ms=None, fail=(), logfail=()):
    return {"follower": follower, "dmin": d[0], "dmax": d[1], "strat": strat, "ms": dict(ms or MS_GOOD),
            "paths": PATHS, "blocks": BLOCKS, "fail": list(fail), "logfail": [list(x) for x in logfail],
            "deferred": False, "getfail": []}


def sharded(cids=("m1", "d1", "s1", "s2")):
    def t(c, ty, d, f, al, rf):
        return {"cid": c, "type": ty, "mode": "dir" if d == 0 else "rec", "depth": d, "rmin": f[0], "rmax": f[1],
                "allocs": al, "name": "sh", "exp": "none", "meta": [], "orig": [], "ua": [], "upd": "", "ref": rf}
    g = [t("m1", "meta", 0, (1, 2), [], "d1"), t("d1", "cdag", 0, (-1, -1), [], "m1"),
         t("s1", "shard", 1, (1, 2), ["p1"], ""), t("s2", "shard", 1, (1, 2), ["p2", "p3"], "s1")]
    return [e for e in g if e["cid"] in cids]


def fault_scripts():
    """Unpin of sharded content with BlockGet faults: cluster-DAG block failing, a shard block failing, none;
    the fault appearing/disappearing between calls; a shard entry already missing from the pinset."""
    out = []
    other = {"cid": "c2", "type": "data", "mode": "rec", "depth": -1, "rmin": 1, "rmax": 2, "allocs": ["p2", "p1"],
             "name": "n1", "exp": "f1", "meta": [["a", "x"]], "orig": [], "ua": [], "upd": "", "ref": ""}
    um, up = {"op": "unpin", "cid": "m1"}, {"op": "unpinpath", "path": "/ipns/okm"}

    def bf(*f):
        return {"op": "blockfail", "fail": list(f)}
    for first in (um, up):
        for fail in (["d1"], ["s1"], ["s2", "d1"], ["s1", "s2"], []):
            out.append({"src": "blockfault", "env": env(fail=fail), "pre": sharded() + [other],
                        "steps": [first, um, bf(), up, um]})
        out.append({"src": "blockfault", "env": env(), "pre": sharded() + [other],
                    "steps": [bf("d1"), first, bf("s2"), {"op": "unpin", "cid": "s1"}, {"op": "unpin", "cid": "d1"}, first, um]})
        out.append({"src": "blockfault", "env": env(fail=["d1"]), "pre": sharded(("m1", "d1", "s2")) + [other],
                    "steps": [first, bf(), first]})
    return out


def with_dim(o, dim, v):
    o = json.loads(json.dumps(o))
    if dim == "f":
        o["rmin"], o["rmax"] = v
    else:
        o[dim] = v
    return o


def pin(c, o):
    return {"op": "pin", "cid": c, "o": o}


def directed(rng):
    """One-option sweep: pin c1 with base options, re-pin with one option changed, re-pin identically, go back."""
    out = []
    for d in [(1, 2), (-1, -1), (2, 3)]:
        for dim, vals in DIMS.items():
            for v in vals:
                o2 = with_dim(PLAIN, dim, v)
                steps = [pin("c1", PLAIN), pin("c1", o2), {"op": "metrics", "ms": {"p1": "v1", "p2": "bad", "p3": "v0"}},
                         pin("c1", o2), pin("c1", PLAIN)]
                out.append({"src": "sweep", "env": env(d=d), "pre": [], "steps": steps})
    # follower: every kind of write
    fsteps = [pin("c3", PLAIN), pin("c2", PLAIN), {"op": "unpin", "cid": "c2"}, {"op": "unpin", "cid": "m1"},
              {"op": "update", "from": "c2", "to": "c3", "o": PLAIN}, pin("c3", with_dim(PLAIN, "upd", "c2")),
              {"op": "pinpath", "path": "/ipfs/ok3", "o": PLAIN}, {"op": "unpinpath", "path": "/ipns/okm"}]
    # the same writes through the RPC endpoints (REST API, adder, other peers), incl. a typed pin as the adder sends it
    fsteps += [dict(c, via="rpc") for c in fsteps if c["op"] in ("pin", "unpin", "pinpath", "unpinpath")]
    fsteps.append({"op": "rpcpin", "p": {"cid": "c3", "type": "data", "mode": "rec", "depth": -1, "rmin": 1, "rmax": 2,
                                          "allocs": ["p3"], "name": "adder", "exp": "none", "meta": [], "orig": [], "ua": [],
                                          "upd": "", "ref": ""}})
    return out, fsteps


def preset_scripts():
    """Typed pins with caller-preset allocations (as the adder sends them / as the RPC Cluster.Pin accepts them) x request
    factors unset / explicit x cluster defaults -1 / positive."""
    out = []

    def t(c, ty, d, f, al, name="adder"):
        return {"op": "rpcpin", "p": {"cid": c, "type": ty, "mode": "dir" if d == 0 else "rec", "depth": d, "rmin": f[0],
                                      "rmax": f[1], "allocs": al, "name": name, "exp": "none", "meta": [], "orig": [], "ua": [],
                                      "upd": "", "ref": ""}}
    for d in ((-1, -1), (1, 2), (2, 3)):
        for f in ((0, 0), (-1, -1), (1, 2), (0, 2)):
            steps = [t("c1", "data", -1, f, ["p3", "p2"]), t("c3", "data", -1, f, ["p1"]), t("s1", "shard", 1, f, ["p2"]),
                     t("c1", "data", -1, f, ["p3", "p2"]), t("c1", "data", -1, f, ["p1"], name="again"),
                     {"op": "unpin", "cid": "c3"}, t("c3", "data", 0, f, ["p3", "p1", "p2"])]
            out.append({"src": "preset", "env": env(d=d), "pre": [], "steps": steps})
    return out


def logfault_scripts():
    """Consensus faults: LogUnpin failing for a shard in either position / the cluster-DAG / the meta pin / a data pin,
    LogPin failing; each followed by a retry once the fault is gone (which must finish the removal / store the pin)."""
    out = []
    other = {"cid": "c2", "type": "data", "mode": "rec", "depth": -1, "rmin": 1, "rmax": 2, "allocs": ["p2", "p1"],
             "name": "n1", "exp": "f1", "meta": [["a", "x"]], "orig": [], "ua": [], "upd": "", "ref": ""}
    um, up = {"op": "unpin", "cid": "m1"}, {"op": "unpinpath", "path": "/ipns/okm"}

    def lf(*f):
        return {"op": "logfail", "logfail": [list(x) for x in f]}
    for first in (um, up):
        for c in ("s1", "s2", "d1", "m1"):
            # fault present from the start; retry with the fault still there; retry without
            out.append({"src": "logfault", "env": env(logfail=[("unpin", c)]), "pre": sharded() + [other],
                        "steps": [first, um, lf(), first, um]})
            # fault appears later, a different one replaces it, then none
            out.append({"src": "logfault", "env": env(), "pre": sharded() + [other],
                        "steps": [lf(("unpin", c)), first, lf(("unpin", "s1" if c != "s1" else "s2")), um, lf(), um]})
        out.append({"src": "logfault", "env": env(logfail=[("unpin", "s1"), ("unpin", "s2")]), "pre": sharded() + [other],
                    "steps": [first, lf(("unpin", "s1")), first, lf(), first]})
    # data pins: LogUnpin / LogPin failing, then retried
    out.append({"src": "logfault", "env": env(logfail=[("unpin", "c2")]), "pre": sharded() + [other],
                "steps": [{"op": "unpin", "cid": "c2"}, um, lf(), {"op": "unpin", "cid": "c2"}]})
    for d in ((1, 2), (-1, -1)):
        out.append({"src": "logfault", "env": env(d=d, logfail=[("pin", "c1"), ("pin", "c3")]), "pre": [other],
                    "steps": [pin("c1", PLAIN), pin("c3", with_dim(PLAIN, "upd", "c2")),
                              {"op": "update", "from": "c2", "to": "c3", "o": PLAIN}, pin("c2", with_dim(PLAIN, "name", "n2")),
                              lf(), pin("c1", PLAIN), lf(("pin", "c1")), pin("c1", with_dim(PLAIN, "name", "n2")), pin("c1", PLAIN),
                              lf(), pin("c1", with_dim(PLAIN, "name", "n2"))]})
    return out


def deferred_scripts(ctx, rng):
    """ClusterAPIDeferMC: exhaustive check of the deferred-consensus design (Flush at every position); every history of
    the emitted lengths is printed by TLC and replayed (quick: all short ones + a seeded sample of the long ones)."""
    cfg = "ClusterAPIDeferMC_quick.cfg" if ctx.quick() else "ClusterAPIDeferMC_thorough.cfg"
    r = ctx.tlc("ClusterAPIDeferMC.tla", cfg, workers=1, timeout=2400)
    hs = []
    for m in re.finditer(r'^"HIST (.*)"$', r.out, re.M):
        hs.append(json.loads(json.loads('"' + m.group(1) + '"')))
    if len(hs) < 1000:
        raise vcheck.Infra("ClusterAPIDeferMC emitted only %d histories" % len(hs))
    short = [h for h in hs if len(h["steps"]) <= 3]
    long_ = [h for h in hs if len(h["steps"]) > 3]
    rng.shuffle(long_)
    keep = short + long_[:(1200 if ctx.quick() else 30000)]
    bad = ctx.tlc("ClusterAPIDeferMC.tla", "ClusterAPIDeferMC_nologpin.cfg", count=False, expect_violation=True, workers=2,
                  timeout=600)
    if not bad.violation:
        raise vcheck.Infra("a pin() whose same-options branch does not submit LogPin no longer violates FlushOK in the "
                           "model: the deferred model lost its sensitivity")
    ctx.extra["deferred_histories_emitted"] = len(hs)
    ctx.c04_emitted = hs
    return [{"src": "deferred", "env": h["env"], "pre": h["pre"], "steps": h["steps"]} for h in keep]


def label(c):
    if c["op"] == "pin":
        if c["o"]["upd"]:
            return "X"                                  # pin c3 updating from c1
        return {"c1": "A" if c["o"]["name"] == "n1" else "B", "c3": "P3"}.get(c["cid"], "?")
    if c["op"] == "unpin":
        return {"c1": "U", "m1": "UM"}.get(c["cid"], "?")
    if c["op"] == "update":
        return "UD" if c["to"] == "c1" else "U13"
    return "F" if c["op"] == "flush" else "?"


WANT_NOW = {0: ["A U P3", "A P3", "A A B", "A UD U", "A U13 U", "A X P3"], 1: ["U A P3", "A B U"]}
WANT_BATCH = {1: ["U A", "U B", "U A U", "A U A"], 0: ["A U A", "A U P3"]}


def real_scripts(ctx, rng):
    """A small set of the histories TLC emitted (ClusterAPIDeferMC), for the real consensus backends: pin with all
    options; unpin; plain pin of another CID; identical re-pin; changed re-pin; pin-update."""
    hs = ctx.c04_emitted
    by = {}
    for h in hs:
        sig = " ".join(label(c) for c in h["steps"] if c["op"] != "flush")
        by.setdefault((1 if len(h["pre"]) > 1 else 0, sig), h)
    out = []

    def calls(h):
        return [c for c in h["steps"] if c["op"] != "flush"]

    def pre(h):     # the real backends get data pins only (sharded content needs the block service of the fake IPFS)
        # and no origins: a pin with origins does not survive raft's msgpack log entry (listed under C08)
        return [dict(e, orig=[]) for e in h["pre"] if e["type"] == "data"]
    extra = rng.sample(hs, 4 if ctx.quick() else 80)
    # raft-noretry: commit_retries = 0 (valid; what a configuration without the key yields): one attempt, no retry
    for backend in ("raft", "raft-noretry", "crdt"):
        for init, sigs in WANT_NOW.items():
            for sig in sigs:
                h = by.get((init, sig))
                if h is None:
                    raise vcheck.Infra("TLC did not emit the history %r" % sig)
                # the first histories of a backend start from an empty pinset (nothing to set up through the component
                # under test): those that do not involve the update source c2
                empty = init == 0 and "UD" not in sig.split()
                out.append({"src": "real:" + backend, "backend": backend, "env": dict(h["env"], deferred=False),
                            "pre": [] if empty else pre(h), "steps": calls(h)})
        for h in extra:
            if any(label(c) == "UM" for c in h["steps"]):
                continue
            out.append({"src": "real:" + backend, "backend": backend, "env": dict(h["env"], deferred=False),
                        "pre": pre(h), "steps": calls(h)})
    for init, sigs in WANT_BATCH.items():
        for sig in sigs:
            h = by.get((init, sig))
            if h is None:
                raise vcheck.Infra("TLC did not emit the history %r" % sig)
            cs = calls(h)
            every = []
            for c in cs:
                every += [c, {"op": "flush"}]
            out.append({"src": "real:crdt-batch", "backend": "crdt-batch", "env": h["env"], "pre": pre(h), "steps": cs})
            out.append({"src": "real:crdt-batch", "backend": "crdt-batch", "env": h["env"], "pre": pre(h), "steps": every[:-1]})
    for h in extra:
        if any(label(c) == "UM" for c in h["steps"]):
            continue
        out.append({"src": "real:crdt-batch", "backend": "crdt-batch", "env": h["env"], "pre": pre(h), "steps": h["steps"]})
    for i, s in enumerate(out):
        s["id"] = 100000 + i
    return out


def witness_script(out):
    """Turn the TLC counterexample of the as-coded configuration into a replay script."""
    m = re.search(r'State 2:[^\n]*\n(.*?)\n\n', out, re.S)
    if not m:
        return None
    st = tla.parse_state(m.group(1))
    return {"src": "witness", "env": st["env"], "pre": st["ps"], "steps": [st["call"]]}


def changed_dims(rec):
    """Key material only (never a verdict): which options differ between request and stored entry."""
    c = rec["call"]
    e = rec["env"]
    if c["op"] == "rpcpin":
        cid_, o = c["p"]["cid"], c["p"]
    elif c["op"] == "pinpath":
        cid_ = dict((p[0], p[1]) for p in e["paths"]).get(c["path"], "")
        o = c["o"]
        if not cid_:
            return "unresolvable"
    else:
        cid_, o = c["cid"], c["o"]
    if o.get("upd") and o["upd"] != cid_:
        src = [x for x in rec["ps"] if x["cid"] == o["upd"]]
        return "via-update:" + ("src-missing" if not src else "src-" + src[0]["type"])
    ex = [x for x in rec["ps"] if x["cid"] == cid_]
    rmin = o["rmin"] or e["dmin"]
    rmax = o["rmax"] or e["dmax"]
    tags = []
    if not ex:
        tags.append("first")
    else:
        x = ex[0]
        if x["type"] != o.get("type", "data"):
            tags.append("type")
        if x["name"] != o["name"]:
            tags.append("name")
        if x["mode"] != o["mode"]:
            tags.append("mode:%s->%s" % (x["mode"], o["mode"]))
        if (x["rmin"], x["rmax"]) != (rmin, rmax):
            tags.append("factors")
        if x["exp"] != o["exp"]:
            tags.append("exp")
        xm = dict((k, v) for k, v in x["meta"])
        om = dict((k, v) for k, v in o["meta"])
        if set(om) - set(xm):
            tags.append("meta+")
        if set(xm) - set(om):
            tags.append("meta-")
        if any(xm[k] != om[k] for k in set(xm) & set(om)):
            tags.append("meta~")
        if sorted(x["orig"]) != sorted(o["orig"]):
            tags.append("orig")
        if o["ua"]:
            tags.append("ua")
        if not tags:
            tags.append("same")
    if not ((rmin == -1 and rmax == -1) or (rmin >= 1 and rmax >= rmin)):
        tags.append("badfactors")
    if o["exp"] == "past":
        tags.append("past")
    return ",".join(tags)


def key_of(rec):
    c = rec["call"]
    op = c["op"]
    pre = "C04:%s:" % op + ("follower:" if rec["env"]["follower"] else "")
    res = "ok" if rec["obs"]["ok"] else "refused"
    if op == "flush":
        return "C04:flush:" + ",".join(w["call"]["op"] + ("" if w["ok"] else "!") for w in rec["obs"]["win"])
    if op in ("pin", "pinpath", "rpcpin"):
        return pre + changed_dims(rec) + ":" + res
    if op == "update":
        src = [x for x in rec["ps"] if x["cid"] == c["from"]]
        dst = [x for x in rec["ps"] if x["cid"] == c["to"]]
        return pre + ("src-missing" if not src else "src-" + src[0]["type"]) + ("/onto-existing" if dst else "/new") + ":" + res
    if op == "unpin":
        x = [x for x in rec["ps"] if x["cid"] == c["cid"]]
        return pre + (x[0]["type"] if x else "missing") + ":" + res
    if op == "unpinpath":
        cid_ = dict((p[0], p[1]) for p in rec["env"]["paths"]).get(c["path"], "")
        x = [x for x in rec["ps"] if x["cid"] == cid_]
        return pre + (x[0]["type"] if x else ("missing" if cid_ else "unresolvable")) + ":" + res
    return pre + res


def generate(ctx):
    rng = random.Random(ctx.seed)
    scripts = []
    # the counterexample of the as-coded configuration (deliberately violated invariant)
    r = ctx.tlc("ClusterAPIMC.tla", "ClusterAPIMC_ascoded.cfg", count=False, expect_violation=True, workers=4,
                timeout=1200)
    if not r.violation:
        raise vcheck.Infra("the as-coded configuration (PinOptions.Equals ignoring removed metadata keys, unguarded "
                           "PinUpdate) no longer violates EffectOK in the model: the model lost its sensitivity")
    w = witness_script(r.out)
    if not w:
        raise vcheck.Infra("cannot parse the TLC counterexample of ClusterAPIMC_ascoded")
    scripts.append(w)
    ctx.extra["witness_call"] = w["steps"][0]
    # histories from the simulation model
    workers = 4
    num = (60 if ctx.quick() else 5000)
    sim = ctx.tlc("ClusterAPISim.tla", "ClusterAPISim.cfg", count=False, workers=workers, timeout=2400,
                  simulate="file=c04beh,num=%d" % num, depth=8, seed=ctx.seed)
    behs = tla.read_behaviours(ctx.specdir(), "c04beh")
    for b in behs:
        st = b[-1]["state"]
        if not st["hist"]:
            continue
        scripts.append({"src": "sim", "env": st["init"]["env"], "pre": st["init"]["pre"], "steps": st["hist"]})
    for f in os.listdir(ctx.specdir()):
        if f.startswith("c04beh_"):
            os.unlink(os.path.join(ctx.specdir(), f))
    ctx.log("simulation produced %d histories" % len(behs))
    if len(behs) < num:
        raise vcheck.Infra("simulation produced too few histories")
    sweep, fsteps = directed(rng)
    scripts += sweep
    scripts += fault_scripts()
    scripts += logfault_scripts()
    scripts += preset_scripts()
    scripts += deferred_scripts(ctx, rng)
    # follower scripts on a loaded pinset (taken from a simulated history's initial context when there is one)
    ctxs = [s["pre"] for s in scripts if s["src"] == "sim" and len(s["pre"]) > 1]
    if ctxs:
        scripts.append({"src": "follower", "env": env(follower=True), "pre": ctxs[0], "steps": fsteps})
        scripts.append({"src": "nofollower", "env": env(), "pre": ctxs[0], "steps": fsteps})
    for i, s in enumerate(scripts):
        s["id"] = i + 1
    return scripts


def run(ctx):
    ctx.rule = ("a step = one Pin/PinPath/PinUpdate/Unpin/UnpinPath/typed-RPC-pin call on a real Cluster inside a history; "
                "histories come from TLC simulation of ClusterAPISim (seeded), a directed one-option sweep and the TLC "
                "counterexample of the as-coded model; non-trivial = every step except a successful first plain pin of an "
                "unpinned CID; distinct by (cluster config, metrics, pinset before, call)")
    ctx.assumptions = [
        "expiry is abstracted to classes none/past(now-1h)/f1(now+1h)/f2(now+2h); CIDs, peers, origins, metadata keys "
        "to small named universes",
        "user allocations are treated as a request-only option (the state format does not store them); a re-pin that "
        "differs only in user allocations may keep or re-compute the allocations",
        "PinUpdate onto an already pinned target is judged only by the copy semantics (the statement speaks of 'the new CID')",
        "a refusal that leaves the pinset unchanged is never a violation (unjustified refusals show as SPEC-DRIFT)",
        "while the consensus component fails operations, a FAILED unpin of sharded content may have removed some shard / "
        "cluster-DAG entries, but never the meta entry while others of its group remain, and never other CIDs; without "
        "injected consensus faults every failed call must leave the pinset unchanged",
        "metrics: peers are healthy with distinct numeric values or absent; allocation details are C03's",
    ]
    cfg = "ClusterAPIMC_quick.cfg" if ctx.quick() else "ClusterAPIMC_thorough.cfg"
    if os.environ.get("VERIF_DEV_SKIP_MC"):      # development aid (mutant runs); evidence then has no state counts
        ctx.log("VERIF_DEV_SKIP_MC set: skipping the exhaustive model check")
    else:
        ctx.tlc("ClusterAPIMC.tla", cfg, workers=8 if ctx.quick() else 16, timeout=3000)
        ctx.exhaustive = True
    scripts = generate(ctx)
    execute(ctx, scripts)
    # real consensus backends (raft; crdt without and with batching)
    rs = real_scripts(ctx, random.Random(ctx.seed + 7))
    inp = os.path.join(ctx.work, "c04_real_scripts.ndjson")
    with open(inp, "w") as f:
        for s in rs:
            f.write(json.dumps(s) + "\n")
    ctx.log("real backends: replaying %d histories" % len(rs))
    trace = os.path.join(ctx.work, "c04_real_io.ndjson")
    # a crash of the real consensus component while it serves these histories (e.g. go-ds-crdt given an empty batch
    # to commit) is behaviour of the code under test: reported, and what was recorded before it is still judged
    ctx.go_test("c04_api", run="TestReal", infile=inp, env={"VERIF_TRACE": trace}, timeout=3000, panic_is_violation=True)
    if os.path.exists(trace) and os.path.getsize(trace) > 0:
        validate(ctx, trace, rs, transcription=False)


def execute(ctx, scripts):
    inp = os.path.join(ctx.work, "c04_scripts.ndjson")
    with open(inp, "w") as f:
        for s in scripts:
            f.write(json.dumps(s) + "\n")
    ctx.log("replaying %d histories (%d calls)" % (len(scripts), sum(len(s["steps"]) for s in scripts)))
    trace = os.path.join(ctx.work, "c04_io.ndjson")
    ctx.go_test("c04_api", run="TestDriver", infile=inp, env={"VERIF_TRACE": trace}, timeout=3000)
    validate(ctx, trace, scripts)


def validate(ctx, trace, scripts, transcription=True):
    verdict = os.path.join(ctx.work, "c04_verdict.ndjson")
    r = tla.run_tlc(ctx.specdir(), "ClusterAPITrace.tla", "ClusterAPITrace.cfg", workers=1, timeout=3000,
                    heap="8g", env_extra={"TRACE_FILE": trace, "VERDICT_FILE": verdict})
    ctx.log("tlc ClusterAPITrace: rc=%s %.1fs" % (r.rc, r.wall))
    if not os.path.exists(verdict):
        print(r.out[-3000:])
        raise vcheck.Infra("ClusterAPITrace produced no verdict")
    v = json.loads(open(verdict).readline())
    recs = [json.loads(l) for l in open(trace)]
    if v["n"] != len(recs):
        raise vcheck.Infra("verdict covers %d of %d records" % (v["n"], len(recs)))
    bad = set(v["bad"])
    drift = (set(v["drift"]) - bad) if transcription else set()   # real backends: the consensus log is not observable
    byid = dict((s["id"], s) for s in scripts)
    # a history counts as validated when every one of its steps satisfies property and transcription
    failed_hist = set(recs[i - 1]["id"] for i in bad | drift)
    ctx.traces_validated += len(set(x["id"] for x in recs) - failed_hist)
    if transcription:
        ctx.extra["tuples_checked_by_tlc"] = v["n"]
        ctx.extra["transcription_drift"] = len(drift)
        ctx.extra["refusals_observed"] = sum(1 for x in recs if not x["obs"]["ok"])
    else:
        ctx.extra["real_backend_tuples_checked_by_tlc"] = v["n"]
        ctx.extra["real_backend_steps"] = dict((b, sum(1 for x in recs if x["src"] == "real:" + b))
                                               for b in ("raft", "raft-noretry", "crdt", "crdt-batch"))
    for i in sorted(bad):
        rec = recs[i - 1]
        what = ("pinset after %s does not match what the statement requires (ok=%s err=%s)"
                % (json.dumps(rec["call"]), rec["obs"]["ok"], rec.get("err", "")))
        ctx.violation(key_of(rec), what, {"script": byid.get(rec["id"]), "step": rec["step"], "record": rec})
    if drift:
        first = recs[sorted(drift)[0] - 1]
        print("SPEC-DRIFT: %d recorded steps satisfy the property but not the transcription of cluster.go "
              "(first: %s)" % (len(drift), json.dumps(first)[:3000]), flush=True)
        if not bad:
            raise vcheck.Infra("transcription drift: the specification's Decide/StepOK is out of date w.r.t. the code "
                               "(property predicates all hold)")


def replay(ctx, path):
    j = json.load(open(path))
    case = j.get("case") or {}
    s = case.get("script")
    if not s:
        raise vcheck.Infra("replay file has no script")
    ctx.rule = "replay of one stored history"
    if s.get("backend"):
        inp = os.path.join(ctx.work, "c04_real_scripts.ndjson")
        open(inp, "w").write(json.dumps(s) + "\n")
        trace = os.path.join(ctx.work, "c04_real_io.ndjson")
        ctx.go_test("c04_api", run="TestReal", infile=inp, env={"VERIF_TRACE": trace}, timeout=3000, panic_is_violation=True)
        if os.path.exists(trace) and os.path.getsize(trace) > 0:
            validate(ctx, trace, [s], transcription=False)
        ctx.samples = ctx.samples or [s]
        return
    execute(ctx, [s])
    ctx.samples = ctx.samples or [s]
