#!/bin/sh
# usage: mutbatch.sh "dir:CXX dir:CXX ..."  (dir relative to /tmp/mut-)
for m in $1; do d=${m%%:*}; c=${m##*:}; echo "=== $d $c"; python3 -c "import json; print(json.load(open('/tmp/mut-$d/meta.json'))['title'])"; /verif/tools/trymutant.sh /tmp/mut-$d/patch.diff $c | grep -v "KNOWN-FINDING\|model-refuted"; done
