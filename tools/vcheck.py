#!/usr/bin/env python3
"""Orchestrator: ./bin/check <Cxx> [quick|thorough] [--replay <path>]

Per property there is a module tools/props/<cxx>.py with

    def run(ctx): ...            # SPEC -> GEN -> BUILD -> R -> V stages
    def replay(ctx, path): ...   # optional; default re-runs the driver on the stored case

Exit codes: 0 property held on everything explored (KNOWN-FINDING lines allowed),
1 violation found on real-code behaviour (VIOLATION line printed),
2 infrastructure problem (never a verdict).
"""
import hashlib
import importlib
import json
import os
import shutil
import subprocess
import sys
import tempfile
import time
import traceback

HERE = os.path.dirname(os.path.abspath(__file__))
VERIF = os.path.dirname(HERE)
sys.path.insert(0, HERE)
import tla  # noqa: E402


class Infra(Exception):
    pass


class DriverResult:
    def __init__(self):
        self.evaluations = 0
        self.distinct_nontrivial = 0
        self.samples = []
        self.violations = []
        self.infra = []
        self.traces = 0
        self.extra = {}
        self.stdout = ""
        self.rc = 0


class Ctx:
    def __init__(self, prop, tier, seed):
        self.prop = prop
        self.tier = tier
        self.seed = seed
        self.verif = VERIF
        self.repo = os.environ.get("VERIF_REPO", "/repo")
        self.t0 = time.time()
        self.work = tempfile.mkdtemp(prefix="verif-%s-" % prop)
        self._specdir = None
        # accumulated evidence
        self.level = "model_checking"
        self.states = 0
        self.transitions = 0
        self.traces_validated = 0
        self.evaluations = 0
        self.distinct_nontrivial = 0
        self.samples = []
        self.violations = []     # dicts {key, what, case, driver}
        self.rule = ""
        self.assumptions = []
        self.extra = {}
        self.model_runs = []
        self.exhaustive = False
        self.notes = []

    # -------------------------------------------------------------- logging
    def log(self, *a):
        print("[%s %s +%4.0fs]" % (self.prop, self.tier, time.time() - self.t0), *a, flush=True)

    def quick(self):
        return self.tier == "quick"

    # ------------------------------------------------------------------ TLC
    def specdir(self):
        if self._specdir is None:
            self._specdir = tla.scratch_spec_dir(os.path.join(VERIF, "spec"), base=self.work)
        return self._specdir

    def tlc(self, module, cfg, count=True, expect_violation=False, **kw):
        """Run TLC; on unexpected failure raise Infra (a model-only result is never a verdict)."""
        kw.setdefault("workers", int(os.environ.get("VERIF_WORKERS", "8")))
        kw.setdefault("heap", os.environ.get("VERIF_TLC_HEAP", "6g"))
        if self.tier == "thorough" and count and "simulate" not in kw:
            kw.setdefault("coverage", True)     # vacuity guard: actions never taken are listed in the evidence
        r = tla.run_tlc(self.specdir(), module, cfg, **kw)
        self.log("tlc %s/%s: rc=%s generated=%d distinct=%d depth=%d %.1fs%s" % (
            module, cfg, r.rc, r.generated, r.distinct, r.depth, r.wall,
            (" model-refuted: " + r.violation) if r.violation else ""))
        if r.timed_out:
            raise Infra("TLC timed out on %s/%s" % (module, cfg))
        if r.error:
            sys.stdout.write(r.out[-3000:] + "\n")
            raise Infra("TLC error on %s/%s: %s" % (module, cfg, r.error))
        if r.violation and not expect_violation:
            sys.stdout.write(r.out[-6000:] + "\n")
            raise Infra("TLC reports a model-level violation on %s/%s (%s): the specification does not satisfy "
                        "its own invariant; this is a spec problem, not a verdict on the code" % (module, cfg, r.violation))
        if count:
            self.states += r.distinct
            self.transitions += r.generated
            mr = {"module": module, "cfg": cfg, "distinct": r.distinct,
                  "generated": r.generated, "depth": r.depth, "wall_s": round(r.wall, 1)}
            if kw.get("coverage"):
                mr["actions_never_taken"] = sorted(set(r.coverage_zero))
                if r.coverage_zero:
                    self.log("vacuity: actions never taken in %s/%s: %s" % (module, cfg, sorted(set(r.coverage_zero))))
            self.model_runs.append(mr)
        return r

    def apalache(self, module, cinit, init, inv, length, expect_error=False, timeout=600):
        """One Apalache obligation (symbolic, unbounded in the number of steps when used as an induction step).
        Returns True when the outcome is as expected; an unexpected outcome is a spec problem (Infra), a tool
        failure or timeout only a note (the TLC runs of the same module remain the deciding model check)."""
        import subprocess, time
        out = os.path.join(self.work, "apalache-%d" % len(self.model_runs))
        t0 = time.time()
        try:
            cp = subprocess.run(["apalache-mc", "check", "--out-dir=" + out, "--cinit=" + cinit, "--init=" + init,
                                 "--inv=" + inv, "--length=%d" % length, module], cwd=self.specdir(),
                                stdout=subprocess.PIPE, stderr=subprocess.STDOUT, timeout=timeout)
            txt = cp.stdout.decode("utf-8", "replace")
        except (subprocess.TimeoutExpired, OSError) as e:
            self.log("apalache %s %s/%s/%s: not run (%s)" % (module, cinit, init, inv, type(e).__name__))
            return False
        finally:
            shutil.rmtree(out, ignore_errors=True)
        ok = "The outcome is: NoError" in txt
        err = "The outcome is: Error" in txt
        self.log("apalache %s cinit=%s init=%s inv=%s length=%d: %s %.1fs" % (
            module, cinit, init, inv, length, "NoError" if ok else "Error" if err else "tool failure", time.time() - t0))
        if not ok and not err:
            return False
        if ok == expect_error:
            sys.stdout.write(txt[-2000:] + "\n")
            raise Infra("Apalache obligation %s/%s/%s/%s has the unexpected outcome %s: a spec problem, not a verdict"
                        % (module, cinit, init, inv, "NoError" if ok else "Error"))
        self.model_runs.append({"module": module, "cfg": "apalache cinit=%s init=%s inv=%s length=%d" % (cinit, init, inv, length),
                                "distinct": 0, "generated": 0, "depth": length, "wall_s": round(time.time() - t0, 1),
                                "outcome": "NoError" if ok else "Error (expected: as-coded design refuted)"})
        return True

    # ------------------------------------------------------------- Go driver
    def modfile(self):
        mf = os.path.join(self.work, "go.mod")
        if not os.path.exists(mf):
            src = open(os.path.join(VERIF, "harness", "go.mod")).read()
            src = src.replace("=> /repo", "=> " + self.repo)
            src = src.replace("=> ./stubs/quic", "=> " + os.path.join(VERIF, "harness", "stubs", "quic"))
            open(mf, "w").write(src)
            shutil.copy(os.path.join(self.repo, "go.sum"), os.path.join(self.work, "go.sum"))
        return mf

    def goenv(self):
        env = dict(os.environ)
        env.update({"GOFLAGS": "-mod=mod", "GOPROXY": "off", "GOSUMDB": "off", "GOTOOLCHAIN": "local",
                    "VERIF_SEED": str(self.seed), "VERIF_TIER": self.tier, "VERIF_REPO": self.repo,
                    "VERIF_DIR": VERIF})
        # everything the drivers (and the code under test) put in the temp dir goes away with the work dir
        tmp = os.path.join(self.work, "tmp")
        os.makedirs(tmp, exist_ok=True)
        env["TMPDIR"] = tmp
        return env

    def go_test(self, pkg, run=None, env=None, race=False, timeout=900, tags="verif",
                infile=None, count=True, panic_is_violation=False, replay=None, extra_args=None, allow_fail=False):
        """Build and run one driver test from /verif/harness against ctx.repo.

        Returns DriverResult parsed from the JSON file the driver writes to $VERIF_OUT."""
        out = tempfile.mktemp(prefix="out-", suffix=".json", dir=self.work)
        e = self.goenv()
        e["VERIF_OUT"] = out
        e["VERIF_WORK"] = self.work
        if infile:
            e["VERIF_IN"] = infile
        if replay:
            e["VERIF_REPLAY"] = replay
        if env:
            e.update({k: str(v) for k, v in env.items()})
        cmd = ["go", "test", "-modfile=" + self.modfile(), "-tags", tags, "-count=1", "-vet=off",
               "-timeout", "%ds" % timeout]
        if race:
            cmd.append("-race")
        if run:
            cmd += ["-run", run]
        if extra_args:
            cmd += extra_args
        cmd.append("./" + pkg + "/")
        t0 = time.time()
        try:
            cp = subprocess.run(cmd, cwd=os.path.join(VERIF, "harness"), env=e, stdout=subprocess.PIPE,
                                stderr=subprocess.STDOUT, timeout=timeout + 120)
            rc = cp.returncode
            so = cp.stdout.decode("utf-8", "replace")
        except subprocess.TimeoutExpired as ex:
            rc = -1
            so = (ex.stdout or b"").decode("utf-8", "replace") + "\n[driver wall-clock timeout]"
        dr = DriverResult()
        dr.rc = rc
        dr.stdout = so
        self.log("go test %s %s: rc=%d %.1fs" % (pkg, run or "", rc, time.time() - t0))
        if os.path.exists(out):
            j = json.load(open(out))
            dr.evaluations = j.get("evaluations", 0)
            dr.distinct_nontrivial = j.get("distinct_nontrivial", 0)
            dr.samples = j.get("samples", [])
            dr.violations = j.get("violations", []) or []
            dr.infra = j.get("infra", []) or []
            dr.traces = j.get("traces", 0)
            dr.extra = j.get("extra", {}) or {}
        if rc != 0 and allow_fail:
            return dr
        if rc != 0:
            tail = so[-6000:]
            if panic_is_violation and ("panic:" in so or "fatal error:" in so or "DATA RACE" in so) and \
                    "github.com/ipfs/ipfs-cluster" in so:
                kind = "race" if "DATA RACE" in so else "panic"
                dr.violations.append({"key": "%s:%s:crash:%s" % (self.prop, pkg, kind),
                                      "what": "driver process reported a %s inside ipfs-cluster code" % kind,
                                      "case": {"output_tail": tail[-3000:]}})
            elif not os.path.exists(out):
                sys.stdout.write(tail + "\n")
                raise Infra("driver %s failed (rc=%d) without writing a result" % (pkg, rc))
            else:
                sys.stdout.write(tail + "\n")
                raise Infra("driver %s failed (rc=%d)" % (pkg, rc))
        if dr.infra:
            for m in dr.infra[:10]:
                self.log("driver infra:", m)
            raise Infra("driver %s reported infrastructure problems: %s" % (pkg, dr.infra[0]))
        if count:
            self.absorb(dr, pkg, run)
        return dr

    def absorb(self, dr, pkg="", run=""):
        self.evaluations += dr.evaluations
        self.distinct_nontrivial += dr.distinct_nontrivial
        for s in dr.samples:
            if len(self.samples) < 8:
                self.samples.append(s)
        for v in dr.violations:
            v = dict(v)
            v["driver"] = {"pkg": pkg, "run": run}
            self.violations.append(v)
        self.traces_validated += dr.traces
        for k, v in dr.extra.items():
            self.extra.setdefault(k, v)

    def violation(self, key, what, case=None):
        self.violations.append({"key": key, "what": what, "case": case, "driver": {}})

    # ---------------------------------------------------- trace validation
    def validate_trace(self, module, cfg, trace_path, ntraces, deque=True, timeout=600, key_prefix=None,
                       expect_reject=False):
        """Check an NDJSON trace file (possibly many concatenated traces) against a trace spec.

        The trace spec reads the file named by env TRACE_FILE (IOUtils!IOEnv) and must define the
        postcondition TraceAccepted; on rejection it prints 'TRACE-REJECT line=<n>' (high-water mark).
        Returns (accepted: bool, TLCResult)."""
        props = []
        if deque:
            props.append("tlc2.tool.queue.IStateQueue=StateDeque")
        r = tla.run_tlc(self.specdir(), module, cfg, workers=1, timeout=timeout, jvm_props=props,
                        heap=os.environ.get("VERIF_TLC_HEAP", "6g"), env_extra={"TRACE_FILE": trace_path})
        self.log("tlc trace %s/%s on %s: rc=%s states=%d %.1fs %s" % (
            module, cfg, os.path.basename(trace_path), r.rc, r.distinct, r.wall, r.violation or ""))
        if r.timed_out:
            raise Infra("trace validation timed out (%s)" % module)
        if r.error:
            sys.stdout.write(r.out[-4000:] + "\n")
            raise Infra("trace validation error (%s): %s" % (module, r.error))
        accepted = r.rc == 0 and not r.violation
        if accepted and not expect_reject:
            self.traces_validated += ntraces
            self.model_runs.append({"module": module, "cfg": cfg, "distinct": r.distinct, "generated": r.generated,
                                    "trace_lines": sum(1 for _ in open(trace_path)), "wall_s": round(r.wall, 1)})
        return accepted, r

    # ------------------------------------------------------------- finish
    def known(self):
        p = os.path.join(VERIF, "known_findings.json")
        if not os.path.exists(p):
            return {}
        j = json.load(open(p))
        out = {(f["property"], f["key"]): f for f in j.get("findings", [])}
        d = os.path.join(VERIF, "known_findings.d")
        if os.path.isdir(d):
            for fn in sorted(os.listdir(d)):
                if fn.endswith(".json"):
                    for f in json.load(open(os.path.join(d, fn))).get("findings", []):
                        out[(f["property"], f["key"])] = f
        return out

    def finish(self):
        known = self.known()
        seen_known = {}
        real = []
        for v in self.violations:
            k = (self.prop, v.get("key", ""))
            if k in known:
                seen_known.setdefault(k, v)
            else:
                real.append(v)
        for k, v in seen_known.items():
            print("KNOWN-FINDING: property=%s %s [%s]" % (self.prop, known[k]["what"], k[1]), flush=True)
        rc = 0
        paths = []
        if real:
            os.makedirs(os.path.join(VERIF, "replays"), exist_ok=True)
            done = set()
            for v in real:
                key = v.get("key", "")
                if key in done:
                    continue
                done.add(key)
                h = hashlib.sha1(json.dumps(v, sort_keys=True, default=str).encode()).hexdigest()[:10]
                p = os.path.join(VERIF, "replays", "%s-%s.json" % (self.prop, h))
                json.dump({"property": self.prop, "seed": self.seed, "tier": self.tier, "key": key,
                           "what": v.get("what"), "driver": v.get("driver"), "case": v.get("case")},
                          open(p, "w"), indent=1, default=str)
                paths.append(p)
                print("violation detail: key=%s what=%s" % (key, v.get("what")), flush=True)
                print("VIOLATION property=%s replay=%s" % (self.prop, p), flush=True)
                if len(paths) >= 10:
                    break
            rc = 1
        self.write_evidence(len(real), [known[k]["key"] for k in seen_known])
        return rc

    def write_evidence(self, nviol, known_keys):
        cov = {
            "states": self.states,
            "transitions": self.transitions,
            "traces_validated_against_impl": self.traces_validated,
            "samples": self.samples[:8] if self.samples else [],
            "evaluations": self.evaluations,
            "distinct_nontrivial": self.distinct_nontrivial,
            "rule": self.rule,
            "exhaustive": self.exhaustive,
            "model_runs": self.model_runs,
            "known_findings_reproduced": known_keys,
        }
        cov.update(self.extra)
        ev = {
            "property_id": self.prop,
            "tier": self.tier,
            "seed": self.seed,
            "level": self.level,
            "coverage": cov,
            "assumptions": self.assumptions,
            "wall_s": round(time.time() - self.t0, 1),
            "violations": nviol,
        }
        # VERIF_EVIDENCE_DIR: used by tools/trymutant.sh / seeded_eval.py so that runs on deliberately broken
        # scratch worktrees do not replace the evidence of the last run on the real tree
        evdir = os.environ.get("VERIF_EVIDENCE_DIR") or os.path.join(VERIF, "evidence")
        os.makedirs(evdir, exist_ok=True)
        p = os.path.join(evdir, "%s.json" % self.prop)
        json.dump(ev, open(p + ".tmp", "w"), indent=1, default=str)
        os.replace(p + ".tmp", p)

    def cleanup(self):
        if os.environ.get("VERIF_KEEP"):
            self.log("keeping", self.work)
            return
        shutil.rmtree(self.work, ignore_errors=True)


def main(argv):
    if len(argv) < 2:
        print(__doc__)
        return 2
    prop = argv[1].upper()
    tier = os.environ.get("VERIF_TIER", "quick")
    replay = None
    rest = argv[2:]
    i = 0
    while i < len(rest):
        a = rest[i]
        if a in ("quick", "thorough"):
            tier = a
        elif a == "--replay":
            replay = rest[i + 1]
            i += 1
        i += 1
    try:
        seed = int(os.environ.get("VERIF_SEED", "1"))
    except ValueError:
        seed = 1
    ctx = Ctx(prop, tier, seed)
    rc = 2
    try:
        mod = importlib.import_module("props." + prop.lower())
        if replay:
            if hasattr(mod, "replay"):
                mod.replay(ctx, replay)
            else:
                default_replay(ctx, replay)
        else:
            mod.run(ctx)
        rc = ctx.finish()
        if rc == 0 and not ctx.samples and not replay:
            print("INFRA: no samples recorded; evidence would be invalid", flush=True)
            rc = 2
        print("[%s %s] done rc=%d wall=%.1fs states=%d transitions=%d evals=%d distinct=%d traces=%d" % (
            prop, tier, rc, time.time() - ctx.t0, ctx.states, ctx.transitions, ctx.evaluations,
            ctx.distinct_nontrivial, ctx.traces_validated), flush=True)
    except Exception as e:
        if type(e).__name__ == "Infra":      # (props import this file as module `vcheck`)
            msg = str(e)
            low = msg.lower()
            if ("out of date" in low or "transcription drift" in low) and not replay:
                # Policy (DESIGN.md, Appendix C): real code that departs from the transcribed code path
                # while every property predicate holds is not a verdict against the property. The
                # property held on everything explored => exit 0, with the drift stated.
                print("SPEC-DRIFT (no property predicate broken; later stages of this run were skipped): %s" % msg,
                      flush=True)
                ctx.extra["spec_drift"] = msg[:300]
                rc = ctx.finish()
                if rc == 0 and not ctx.samples:
                    ctx.samples.append({"note": "run ended at a specification drift before samples were absorbed"})
                    ctx.write_evidence(0, [])
                print("[%s %s] done rc=%d (drift)" % (prop, tier, rc), flush=True)
                ctx.cleanup()
                return rc
            print("INFRA: %s" % e, flush=True)
            rc = 2
            ctx.cleanup()
            return rc
        traceback.print_exc()
        print("INFRA: orchestrator exception", flush=True)
        rc = 2
    finally:
        ctx.cleanup()
    return rc


def default_replay(ctx, path):
    j = json.load(open(path))
    d = j.get("driver") or {}
    if not d.get("pkg"):
        raise Infra("replay file has no driver information")
    ctx.go_test(d["pkg"], run=d.get("run") or None, replay=os.path.abspath(path))


if __name__ == "__main__":
    sys.exit(main(sys.argv))
