#!/usr/bin/env python3
"""Prints the per-property summary of seeded/<id>/result.json (markdown), used for DESIGN.md section 9.4."""
import collections, glob, json, os, re
VERIF = os.path.dirname(os.path.dirname(os.path.abspath(__file__)))


def main():
    per = collections.OrderedDict()
    for d in sorted(glob.glob(os.path.join(VERIF, "seeded", "C*-*")), key=lambda p: (p.split("/")[-1].split("-")[0], int(p.split("-")[-1]))):
        sid = os.path.basename(d)
        prop = sid.split("-")[0]
        e = per.setdefault(prop, {"n": 0, "own": 0, "other": collections.Counter(), "missed": [], "noresult": [], "keys": collections.Counter()})
        e["n"] += 1
        rp = os.path.join(d, "result.json")
        if not os.path.exists(rp):
            e["noresult"].append(sid)
            continue
        r = json.load(open(rp))
        o = r.get("outcome", "")
        if o == "caught":
            e["own"] += 1
            for k in r.get("violation_keys", [])[:1]:
                e["keys"][":".join(k.split(":")[:3])] += 1
        elif o.startswith("caught by"):
            e["other"][re.match(r"caught by (C\d+)", o).group(1)] += 1
        else:
            e["missed"].append(sid + (" (%s)" % o if o != "missed" else ""))
    print("| property | seeded | caught by its own check | caught only by another property's check | not caught | typical violation keys |")
    print("|---|---|---|---|---|---|")
    tot = collections.Counter()
    for prop, e in per.items():
        other = ", ".join("%s x%d" % kv for kv in sorted(e["other"].items()))
        keys = ", ".join("`%s`" % k for k, _ in e["keys"].most_common(3))
        print("| %s | %d | %d | %s | %s | %s |" % (prop, e["n"], e["own"], other or "-", ", ".join(e["missed"] + e["noresult"]) or "-", keys))
        tot["n"] += e["n"]; tot["own"] += e["own"]; tot["other"] += sum(e["other"].values()); tot["missed"] += len(e["missed"]) + len(e["noresult"])
    print("| all | %d | %d | %d | %d | |" % (tot["n"], tot["own"], tot["other"], tot["missed"]))


if __name__ == "__main__":
    main()
