"""TLA+/TLC helpers shared by all checks (python3 stdlib only).

* parse_value / parse_state: parser for the value syntax TLC prints
  (records, functions, sequences, sets, strings, ints, booleans, model values).
* run_tlc: run TLC on a scratch copy of /verif/spec, collect statistics.
* read_behaviours: parse `-simulate file=...` output files.
* read_dot / edge_tours: parse `-dump dot,actionlabels` and produce paths that
  cover every edge of the state graph (transition coverage for replay).
"""
import os
import re
import shutil
import subprocess
import tempfile
import time
import random

TLA_JAR = "/opt/veriftools/tla/tla2tools.jar"
COMMUNITY = "/opt/veriftools/tla/CommunityModules-deps.jar"


# --------------------------------------------------------------------------
# value parser
# --------------------------------------------------------------------------
class _P:
    def __init__(self, s):
        self.s = s
        self.i = 0

    def ws(self):
        s = self.s
        n = len(s)
        while self.i < n and s[self.i] in " \t\r\n":
            self.i += 1

    def peek(self, k=1):
        return self.s[self.i:self.i + k]

    def expect(self, tok):
        self.ws()
        if not self.s.startswith(tok, self.i):
            raise ValueError("expected %r at %d: %r" % (tok, self.i, self.s[self.i:self.i + 40]))
        self.i += len(tok)

    def value(self):
        self.ws()
        s = self.s
        c = s[self.i]
        if c == '"':
            return self.string()
        if c == '<' and self.peek(2) == '<<':
            self.i += 2
            out = []
            self.ws()
            if self.peek(2) == '>>':
                self.i += 2
                return out
            while True:
                out.append(self.value())
                self.ws()
                if self.peek(2) == '>>':
                    self.i += 2
                    return out
                self.expect(',')
        if c == '{':
            self.i += 1
            out = []
            self.ws()
            if self.peek() == '}':
                self.i += 1
                return out
            while True:
                out.append(self.value())
                self.ws()
                if self.peek() == '}':
                    self.i += 1
                    return out
                self.expect(',')
        if c == '[':
            self.i += 1
            out = {}
            self.ws()
            if self.peek() == ']':
                self.i += 1
                return out
            while True:
                self.ws()
                m = re.compile(r'[A-Za-z_][A-Za-z0-9_]*').match(s, self.i)
                if not m:
                    raise ValueError("field name at %d" % self.i)
                k = m.group(0)
                self.i = m.end()
                self.expect('|->')
                out[k] = self.value()
                self.ws()
                if self.peek() == ']':
                    self.i += 1
                    return out
                self.expect(',')
        if c == '(':
            # function: (a :> 1 @@ b :> 2)
            self.i += 1
            out = {}
            while True:
                k = self.value()
                self.expect(':>')
                v = self.value()
                out[_key(k)] = v
                self.ws()
                if self.peek() == ')':
                    self.i += 1
                    return out
                self.expect('@@')
        m = re.compile(r'-?\d+').match(s, self.i)
        if m:
            # 1..3 interval sets are printed as a..b
            self.i = m.end()
            a = int(m.group(0))
            if self.peek(2) == '..':
                self.i += 2
                m2 = re.compile(r'-?\d+').match(s, self.i)
                self.i = m2.end()
                return list(range(a, int(m2.group(0)) + 1))
            return a
        m = re.compile(r'[A-Za-z_][A-Za-z0-9_]*').match(s, self.i)
        if m:
            self.i = m.end()
            w = m.group(0)
            if w == 'TRUE':
                return True
            if w == 'FALSE':
                return False
            return w
        raise ValueError("cannot parse at %d: %r" % (self.i, s[self.i:self.i + 40]))

    def string(self):
        s = self.s
        assert s[self.i] == '"'
        self.i += 1
        out = []
        while True:
            c = s[self.i]
            if c == '\\':
                n = s[self.i + 1]
                out.append({'n': '\n', 't': '\t', 'r': '\r', 'f': '\f'}.get(n, n))
                self.i += 2
            elif c == '"':
                self.i += 1
                return ''.join(out)
            else:
                out.append(c)
                self.i += 1


def _key(k):
    if isinstance(k, str):
        return k
    if isinstance(k, bool):
        return "TRUE" if k else "FALSE"
    if isinstance(k, int):
        return str(k)
    import json
    return json.dumps(k, sort_keys=True)


def parse_value(text):
    p = _P(text)
    v = p.value()
    p.ws()
    if p.i != len(p.s):
        raise ValueError("trailing text: %r" % p.s[p.i:p.i + 40])
    return v


_VAR = re.compile(r'^/\\ ([A-Za-z_][A-Za-z0-9_]*) = ', re.M)


def parse_state(text):
    """text: '/\\ x = ...\n/\\ y = ...' -> dict"""
    text = text.strip()
    if not text.startswith('/\\'):
        # single variable: 'x = ...'
        k, v = text.split(' = ', 1)
        return {k.strip(): parse_value(v)}
    ms = list(_VAR.finditer(text))
    out = {}
    for j, m in enumerate(ms):
        end = ms[j + 1].start() if j + 1 < len(ms) else len(text)
        out[m.group(1)] = parse_value(text[m.end():end])
    return out


# --------------------------------------------------------------------------
# running TLC
# --------------------------------------------------------------------------
class TLCResult:
    def __init__(self):
        self.rc = None
        self.out = ""
        self.generated = 0
        self.distinct = 0
        self.depth = 0
        self.violation = None      # text of 'Error: Invariant X is violated' etc.
        self.error = None          # other errors (parse, eval)
        self.wall = 0.0
        self.workdir = None
        self.coverage_zero = []
        self.timed_out = False

    def ok(self):
        return self.rc == 0 and not self.violation and not self.error


def scratch_spec_dir(spec_dir, base=None):
    d = tempfile.mkdtemp(prefix="verif-tlc-", dir=base)
    for f in os.listdir(spec_dir):
        if f.endswith(".tla") or f.endswith(".cfg"):
            shutil.copy(os.path.join(spec_dir, f), d)
    return d


def run_tlc(workdir, module, cfg, workers=4, timeout=600, extra=None, heap=None,
            deadlock=False, simulate=None, depth=None, seed=None, coverage=False,
            dump_dot=None, jvm_props=None, env_extra=None):
    """Run TLC in `workdir` (a scratch copy of spec/). Returns TLCResult.

    deadlock=False means deadlock checking is *disabled* (-deadlock flag)."""
    md = tempfile.mkdtemp(prefix="md-", dir=workdir)
    java = ["java"]
    if heap:
        java += ["-Xmx" + heap]
    java += ["-XX:+UseParallelGC", "-Xss64m"]
    # TLC unpacks its standard modules into java.io.tmpdir (one tlc-<n> folder per run): keep that inside the scratch dir
    jtmp = os.path.join(workdir, "jtmp")
    os.makedirs(jtmp, exist_ok=True)
    java.append("-Djava.io.tmpdir=" + jtmp)
    for p in (jvm_props or []):
        java.append("-D" + p)
    cp = TLA_JAR
    if os.path.exists(COMMUNITY):
        cp += ":" + COMMUNITY
    java += ["-cp", _classpath(), "tlc2.TLC"]
    args = ["-metadir", md, "-workers", str(workers), "-config", cfg, "-noGenerateSpecTE"]
    if not deadlock:
        args.append("-deadlock")
    if coverage:
        args += ["-coverage", "1"]
    if dump_dot:
        args += ["-dump", "dot,actionlabels", dump_dot]
    if simulate is not None:
        if depth is not None:
            args += ["-depth", str(depth)]
        if seed is not None:
            args += ["-seed", str(seed)]
        args += ["-simulate", simulate]
    if extra:
        args += list(extra)
    args.append(module)
    r = TLCResult()
    r.workdir = workdir
    t0 = time.time()
    env = dict(os.environ)
    env.pop("JAVA_TOOL_OPTIONS", None)
    if env_extra:
        env.update(env_extra)
    try:
        cp_ = subprocess.run(java + args, cwd=workdir, stdout=subprocess.PIPE,
                             stderr=subprocess.STDOUT, timeout=timeout, env=env)
        r.rc = cp_.returncode
        r.out = cp_.stdout.decode("utf-8", "replace")
    except subprocess.TimeoutExpired as e:
        r.rc = -1
        r.timed_out = True
        r.out = (e.stdout or b"").decode("utf-8", "replace")
        subprocess.run(["pkill", "-f", md], stdout=subprocess.DEVNULL, stderr=subprocess.DEVNULL)
    r.wall = time.time() - t0
    m = None
    for m in re.finditer(r'(\d+) states generated, (\d+) distinct states found', r.out):
        pass
    if m:
        r.generated = int(m.group(1))
        r.distinct = int(m.group(2))
    m = re.search(r'The number of states generated: (\d+)', r.out)
    if m and not r.generated:
        r.generated = int(m.group(1))
        r.distinct = r.generated
    m = re.search(r'depth of the complete state graph search is (\d+)', r.out)
    if m:
        r.depth = int(m.group(1))
    m = re.search(r'Error: (Invariant \S+ is violated.*|Action property \S+ is violated.*|Temporal properties were violated.*|Deadlock reached.*|The postcondition.*|Assumption .* is false.*)', r.out)
    if m:
        r.violation = m.group(1).strip()
    elif r.rc not in (0, None) and not r.timed_out:
        m = re.search(r'(Error: .*|\*\*\* Errors.*|Exception.*|Semantic errors.*|Parsing or semantic analysis failed.*)', r.out)
        r.error = (m.group(1) if m else "tlc exit %s" % r.rc)
    if coverage:
        # lines like:  <Action line .. of module M>: 0:0
        for mm in re.finditer(r'^<(\w+) line[^>]*>: (\d+):(\d+)', r.out, re.M):
            if mm.group(3) == "0" and mm.group(2) == "0":
                r.coverage_zero.append(mm.group(1))
    return r


def _classpath():
    # the tlc wrapper's classpath: tla2tools + CommunityModules
    d = os.path.dirname(TLA_JAR)
    jars = [os.path.join(d, f) for f in sorted(os.listdir(d)) if f.endswith(".jar")]
    return ":".join(jars)


# --------------------------------------------------------------------------
# behaviours from -simulate file=prefix,num=N
# --------------------------------------------------------------------------
_STATE_HDR = re.compile(r'^\\\* <(.*)>\nSTATE_(\d+) == *\n', re.M)


def read_behaviour_file(path):
    txt = open(path).read()
    ms = list(_STATE_HDR.finditer(txt))
    out = []
    for j, m in enumerate(ms):
        if j + 1 < len(ms):
            end = ms[j + 1].start()
        else:
            mm = re.search(r'\n=+\s*$', txt)
            end = mm.start() if mm else len(txt)
        body = txt[m.end():end].strip()
        label = m.group(1)
        am = re.match(r'(\w+)(\((.*)\))? line ', label)
        st = parse_state(body)
        out.append({"action": am.group(1) if am else label,
                    "args": am.group(3) if am and am.group(3) else "",
                    "state": st})
    return out


def read_behaviours(workdir, prefix):
    files = sorted(f for f in os.listdir(workdir) if re.match(re.escape(prefix) + r'_\d+_\d+$', f))
    return [read_behaviour_file(os.path.join(workdir, f)) for f in files]


# --------------------------------------------------------------------------
# state graph from -dump dot,actionlabels
# --------------------------------------------------------------------------
_NODE = re.compile(r'^(-?\d+) \[label="((?:[^"\\]|\\.)*)"(,style = filled)?', re.M)
_EDGE = re.compile(r'^(-?\d+) -> (-?\d+) \[label="((?:[^"\\]|\\.)*)"', re.M)


def _unesc(s):
    return s.replace('\\n', '\n').replace('\\"', '"').replace('\\\\', '\\')


class Graph:
    def __init__(self):
        self.nodes = {}     # id -> state dict (lazily parsed)
        self._raw = {}
        self.init = []
        self.edges = {}     # id -> list of (label, dst)

    def state(self, n):
        if n not in self.nodes:
            self.nodes[n] = parse_state(_unesc(self._raw[n]))
        return self.nodes[n]


def read_dot(path):
    g = Graph()
    txt = open(path).read()
    for m in _NODE.finditer(txt):
        g._raw[m.group(1)] = m.group(2)
        if m.group(3):
            g.init.append(m.group(1))
    for m in _EDGE.finditer(txt):
        g.edges.setdefault(m.group(1), []).append((_unesc(m.group(3)), m.group(2)))
    return g


def edge_tours(g, max_len=12, rng=None, max_tours=None, want_edge=None):
    """Paths from an initial state that together cover every edge reachable
    within max_len steps (greedy: BFS to the nearest uncovered edge, then
    extend along uncovered edges). Returns list of paths; a path is a list of
    (label, dst_node_id) starting from the initial node id path[0]=('init',id)."""
    rng = rng or random.Random(0)
    # BFS parents for shortest path to every node
    parent = {}
    order = []
    for i in g.init:
        parent[i] = None
        order.append(i)
    q = list(order)
    depth = {i: 0 for i in g.init}
    while q:
        n = q.pop(0)
        for (lab, d) in g.edges.get(n, []):
            if d not in parent:
                parent[d] = (n, lab)
                depth[d] = depth[n] + 1
                q.append(d)
    uncovered = set()
    for n in parent:
        for k, (lab, d) in enumerate(g.edges.get(n, [])):
            if want_edge is None or want_edge(lab):
                if depth[n] + 1 <= max_len:
                    uncovered.add((n, k))
    tours = []
    edges_sorted = sorted(uncovered, key=lambda e: (depth[e[0]], e[0], e[1]))
    for e in edges_sorted:
        if e not in uncovered:
            continue
        n, k = e
        # path to n
        pre = []
        cur = n
        while parent[cur] is not None:
            p, lab = parent[cur]
            pre.append((lab, cur))
            cur = p
        pre.reverse()
        path = [("init", cur)] + pre
        # take edge e, then keep following uncovered edges greedily
        cur = n
        take = k
        while True:
            lab, d = g.edges[cur][take]
            path.append((lab, d))
            uncovered.discard((cur, take))
            cur = d
            if len(path) - 1 >= max_len:
                break
            cand = [kk for kk in range(len(g.edges.get(cur, []))) if (cur, kk) in uncovered]
            if not cand:
                break
            take = rng.choice(cand)
        tours.append(path)
        if max_tours and len(tours) >= max_tours:
            break
    return tours


# --------------------------------------------------------------------------
# counterexample printed by TLC on stdout -> behaviour (list of {action, state})
# --------------------------------------------------------------------------
_ERRSTATE = re.compile(r'^State (\d+): <?([^\n>]*)>?\n', re.M)


def parse_error_trace(out):
    ms = list(_ERRSTATE.finditer(out))
    beh = []
    for j, m in enumerate(ms):
        end = ms[j + 1].start() if j + 1 < len(ms) else len(out)
        body = out[m.end():end]
        # the body ends at the first blank line
        k = body.find("\n\n")
        if k >= 0:
            body = body[:k]
        try:
            st = parse_state(body)
        except ValueError:
            break
        label = m.group(2)
        am = re.match(r'(\w+)', label)
        beh.append({"action": am.group(1) if am else label, "args": "", "state": st})
    return beh


def parse_error_traces(out):
    """all counterexamples of a `-continue` run"""
    parts = re.split(r'Error: Invariant \S+ is violated\.', out)
    res = []
    for part in parts[1:]:
        beh = parse_error_trace(part)
        if beh:
            res.append(beh)
    return res
