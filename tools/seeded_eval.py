#!/usr/bin/env python3
"""For every seeded/<ID>/patch.diff: apply it to a scratch worktree of /repo main, run the property's check there,
record the outcome in seeded/<ID>/result.json and rewrite seeded/RESULTS.md.
usage: seeded_eval.py [tier] [ID ...]"""
import json, os, re, subprocess, sys, tempfile, time
VERIF = os.path.dirname(os.path.dirname(os.path.abspath(__file__)))
SEEDED = os.path.join(VERIF, "seeded")


def run_one(sid, tier):
    d = os.path.join(SEEDED, sid)
    meta = json.load(open(os.path.join(d, "meta.json")))
    prop = meta.get("property", sid.split("-")[0]).upper()
    w = tempfile.mkdtemp(prefix="seedwt-")
    os.rmdir(w)
    subprocess.run(["git", "-C", "/repo", "worktree", "add", "-q", "--detach", w, "main"], check=True)
    res = {"id": sid, "property": prop, "tier": tier, "at": time.strftime("%Y-%m-%dT%H:%M:%SZ", time.gmtime()),
           "repo_head": subprocess.run(["git", "-C", "/repo", "rev-parse", "--short", "HEAD"], stdout=subprocess.PIPE).stdout.decode().strip()}
    try:
        ap = subprocess.run(["git", "-C", w, "apply", os.path.join(d, "patch.diff")], stderr=subprocess.PIPE)
        if ap.returncode != 0:
            ap = subprocess.run(["git", "-C", w, "apply", "--3way", os.path.join(d, "patch.diff")], stderr=subprocess.PIPE)
        if ap.returncode != 0:
            res.update({"outcome": "patch-does-not-apply", "detail": ap.stderr.decode()[-300:]})
            return res
        env = dict(os.environ, VERIF_REPO=w)
        t0 = time.time()
        cp = subprocess.run([os.path.join(VERIF, "bin", "check"), prop, tier], cwd=VERIF, env=env,
                            stdout=subprocess.PIPE, stderr=subprocess.STDOUT)
        out = cp.stdout.decode("utf-8", "replace")
        keys = re.findall(r'violation detail: key=(\S+)', out)
        res.update({"exit": cp.returncode, "wall_s": round(time.time() - t0, 1), "violation_keys": sorted(set(keys))[:8],
                    "outcome": {0: "missed", 1: "caught"}.get(cp.returncode, "inconclusive(exit %d)" % cp.returncode),
                    "drift": len(re.findall(r'^SPEC-DRIFT', out, re.M))})
        for f in re.findall(r'replay=(\S+)', out):
            try:
                os.remove(f)
            except OSError:
                pass
        return res
    finally:
        subprocess.run(["git", "-C", "/repo", "worktree", "remove", "--force", w])


def main():
    args = sys.argv[1:]
    tier = "quick"
    if args and args[0] in ("quick", "thorough"):
        tier = args.pop(0)
    ids = args or sorted(x for x in os.listdir(SEEDED) if os.path.isdir(os.path.join(SEEDED, x)) and os.path.exists(os.path.join(SEEDED, x, "patch.diff")))
    for sid in ids:
        r = run_one(sid, tier)
        json.dump(r, open(os.path.join(SEEDED, sid, "result.json"), "w"), indent=1)
        print(sid, r["outcome"], r.get("violation_keys", [])[:2], flush=True)
    write_md()


def write_md():
    rows = []
    for sid in sorted(os.listdir(SEEDED)):
        d = os.path.join(SEEDED, sid)
        if not os.path.exists(os.path.join(d, "meta.json")):
            continue
        m = json.load(open(os.path.join(d, "meta.json")))
        r = json.load(open(os.path.join(d, "result.json"))) if os.path.exists(os.path.join(d, "result.json")) else {}
        rows.append("| %s | %s | %s | %s | %s |" % (sid, (m.get("title") or "")[:110].replace("|", "/"),
                    (m.get("needs_to_manifest") or "")[:120].replace("|", "/").replace("\n", " "),
                    r.get("outcome", "not run"), ", ".join(r.get("violation_keys", [])[:2])[:120]))
    with open(os.path.join(SEEDED, "RESULTS.md"), "w") as f:
        f.write("# Seeded regressions (written by sub-agents that saw only the property text) and what the checks say\n\n"
                "Each was confirmed independently (compiles, repository tests pass, demo fails with / passes without).\n"
                "`caught` = `./bin/check <property> quick` exits 1 on a worktree with the patch applied (tools/seeded_eval.py).\n\n"
                "| id | change | needs to manifest | quick check | violation keys |\n|---|---|---|---|---|\n" + "\n".join(rows) + "\n")


if __name__ == "__main__":
    main()
