#!/usr/bin/env python3
"""For every seeded/<ID>/patch.diff: apply it to a scratch worktree of /repo main, run the property's check there,
record the outcome in seeded/<ID>/result.json and rewrite seeded/RESULTS.md.
usage: seeded_eval.py [tier] [ID ...]"""
import json, os, re, subprocess, sys, tempfile, time
VERIF = os.path.dirname(os.path.dirname(os.path.abspath(__file__)))
SEEDED = os.path.join(VERIF, "seeded")


def run_one(sid, tier, prop=None):
    d = os.path.join(SEEDED, sid)
    meta = json.load(open(os.path.join(d, "meta.json")))
    prop = prop or meta.get("property", sid.split("-")[0]).upper()
    w = tempfile.mkdtemp(prefix="seedwt-")
    os.rmdir(w)
    subprocess.run(["git", "-C", "/repo", "worktree", "add", "-q", "--detach", w, "main"], check=True)
    res = {"id": sid, "property": prop, "tier": tier, "at": time.strftime("%Y-%m-%dT%H:%M:%SZ", time.gmtime()),
           "repo_head": subprocess.run(["git", "-C", "/repo", "rev-parse", "--short", "HEAD"], stdout=subprocess.PIPE).stdout.decode().strip()}
    try:
        ap = subprocess.run(["git", "-C", w, "apply", os.path.join(d, "patch.diff")], stderr=subprocess.PIPE)
        if ap.returncode != 0:
            ap = subprocess.run(["git", "-C", w, "apply", "--3way", os.path.join(d, "patch.diff")], stderr=subprocess.PIPE)
        if ap.returncode != 0:
            res.update({"outcome": "patch-does-not-apply", "detail": ap.stderr.decode()[-300:]})
            return res
        env = dict(os.environ, VERIF_REPO=w, VERIF_EVIDENCE_DIR="/tmp/mutant-evidence")
        t0 = time.time()
        cp = subprocess.run([os.path.join(VERIF, "bin", "check"), prop, tier], cwd=VERIF, env=env,
                            stdout=subprocess.PIPE, stderr=subprocess.STDOUT)
        out = cp.stdout.decode("utf-8", "replace")
        keys = re.findall(r'violation detail: key=(\S+)', out)
        res.update({"exit": cp.returncode, "wall_s": round(time.time() - t0, 1), "violation_keys": sorted(set(keys))[:8],
                    "outcome": {0: "missed", 1: "caught"}.get(cp.returncode, "inconclusive(exit %d)" % cp.returncode),
                    "drift": len(re.findall(r'^SPEC-DRIFT', out, re.M))})
        for f in re.findall(r'replay=(\S+)', out):
            try:
                os.remove(f)
            except OSError:
                pass
        return res
    finally:
        subprocess.run(["git", "-C", "/repo", "worktree", "remove", "--force", w])


# which other properties a change may violate, by touched file (a regression written "for" one property
# often breaks the clause of another one)
ALT = [("ipfsconn/ipfshttp", ["C16"]), ("allocate.go", ["C03"]), ("allocator/", ["C03"]), ("consensus/raft/log_op.go", ["C01"]),
       ("consensus/raft/data_helper.go", ["C14"]), ("consensus/raft/", ["C01", "C17"]), ("consensus/crdt/", ["C02", "C07"]),
       ("state/dsstate", ["C01", "C02", "C14", "C08"]), ("config.go", ["C15"]), ("config/", ["C15"]), ("monitor/", ["C09", "C03"]),
       ("pintracker/", ["C05", "C06", "C18"]), ("api/add.go", ["C11", "C13"]), ("api/types.go", ["C06", "C16", "C08", "C11", "C04"]), ("rpc_api.go", ["C07", "C03"]),
       ("api/rest", ["C11"]), ("api/ipfsproxy", ["C12"]), ("adder/", ["C13"]), ("cmdutils/", ["C14", "C08"]),
       ("pstoremgr/", ["C14"]), ("informer/", ["C18", "C09"]), ("cluster.go", ["C04", "C10", "C18", "C09"])]


def alternatives(sid, prop):
    files = re.findall(r'^\+\+\+ b/(\S+)', open(os.path.join(SEEDED, sid, "patch.diff")).read(), re.M)
    out = []
    for f in files:
        for pat, props in ALT:
            if pat in f:
                for q in props:
                    if q != prop and q not in out:
                        out.append(q)
    return out[:4]


def main():
    args = sys.argv[1:]
    tier = "quick"
    if args and args[0] in ("quick", "thorough"):
        tier = args.pop(0)
    ids = args or sorted(x for x in os.listdir(SEEDED) if os.path.isdir(os.path.join(SEEDED, x)) and os.path.exists(os.path.join(SEEDED, x, "patch.diff")))
    for sid in ids:
        r = run_one(sid, tier)
        if r["outcome"] == "missed":
            # try the checks of the other properties whose code the change touches
            for q in alternatives(sid, r["property"]):
                r2 = run_one(sid, tier, prop=q)
                r.setdefault("other_checks", {})[q] = r2["outcome"]
                if r2["outcome"] == "caught":
                    r["outcome"] = "caught by %s (not by %s)" % (q, r["property"])
                    r["violation_keys"] = r2.get("violation_keys", [])
                    break
        json.dump(r, open(os.path.join(SEEDED, sid, "result.json"), "w"), indent=1)
        print(sid, r["outcome"], r.get("violation_keys", [])[:2], flush=True)
    write_md()


def write_md():
    rows = []
    for sid in sorted(os.listdir(SEEDED)):
        d = os.path.join(SEEDED, sid)
        if not os.path.exists(os.path.join(d, "meta.json")):
            continue
        m = json.load(open(os.path.join(d, "meta.json")))
        r = json.load(open(os.path.join(d, "result.json"))) if os.path.exists(os.path.join(d, "result.json")) else {}
        rows.append("| %s | %s | %s | %s | %s |" % (sid, (m.get("title") or "")[:110].replace("|", "/"),
                    (m.get("needs_to_manifest") or "")[:120].replace("|", "/").replace("\n", " "),
                    r.get("outcome", "not run"), ", ".join(r.get("violation_keys", [])[:2])[:120]))
    with open(os.path.join(SEEDED, "RESULTS.md"), "w") as f:
        f.write("# Seeded regressions (written by sub-agents that saw only the property text) and what the checks say\n\n"
                "Each was confirmed independently (compiles, repository tests pass, demo fails with / passes without).\n"
                "`caught` = `./bin/check <property> quick` exits 1 on a worktree with the patch applied (tools/seeded_eval.py).\n\n"
                "| id | change | needs to manifest | quick check | violation keys |\n|---|---|---|---|---|\n" + "\n".join(rows) + "\n")


if __name__ == "__main__":
    main()
