#!/bin/sh
# usage: evalq.sh <tier> <ID>...  -- runs tools/seeded_eval.py for the given seeded ids, one evaluation batch at a time
# (serialised with other evalq.sh invocations through a lock file)
cd /verif && exec flock /tmp/verif-evalq.lock python3 tools/seeded_eval.py "$@"
