#!/usr/bin/env python3
"""Runs the repository's baseline suite with the verif tag OFF and compares with /root/.vp/BASELINE.json stable_pass."""
import json, os, subprocess, sys
base = json.load(open("/root/.vp/BASELINE.json"))
want = set(base["stable_pass"])
env = dict(os.environ); env.update({"GOFLAGS": "-mod=mod", "GOPROXY": "off", "GOSUMDB": "off", "GOTOOLCHAIN": "local"})
p = subprocess.run(["go", "test", "-json", "-vet=off", "-count=1", "-timeout", "25m", "./..."], cwd="/repo", env=env,
                   stdout=subprocess.PIPE, stderr=subprocess.DEVNULL)
passed, failed = set(), set()
for line in p.stdout.decode("utf-8", "replace").splitlines():
    try:
        j = json.loads(line)
    except ValueError:
        continue
    if j.get("Test") and j.get("Action") in ("pass", "fail"):
        k = "%s::%s" % (j["Package"], j["Test"])
        (passed if j["Action"] == "pass" else failed).add(k)
missing = sorted(want - passed)
print("baseline: %d stable tests, %d passed now, %d missing/failed" % (len(want), len(want & passed), len(missing)))
for m in missing[:40]:
    print("  NOT PASSING:", m, "(failed)" if m in failed else "(not run)")
sys.exit(1 if missing else 0)
