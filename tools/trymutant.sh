#!/bin/sh
# usage: trymutant.sh <patch.diff> <CXX> [tier]  -- applies the patch to a scratch worktree of /repo main, runs the check there
P=$1; C=$2; T=${3:-quick}
W=$(mktemp -d /tmp/mutwt-XXXX)
rmdir $W
git -C /repo worktree add -q --detach $W main || exit 3
if ! git -C $W apply $P 2>/dev/null && ! git -C $W apply --3way $P; then echo "PATCH DOES NOT APPLY"; git -C /repo worktree remove --force $W; exit 3; fi
cd /verif && VERIF_EVIDENCE_DIR=/tmp/mutant-evidence VERIF_REPO=$W ./bin/check $C $T > $W.log 2>&1
rc=$?
grep -E "VIOLATION|KNOWN-FINDING|SPEC-DRIFT|INFRA|done rc" $W.log | cut -c1-300
rm -f /verif/replays/$C-*.json
git -C /repo worktree remove --force $W
echo "exit=$rc log=$W.log"
