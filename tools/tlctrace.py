#!/usr/bin/env python3
"""Run TLC on spec/<module> with a cfg and print a compact counterexample (dev helper).
usage: tlctrace.py Module.tla cfg [vars,comma,separated] [workers]"""
import os, re, sys, shutil
sys.path.insert(0, os.path.dirname(os.path.abspath(__file__)))
import tla
VERIF = os.path.dirname(os.path.dirname(os.path.abspath(__file__)))
mod, cfg = sys.argv[1], sys.argv[2]
show = sys.argv[3].split(",") if len(sys.argv) > 3 else None
workers = int(sys.argv[4]) if len(sys.argv) > 4 else 16
d = tla.scratch_spec_dir(os.path.join(VERIF, "spec"))
try:
    r = tla.run_tlc(d, mod, cfg, workers=workers, timeout=3000, heap="12g")
    print("rc", r.rc, "generated", r.generated, "distinct", r.distinct, "depth", r.depth, "%.1fs" % r.wall)
    if r.error:
        print(r.out[-3000:])
    if r.violation:
        print("VIOLATION:", r.violation)
        for m in re.finditer(r'State (\d+): <?([^\n>]*)>?\n((?:/\\ .*\n(?:(?!State \d+:|\n).*\n)*)+)', r.out):
            n, label, body = m.group(1), m.group(2), m.group(3)
            try:
                s = tla.parse_state(body)
            except Exception as e:
                print(n, label, "unparsed", e); continue
            lab = re.sub(r' line .*', '', label)
            if show:
                print(n, lab, {k: s.get(k) for k in show})
            else:
                print(n, lab, s.get("act"))
finally:
    shutil.rmtree(d, ignore_errors=True)
