#!/usr/bin/env python3
"""Writes /verif/MANIFEST.json from the table below (single source of truth)."""
import json, os, subprocess
VERIF = os.path.dirname(os.path.dirname(os.path.abspath(__file__)))

ALL = ["C%02d" % i for i in range(1, 19)]

# checks the lead has integrated and run green on /repo (fragments of others are ignored until then)
ENABLED = ["C%02d" % i for i in range(1, 19)]

CHECKS = {
 "C03": dict(
    engine="tlc+go-replay",
    technique="TLA+ spec (Allocator.tla) model-checked exhaustively with TLC; real Cluster executions recorded and "
              "checked by TLC against the property and transcription predicates (trace validation of a pure function)",
    level="model_checking",
    text="TLC proves, for every input over 3 (quick) / 4 (thorough) peers, that every output the transcribed "
         "allocate/obtainAllocations/SortNumeric code can produce satisfies the statement (Good). The binding to the "
         "code is by recorded executions: thousands of inputs (thorough: every reachable 3-peer input) are run on a real "
         "Cluster through Pin, the closed BlockAllocate RPC and PeerRemove, and TLC evaluates Good and Conforms on every "
         "recorded (input, output) pair. Right level: the property is a law over a finite input space with small-scope "
         "structure; exhaustive enumeration plus per-pair oracle evaluation decides it within the bound.",
    design_ref="DESIGN.md section 4, C03",
    note="Trusted: TLC; the concretisation of abstract metric states (bad/nonnum/v0..v2) in the driver; the harness "
         "consensus (real dsstate on a map datastore); real pubsubmon.Monitor does the health filtering. Rank ties and "
         "map-iteration order are left free.",
    pkgs=["harness/c03_alloc"]),
}

# per-property fragments written next to the property modules: tools/manifest/<cxx>.json
# {engine, technique, level, text, design_ref, note, pkgs:[...]}
_fd = os.path.join(VERIF, "tools", "manifest")
if os.path.isdir(_fd):
    for _f in sorted(os.listdir(_fd)):
        if _f.endswith(".json"):
            if _f[:-5].upper() in ENABLED:
                CHECKS[_f[:-5].upper()] = json.load(open(os.path.join(_fd, _f)))

NOT_YET = "check not built yet in this revision (planned in DESIGN.md section 4)"

def normalise_fixed(entry):
    """-> 'fixed: property=<id> <commit on /repo main> <subject> - <what failed>'.  The commit is looked up on
    /repo main by the quoted 'fix: ...' subject, or through a (branch) commit id mentioned in the entry."""
    import re, subprocess
    if isinstance(entry, dict):
        what = re.sub(r"^fixed: property=C\d+\s*", "", entry.get("what", ""))
        entry = "fixed: property=%s '%s' - %s" % (entry.get("property"), entry.get("commit", "").split(": ", 1)[-1], what)
    m = re.match(r"fixed: property=(C\d+)\s+(.*)$", entry, re.S)
    if not m:
        return entry
    pid, rest = m.group(1), m.group(2)
    log = [l.split(" ", 1) for l in subprocess.run(["git", "-C", "/repo", "log", "--format=%h %s", "-n", "300"],
                                                   stdout=subprocess.PIPE).stdout.decode().splitlines()]
    bysubj = {s_.strip(): h for h, s_ in log}
    subj = re.search(r"'(fix: [^']+)'", rest)
    if subj and subj.group(1).strip() in bysubj:
        tail = (rest[:rest.index(subj.group(0))] + rest[rest.index(subj.group(0)) + len(subj.group(0)):])
        tail = re.sub(r"^(branch\s+)?verif-[a-z0-9-]+\s*(commit)?\s*([0-9a-f]{7,40})?\s*", "", tail).lstrip(" -")
        return "fixed: property=%s %s %s - %s" % (pid, bysubj[subj.group(1).strip()], subj.group(1), tail)
    for h in re.findall(r"\b[0-9a-f]{7,40}\b", rest[:120]):
        cp = subprocess.run(["git", "-C", "/repo", "show", "-s", "--format=%s", h], stdout=subprocess.PIPE, stderr=subprocess.DEVNULL)
        s_ = cp.stdout.decode().strip()
        if cp.returncode == 0 and s_ in bysubj:
            tail = re.sub(r"^(branch\s+)?(verif-[a-z0-9-]+\s*)?(commit\s*)?", "", rest).replace(h, "", 1).lstrip(" -")
            return "fixed: property=%s %s %s - %s" % (pid, bysubj[s_], s_, tail)
    return entry


def main():
    checks = []
    engines = []
    for pid in ALL:
        c = CHECKS.get(pid)
        if not c:
            continue
        checks.append({
            "property_id": pid,
            "quick_cmd": "./bin/check %s quick" % pid,
            "thorough_cmd": "./bin/check %s thorough" % pid,
            "evidence_file": "/verif/evidence/%s.json" % pid,
            "replay_cmd_template": "./bin/check %s --replay {path}" % pid,
            "engine": c["engine"],
            "level_claimed": {"category": c["level"], "text": c["text"], "design_ref": c["design_ref"]},
            "level_note": c["note"],
            "technique": c["technique"],
        })
        for p in c["pkgs"]:
            engines.append({"name": pid + ":" + os.path.basename(p), "path": p, "serves_properties": [pid],
                            "kind_free_text": "Go driver (go test -tags verif) run by tools/vcheck.py with TLC stages"})
    hooks_commits = []
    try:
        out = subprocess.run(["git", "-C", "/repo", "log", "--format=%H %s", "9309c15..HEAD"], stdout=subprocess.PIPE).stdout.decode()
        for l in out.splitlines():
            h, s = l.split(" ", 1)
            if s.startswith("verif:"):
                hooks_commits.append(h)
    except Exception:
        pass
    man = {
        "version": 1,
        "setup_cmd": "./bin/setup",
        "hooks": {
            "guard": "verif",
            "enable": "go test -tags verif from /verif/harness (module verifharness; -modfile with replace "
                      "github.com/ipfs/ipfs-cluster => /repo and a compile-only stub of go-libp2p-quic-transport)",
            "baseline_off_cmd": "cd /repo && GOFLAGS=-mod=mod go test -vet=off -count=1 -timeout 25m ./...",
            "source_commits": hooks_commits,
            "add_only": True,
        },
        "engines": engines,
        "checks": checks,
        "notes": "All checks: ./bin/check <id> quick|thorough. Exit 0 held / 1 VIOLATION / 2 infrastructure. "
                 "SPEC-DRIFT lines (real code departs from the transcription while the property predicates hold) "
                 "are informational. known_findings.json lists recorded genuine defects.",
        "not_applicable": [{"property_id": p, "reason": NOT_YET} for p in ALL if p not in CHECKS],
    }
    json.dump(man, open(os.path.join(VERIF, "MANIFEST.json"), "w"), indent=1)
    # consolidate known findings: known_findings.d/*.json (one per property module) -> known_findings.json
    kd = os.path.join(VERIF, "known_findings.d")
    findings, fixed = [], []
    for f in sorted(os.listdir(kd)):
        if f.endswith(".json"):
            j = json.load(open(os.path.join(kd, f)))
            findings += j.get("findings", [])
            fixed += j.get("fixed", [])
    fixed = [normalise_fixed(f) for f in fixed]
    json.dump({"comment": "generated by tools/mkmanifest.py from known_findings.d/*.json; a listed finding makes the check "
                          "print KNOWN-FINDING and exit 0 for exactly that key; 'fixed' entries suppress nothing",
               "findings": findings, "fixed": fixed}, open(os.path.join(VERIF, "known_findings.json"), "w"), indent=1)
    print("known_findings.json: %d findings, %d fixed" % (len(findings), len(fixed)))
    print("MANIFEST.json: %d checks, %d not claimed" % (len(checks), len(man["not_applicable"])))

if __name__ == "__main__":
    main()
