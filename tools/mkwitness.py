#!/usr/bin/env python3
"""Regenerates spec/witness/*.json: behaviours TLC produces as counterexamples of negated
reachability goals (Tracker_wit_*.cfg). They are replayed on the real code in every run."""
import json, os, shutil, sys
HERE = os.path.dirname(os.path.abspath(__file__))
sys.path.insert(0, HERE)
import tla
from props import tracker_common as tc
VERIF = os.path.dirname(HERE)

def main():
    d = tla.scratch_spec_dir(os.path.join(VERIF, "spec"))
    try:
        wits = [] if os.environ.get("ONLY_COVER") else sorted(f for f in os.listdir(d) if f.startswith("Tracker_wit_") and f.endswith(".cfg"))
        for cfg in wits:
            r = tla.run_tlc(d, "Tracker.tla", cfg, workers=16, timeout=3000, heap="12g")
            name = cfg[len("Tracker_wit_"):-4]
            if not r.violation:
                print(cfg, "no counterexample!", r.error, r.rc)
                continue
            beh = tla.parse_error_trace(r.out)
            consts = {}
            for line in open(os.path.join(d, cfg)):
                parts = line.split("=")
                if len(parts) == 2 and parts[0].strip() in ("K", "Q"):
                    consts[parts[0].strip()] = int(parts[1])
            cids = sorted(beh[0]["state"]["st"].keys())
            out = {"goal": name, "cfg": cfg, "K": consts["K"], "Q": consts["Q"], "cids": cids, "behaviour": beh}
            json.dump(out, open(os.path.join(VERIF, "spec", "witness", "tracker_%s.json" % name), "w"))
            print(cfg, "witness of", len(beh), "states", "%.0fs" % r.wall)
        # branch-coverage witnesses: one shortest behaviour per (action, branch tag)
        covers = [] if os.environ.get("SKIP_COVER") else sorted(f for f in os.listdir(d) if f.startswith("Tracker_cover_") and f.endswith(".cfg"))
        if os.environ.get("ONLY_COVER"):
            covers = [c for c in covers if os.environ["ONLY_COVER"] in c]
        for cfg in covers:
            r = tla.run_tlc(d, "TrackerCover.tla", cfg, workers=1, timeout=6000, heap="16g", extra=["-continue"])
            behs = tla.parse_error_traces(r.out)
            consts = {}
            for line in open(os.path.join(d, cfg)):
                parts = line.split("=")
                if len(parts) == 2 and parts[0].strip() in ("K", "Q"):
                    consts[parts[0].strip()] = int(parts[1])
            name = cfg[len("Tracker_cover_"):-4]
            outl = []
            for i, beh in enumerate(behs):
                a = beh[-1]["state"]["act"]
                goal = "cover-%s-%d:%s" % (name, i, a.get("name"))
                gated = "GatedFinish = TRUE" in open(os.path.join(d, cfg)).read()
                sc = tc.to_script(beh, "w-" + goal, consts["K"], consts["Q"], sorted(beh[0]["state"]["st"].keys()), gated=gated)
                if sc:
                    sc["tags"] = sorted(set(sc["tags"]) | {"witness:cover"})
                    outl.append({"goal": goal, "tag": [a.get("name"), a.get("br")], "cfg": cfg, "script": sc})
            json.dump(outl, open(os.path.join(VERIF, "spec", "witness", "trackercover_%s.json" % name), "w"))
            print(cfg, len(behs), "witnesses", "%.0fs" % r.wall, "distinct", r.distinct)
    finally:
        shutil.rmtree(d, ignore_errors=True)

if __name__ == "__main__":
    main()
