// End-to-end driver for spec/Cluster.tla: real Cluster peers (real allocator,
// real stateless tracker + operation tracker, real ipfshttp connector, the
// repository's mock IPFS daemon over HTTP) around one shared harness pinset
// whose consensus stand-in hands every stored change to every peer's tracker,
// as raft's LogOp.ApplyTo and the crdt put/delete hooks do. TLC-simulated
// behaviours of Cluster.tla give the operations; the final states are judged by
// TLC (spec/ClusterObs.tla).
package c05e2e

import (
	"context"
	"encoding/json"
	"fmt"
	"io/ioutil"
	"net"
	"net/http"
	"net/http/httputil"
	"net/url"
	"os"
	"sort"
	"strings"
	"sync/atomic"
	"testing"
	"time"

	"verifharness/hx"
	"verifharness/rig"

	ipfscluster "github.com/ipfs/ipfs-cluster"
	"github.com/ipfs/ipfs-cluster/api"
	"github.com/ipfs/ipfs-cluster/ipfsconn/ipfshttp"
	"github.com/ipfs/ipfs-cluster/pintracker/stateless"
	"github.com/ipfs/ipfs-cluster/state"
	"github.com/ipfs/ipfs-cluster/test"

	cid "github.com/ipfs/go-cid"
	peer "github.com/libp2p/go-libp2p-core/peer"
	peerstore "github.com/libp2p/go-libp2p-core/peerstore"
	ma "github.com/multiformats/go-multiaddr"
)

type act struct {
	Name string `json:"name"`
	At   string `json:"at"`
	Cid  string `json:"cid"`
	Mode string `json:"mode"`
	Rmin int    `json:"rmin"`
	Rmax int    `json:"rmax"`
	Q    string `json:"q"`
	From string `json:"from"`
	P    string `json:"p"`
}

type script struct {
	// Slow: the daemons hold every pin/add for this many milliseconds (cancelled calls are dropped)
	Slow  int      `json:"slow"`
	// Reset: daemon outages drop connections instead of answering 500
	Reset bool     `json:"reset"`
	ID    string   `json:"id"`
	Peers []string `json:"peers"`
	Cids  []string `json:"cids"`
	Acts  []act    `json:"acts"`
}

type pinView struct {
	K          string   `json:"k"`
	Mode       string   `json:"mode"`
	Allocs     []string `json:"allocs"`
	Everywhere bool     `json:"everywhere"`
	Rmin       int      `json:"rmin"`
	Rmax       int      `json:"rmax"`
	Exp        bool     `json:"exp"`
}

type obs struct {
	Script  string                       `json:"script"`
	Up      []string                     `json:"up"`
	Ps      map[string]pinView           `json:"ps"`
	Ipfs    map[string]map[string]string `json:"ipfs"`
	Settled bool                         `json:"settled"`
	Results []string                     `json:"results"`
	// per CID that had expired: how many unpins the StateSync rounds issued for it
	ExpUnpins map[string]int `json:"expunpins"`
	// peers whose daemon had an outage during the run
	Outage []string `json:"outage"`
}

type node struct {
	name string
	r    *rig.Rig
	mock *test.IpfsMock
	gw   *outageProxy
}

// outageProxy sits between the connector and the mock daemon: while down every API request is
// answered with an IPFS-style 500 error, otherwise it is relayed unchanged.
type outageProxy struct {
	down int32
	// slow > 0: every pin/add is held for that many milliseconds before it is relayed; a request whose
	// client went away meanwhile (the connector cancelled it) is dropped, as a real daemon abandons a
	// fetch when the API connection closes
	slow int32
	held int32
	// reset: an outage drops the connection (transport failure) instead of answering an IPFS-style 500
	reset bool
	ln   net.Listener
	srv  *http.Server
}

func newOutageProxy(target string) (*outageProxy, error) {
	u, err := url.Parse(target)
	if err != nil {
		return nil, err
	}
	ln, err := net.Listen("tcp4", "127.0.0.1:0")
	if err != nil {
		return nil, err
	}
	rp := httputil.NewSingleHostReverseProxy(u)
	rp.FlushInterval = -1
	op := &outageProxy{ln: ln}
	op.srv = &http.Server{Handler: http.HandlerFunc(func(w http.ResponseWriter, r *http.Request) {
		if atomic.LoadInt32(&op.down) == 1 {
			if op.reset {
				if hj, ok := w.(http.Hijacker); ok {
					if c, _, err := hj.Hijack(); err == nil {
						c.Close()
						return
					}
				}
			}
			w.Header().Set("Content-Type", "application/json")
			w.WriteHeader(http.StatusInternalServerError)
			w.Write([]byte(`{"Message":"daemon is down (verif outage)","Code":0,"Type":"error"}`))
			return
		}
		if ms := atomic.LoadInt32(&op.slow); ms > 0 && strings.HasSuffix(r.URL.Path, "/pin/add") {
			atomic.AddInt32(&op.held, 1)
			t := time.NewTimer(time.Duration(ms) * time.Millisecond)
			select {
			case <-t.C:
				atomic.AddInt32(&op.held, -1)
			case <-r.Context().Done():
				t.Stop()
				atomic.AddInt32(&op.held, -1)
				return
			}
		}
		rp.ServeHTTP(w, r)
	})}
	go op.srv.Serve(ln)
	return op, nil
}

func (op *outageProxy) port() int { return op.ln.Addr().(*net.TCPAddr).Port }
func (op *outageProxy) set(down bool) {
	v := int32(0)
	if down {
		v = 1
	}
	atomic.StoreInt32(&op.down, v)
}
func (op *outageProxy) close() { op.srv.Close() }

func ipfsPins(m *test.IpfsMock) (map[string]string, error) {
	resp, err := http.Post(fmt.Sprintf("http://%s:%d/api/v0/pin/ls", m.Addr, m.Port), "", nil)
	if err != nil {
		return nil, err
	}
	defer resp.Body.Close()
	b, _ := ioutil.ReadAll(resp.Body)
	var r struct {
		Keys map[string]struct{ Type string }
	}
	if err := json.Unmarshal(b, &r); err != nil {
		return nil, fmt.Errorf("%v: %s", err, string(b))
	}
	out := map[string]string{}
	for k, v := range r.Keys {
		if v.Type == "direct" {
			out[k] = "dir"
		} else {
			out[k] = "rec"
		}
	}
	return out, nil
}

func runScript(t *testing.T, sc *script, seed int64) (*obs, error) {
	ctx := context.Background()
	names := hx.NewNames(seed)
	shared := rig.NewSharedState()
	nodes := map[string]*node{}
	var order []*node
	for _, pn := range sc.Peers {
		h, err := rig.NewHost()
		if err != nil {
			return nil, err
		}
		mock := test.NewIpfsMock(t)
		gw, err := newOutageProxy(fmt.Sprintf("http://%s:%d", mock.Addr, mock.Port))
		if err != nil {
			return nil, err
		}
		nodeMAddr, _ := ma.NewMultiaddr(fmt.Sprintf("/ip4/127.0.0.1/tcp/%d", gw.port()))
		ccfg := &ipfshttp.Config{}
		ccfg.Default()
		ccfg.NodeAddr = nodeMAddr
		conn, err := ipfshttp.NewConnector(ccfg)
		if err != nil {
			return nil, err
		}
		tcfg := &stateless.Config{}
		tcfg.Default()
		tr := stateless.New(tcfg, h.ID(), pn, func(context.Context) (state.ReadOnly, error) { return shared.State, nil })
		r, err := rig.NewRig(rig.Opts{Host: h, Shared: shared, Tracker: tr, IPFS: conn, RplMin: 1, RplMax: 2})
		if err != nil {
			return nil, err
		}
		names.SetPeer(pn, r.ID)
		atomic.StoreInt32(&gw.slow, int32(sc.Slow))
		gw.reset = sc.Reset
		n := &node{name: pn, r: r, mock: mock, gw: gw}
		nodes[pn] = n
		order = append(order, n)
	}
	defer func() {
		for _, n := range order {
			n.r.Close()
			n.gw.close()
			n.mock.Close()
		}
	}()
	for _, a := range order {
		for _, b := range order {
			if a != b {
				a.r.Host.Peerstore().AddAddrs(b.r.ID, b.r.Host.Addrs(), peerstore.PermanentAddrTTL)
			}
		}
	}
	up := map[string]bool{}
	for _, pn := range sc.Peers {
		up[pn] = true
	}
	setMetrics := func() {
		var live []peer.ID
		for _, pn := range sc.Peers {
			if up[pn] {
				live = append(live, names.Peer(pn))
			}
		}
		shared.SetPeers(live)
		for _, n := range order {
			var ms, pings []*api.Metric
			for i, pn := range sc.Peers {
				if !up[pn] {
					continue
				}
				m := &api.Metric{Name: "freespace", Peer: names.Peer(pn), Value: fmt.Sprint(100 + i), Valid: true}
				m.SetTTL(time.Hour)
				ms = append(ms, m)
				pg := &api.Metric{Name: "ping", Peer: names.Peer(pn), Value: "", Valid: true}
				pg.SetTTL(time.Hour)
				pings = append(pings, pg)
			}
			n.r.Mon.Set("freespace", ms)
			n.r.Mon.Set("ping", pings)
		}
	}
	setMetrics()
	// the consensus hand-off: every live peer's tracker gets every stored change, asynchronously
	// Per peer the changes arrive in commit order (one FIFO per peer, as the crdt hooks deliver them;
	// raft's LogOp.ApplyTo uses one goroutine per entry, which may reorder two entries of one CID -
	// noted in DESIGN.md 9.5, not modelled here), asynchronously with respect to the API call.
	type handoff struct {
		kind string
		pin  api.Pin
	}
	queues := map[string]chan handoff{}
	for _, n := range order {
		n := n
		q := make(chan handoff, 256)
		queues[n.name] = q
		go func() {
			for h := range q {
				cp := h.pin
				if h.kind == "pin" {
					n.r.RPC().CallContext(ctx, "", "PinTracker", "Track", &cp, &struct{}{})
				} else {
					n.r.RPC().CallContext(ctx, "", "PinTracker", "Untrack", &cp, &struct{}{})
				}
			}
		}()
	}
	defer func() {
		for _, q := range queues {
			close(q)
		}
	}()
	shared.AfterLog = func(kind string, p *api.Pin) {
		for _, n := range order {
			if up[n.name] {
				queues[n.name] <- handoff{kind, *p}
			}
		}
	}
	// wait until nothing changes any more (no operation in any live tracker, daemons stable)
	waitSettled := func() (bool, error) {
		deadline := time.Now().Add(20 * time.Second)
		var last string
		stableSince := time.Now()
		for time.Now().Before(deadline) {
			snap := ""
			busy := false
			for _, n := range order {
				if !up[n.name] {
					continue
				}
				pins, err := ipfsPins(n.mock)
				if err != nil {
					return false, err
				}
				b, _ := json.Marshal(pins)
				snap += n.name + string(b)
				if len(queues[n.name]) > 0 || atomic.LoadInt32(&n.gw.held) > 0 {
					busy = true
				}
				for _, pi := range n.r.Cluster.StatusAllLocal(ctx, api.TrackerStatusQueued|api.TrackerStatusPinning|api.TrackerStatusUnpinning) {
					_ = pi
					busy = true
				}
			}
			if snap != last || busy {
				last = snap
				stableSince = time.Now()
			} else if time.Since(stableSince) > 400*time.Millisecond {
				return true, nil
			}
			time.Sleep(20 * time.Millisecond)
		}
		return false, nil
	}
	o := &obs{Script: sc.ID, Outage: []string{}, Ps: map[string]pinView{}, Ipfs: map[string]map[string]string{}, ExpUnpins: map[string]int{}}
	var lastExpiry time.Time
	stateSyncRound := func() {
		if d := time.Until(lastExpiry); d > 0 {
			time.Sleep(d + 120*time.Millisecond)
		}
		// which pins are expired now
		expired := map[string]bool{}
		for _, p := range shared.Pins() {
			if p.ExpiredAt(time.Now()) {
				expired[names.CidName(p.Cid)] = true
				if _, ok := o.ExpUnpins[names.CidName(p.Cid)]; !ok {
					o.ExpUnpins[names.CidName(p.Cid)] = 0
				}
			}
		}
		shared.TakeCalls()
		for _, n := range order {
			if up[n.name] {
				n.r.Cluster.StateSync(ctx)
			}
		}
		for _, k := range shared.TakeCalls() {
			if k.Kind == "unpin" && expired[names.CidName(k.Pin.Cid)] {
				o.ExpUnpins[names.CidName(k.Pin.Cid)]++
			}
		}
	}
	for _, a := range sc.Acts {
		switch a.Name {
		case "Pin":
			opts := api.PinOptions{ReplicationFactorMin: a.Rmin, ReplicationFactorMax: a.Rmax, Name: "e2e"}
			if a.Mode == "dir" {
				opts.Mode = api.PinModeDirect
			}
			_, err := nodes[a.At].r.Cluster.Pin(ctx, names.Cid(a.Cid), opts)
			o.Results = append(o.Results, fmt.Sprintf("Pin(%s,%s,%s,%d,%d)=%v", a.At, a.Cid, a.Mode, a.Rmin, a.Rmax, err == nil))
		case "Unpin":
			_, err := nodes[a.At].r.Cluster.Unpin(ctx, names.Cid(a.Cid))
			o.Results = append(o.Results, fmt.Sprintf("Unpin(%s,%s)=%v", a.At, a.Cid, err == nil))
		case "PinUpdate":
			_, err := nodes[a.At].r.Cluster.PinUpdate(ctx, names.Cid(a.From), names.Cid(a.Cid), api.PinOptions{})
			o.Results = append(o.Results, fmt.Sprintf("PinUpdate(%s,%s->%s)=%v", a.At, a.From, a.Cid, err == nil))
		case "PinExpiring":
			cur, err := shared.State.Get(ctx, names.Cid(a.Cid))
			if err == nil {
				opts := cur.PinOptions
				opts.ExpireAt = time.Now().Add(350 * time.Millisecond)
				opts.PinUpdate = cid.Undef
				_, err = nodes[a.At].r.Cluster.Pin(ctx, names.Cid(a.Cid), opts)
				if err == nil && opts.ExpireAt.After(lastExpiry) {
					lastExpiry = opts.ExpireAt
				}
			}
			o.Results = append(o.Results, fmt.Sprintf("PinExpiring(%s,%s)=%v", a.At, a.Cid, err == nil))
		case "StateSyncAll":
			stateSyncRound()
			o.Results = append(o.Results, "StateSyncAll")
		case "Settle":
			// scheduling only (not an action of Cluster.tla): let the internal steps run to completion
			if _, err := waitSettled(); err != nil {
				return nil, err
			}
		case "IpfsDown":
			nodes[a.P].gw.set(true)
			o.Outage = append(o.Outage, a.P)
			o.Results = append(o.Results, "IpfsDown("+a.P+")")
		case "IpfsHeal":
			nodes[a.P].gw.set(false)
			o.Results = append(o.Results, "IpfsHeal("+a.P+")")
		case "RecoverAll":
			// the model recovers a peer on which nothing is in flight
			if _, err := waitSettled(); err != nil {
				return nil, err
			}
			_, err := nodes[a.P].r.Cluster.RecoverAllLocal(ctx)
			o.Results = append(o.Results, fmt.Sprintf("RecoverAll(%s)=%v", a.P, err == nil))
		case "PeerFail":
			up[a.Q] = false
			setMetrics()
			// the monitor of every survivor raises the ping alert
			for _, n := range order {
				if up[n.name] {
					n.r.Mon.AlertCh <- &api.Alert{Metric: api.Metric{Name: "ping", Peer: names.Peer(a.Q)}, TriggeredAt: time.Now()}
				}
			}
			time.Sleep(150 * time.Millisecond)
			o.Results = append(o.Results, "PeerFail("+a.Q+")")
		}
		time.Sleep(time.Duration(seed%3) * time.Millisecond)
	}
	// every run ends with a StateSync round after the last expiry (the periodic state sync)
	stateSyncRound()
	// every daemon answers again, then one recover round on every live peer (the operator's
	// "recover --all" / the periodic auto-recover), then wait again: this is the point at which the
	// composition's promise is judged
	for _, n := range order {
		n.gw.set(false)
	}
	settled, err := waitSettled()
	if err != nil {
		return nil, err
	}
	if settled {
		for _, n := range order {
			if up[n.name] {
				n.r.Cluster.RecoverAllLocal(ctx)
			}
		}
		settled, err = waitSettled()
		if err != nil {
			return nil, err
		}
	}
	o.Settled = settled
	for _, pn := range sc.Peers {
		if up[pn] {
			o.Up = append(o.Up, pn)
		}
	}
	for _, c := range sc.Cids {
		o.Ps[c] = pinView{K: "none", Mode: "-", Allocs: []string{}}
	}
	for _, p := range shared.Pins() {
		v := pinView{K: "pin", Mode: "rec", Allocs: names.PeerNames(p.Allocations), Everywhere: p.IsPinEverywhere(),
			Rmin: p.ReplicationFactorMin, Rmax: p.ReplicationFactorMax}
		if p.Mode == api.PinModeDirect {
			v.Mode = "dir"
		}
		v.Exp = p.ExpiredAt(time.Now())
		sort.Strings(v.Allocs)
		o.Ps[names.CidName(p.Cid)] = v
	}
	for _, n := range order {
		pins, err := ipfsPins(n.mock)
		if err != nil {
			return nil, err
		}
		m := map[string]string{}
		for _, c := range sc.Cids {
			m[c] = "none"
		}
		for k, v := range pins {
			ci, err := cid.Decode(k)
			if err != nil {
				continue
			}
			m[names.CidName(ci)] = v
		}
		o.Ipfs[n.name] = m
	}
	return o, nil
}

var _ = ipfscluster.ReadyTimeout

func TestDriver(t *testing.T) {
	rig.Quiet()
	res := hx.NewResult()
	defer res.Write()
	raw, err := hx.LoadCases()
	if err != nil {
		t.Fatal(err)
	}
	tf, err := os.Create(os.Getenv("VERIF_TRACE"))
	if err != nil {
		t.Fatal(err)
	}
	defer tf.Close()
	enc := json.NewEncoder(tf)
	for i, r := range raw {
		var sc script
		if err := json.Unmarshal(r, &sc); err != nil {
			t.Fatal(err)
		}
		o, err := runScript(t, &sc, hx.Seed()*101+int64(i))
		if err != nil {
			res.Infra("script %s: %v", sc.ID, err)
			return
		}
		if !o.Settled {
			res.Infra("script %s: peers did not settle within the deadline", sc.ID)
			return
		}
		enc.Encode(o)
		fails := 0
		for _, a := range sc.Acts {
			if a.Name == "PeerFail" {
				fails++
			}
		}
		res.Case(map[string]interface{}{"acts": o.Results}, fails > 0 || len(sc.Acts) > 3)
		res.Count(len(sc.Acts))
	}
}
