// C15 driver, concurrent saves: replays on a REAL config.Manager the interleavings TLC found in
// spec/ConfigSave.tla (counterexamples of the "serialise outside the lock" variant). The Manager's single
// component is a harness ComponentConfig whose ToJSON takes its snapshot and then waits at a gate, which is how
// the driver holds a save "in the middle". On the unchanged code the second save blocks on saveMux instead of
// reaching its gate: the driver notices by a timeout and goes on (the interleaving is then not realisable, which
// is the point). Recorded: the version in memory, the version on disk and, per save, the version current when
// it started and whether it returned. spec/ConfigTrace.tla evaluates ConfigSave!SaveOutcomeOK.
package c15

import (
	"bufio"
	"encoding/json"
	"fmt"
	"os"
	"path/filepath"
	"sync"
	"testing"
	"time"

	"github.com/ipfs/ipfs-cluster/config"

	logging "github.com/ipfs/go-log/v2"

	"verifharness/hx"
)

type gate struct {
	entered chan struct{}
	release chan struct{}
	once    sync.Once
}

func (g *gate) open() { g.once.Do(func() { close(g.release) }) }

type gatedConfig struct {
	config.Saver
	mu    sync.Mutex
	value int
	calls int
	gates []*gate // gate k holds the k-th ToJSON call
}

func (g *gatedConfig) set(v int) { g.mu.Lock(); g.value = v; g.mu.Unlock() }

func (g *gatedConfig) ConfigKey() string   { return "cluster" }
func (g *gatedConfig) Default() error      { g.set(0); return nil }
func (g *gatedConfig) ApplyEnvVars() error { return nil }
func (g *gatedConfig) Validate() error     { return nil }
func (g *gatedConfig) LoadJSON(raw []byte) error {
	var j struct {
		Value int `json:"value"`
	}
	if err := json.Unmarshal(raw, &j); err != nil {
		return err
	}
	g.set(j.Value)
	return nil
}
func (g *gatedConfig) ToJSON() ([]byte, error) {
	g.mu.Lock()
	out := []byte(fmt.Sprintf(`{"value":%d}`, g.value)) // the snapshot
	var gt *gate
	if g.calls < len(g.gates) {
		gt = g.gates[g.calls]
	}
	g.calls++
	g.mu.Unlock()
	if gt != nil {
		close(gt.entered)
		<-gt.release
	}
	return out, nil
}
func (g *gatedConfig) ToDisplayJSON() ([]byte, error) {
	g.mu.Lock()
	defer g.mu.Unlock()
	return []byte(fmt.Sprintf(`{"value":%d}`, g.value)), nil
}

type saveScript struct {
	ID     int        `json:"id"`
	Script [][]string `json:"script"`
}

const stepWait = 700 * time.Millisecond // how long a step may take before the saver counts as blocked

func runSaveScript(sc saveScript) (fact, error) {
	dir, err := os.MkdirTemp("", "verif-c15-save-")
	if err != nil {
		return nil, err
	}
	defer os.RemoveAll(dir)
	path := filepath.Join(dir, "service.json")
	comp := &gatedConfig{}
	order := []string{} // savers in the order their snapshots are scripted: the k-th ToJSON call is theirs
	for _, ev := range sc.Script {
		if ev[0] == "snap" {
			order = append(order, ev[1])
			comp.gates = append(comp.gates, &gate{entered: make(chan struct{}), release: make(chan struct{})})
		}
	}
	gateOf := func(s string) *gate {
		for i, n := range order {
			if n == s {
				return comp.gates[i]
			}
		}
		return nil
	}
	mgr := config.NewManager()
	mgr.RegisterComponent(config.Cluster, comp)
	defer mgr.Shutdown()

	mem := 0
	type saverT struct {
		startver int
		done     chan error
		returned bool
		err      string
	}
	savers := map[string]*saverT{}
	names := []string{}
	notes := []string{}
	for _, ev := range sc.Script {
		switch ev[0] {
		case "change":
			mem++
			comp.set(mem)
		case "start":
			s := &saverT{startver: mem, done: make(chan error, 1)}
			savers[ev[1]] = s
			names = append(names, ev[1])
			go func() {
				defer func() {
					if r := recover(); r != nil {
						s.done <- fmt.Errorf("panic: %v", r)
					}
				}()
				s.done <- mgr.SaveJSON(path)
			}()
		case "snap":
			select {
			case <-gateOf(ev[1]).entered:
			case <-time.After(stepWait):
				notes = append(notes, "save "+ev[1]+" does not reach its snapshot while another save is in progress")
			}
		case "return":
			if g := gateOf(ev[1]); g != nil {
				g.open()
			}
			s := savers[ev[1]]
			select {
			case err := <-s.done:
				s.returned = true
				if err != nil {
					s.err = err.Error()
				}
			case <-time.After(stepWait):
				notes = append(notes, "save "+ev[1]+" does not return while another save is in progress")
			}
		}
	}
	// let everything finish
	for _, g := range comp.gates {
		g.open()
	}
	for _, n := range names {
		s := savers[n]
		if s.returned {
			continue
		}
		select {
		case err := <-s.done:
			s.returned = true
			if err != nil {
				s.err = err.Error()
			}
		case <-time.After(60 * time.Second):
			return nil, fmt.Errorf("save %s never returned", n)
		}
	}
	onDisk := -1
	if b, err := os.ReadFile(path); err == nil {
		var f struct {
			Cluster struct {
				Value int `json:"value"`
			} `json:"cluster"`
		}
		if err := json.Unmarshal(b, &f); err != nil {
			return nil, fmt.Errorf("saved file does not parse: %v", err)
		}
		onDisk = f.Cluster.Value
	}
	sv := []fact{}
	for _, n := range names {
		s := savers[n]
		if s.err != "" {
			return nil, fmt.Errorf("SaveJSON failed: %s", s.err)
		}
		sv = append(sv, fact{"name": n, "startver": s.startver, "returned": s.returned})
	}
	return fact{"fact": "save", "id": sc.ID, "script": sc.Script, "mem": mem, "file": onDisk, "savers": sv, "notes": notes}, nil
}

func TestSaveRace(t *testing.T) {
	logging.SetAllLoggers(logging.LevelPanic)
	res := hx.NewResult()
	defer res.Write()
	lines, err := hx.LoadCases()
	if err != nil {
		res.Infra("scripts: %v", err)
		return
	}
	out, err := os.Create(os.Getenv("VERIF_TRACE"))
	if err != nil {
		res.Infra("trace: %v", err)
		return
	}
	defer out.Close()
	bw := bufio.NewWriter(out)
	defer bw.Flush()
	enc := json.NewEncoder(bw)
	for i, l := range lines {
		var sc saveScript
		if err := json.Unmarshal(l, &sc); err != nil || len(sc.Script) == 0 {
			res.Infra("script %d: %v", i+1, err)
			return
		}
		f, err := runSaveScript(sc)
		if err != nil {
			res.Infra("script %d: %v", sc.ID, err)
			return
		}
		enc.Encode(f)
		res.Case(fact{"script": sc.Script}, true)
		res.AddTraces(0)
	}
	res.Set("save_interleavings_replayed", len(lines))
}
