// C15 driver: extracts the settings of every component configuration from the
// real code (ToJSON / ToDisplayJSON of the default configuration, reflection over
// the Config structs), tries every value class of spec/Config.tla on every
// setting - alone, inside a full config.Manager file, and through environment
// variables - and records FACTS (outcome of LoadJSON, Validate, relation of the
// saved value to the given one, stability of save/load, what the display form
// shows). The laws are evaluated by TLC (spec/ConfigTrace.tla); this package has
// no notion of a violation.
package c15

import (
	"bufio"
	"bytes"
	"crypto/ecdsa"
	"crypto/elliptic"
	crand "crypto/rand"
	"crypto/x509"
	"crypto/x509/pkix"
	"encoding/pem"
	"math/big"
	"path/filepath"
	"sync"
	"crypto/sha256"
	"encoding/base64"
	"encoding/hex"
	"encoding/json"
	"fmt"
	"math/rand"
	"os"
	"reflect"
	"sort"
	"strings"
	"testing"
	"time"

	ipfscluster "github.com/ipfs/ipfs-cluster"
	"github.com/ipfs/ipfs-cluster/api/ipfsproxy"
	"github.com/ipfs/ipfs-cluster/api/rest"
	"github.com/ipfs/ipfs-cluster/config"
	"github.com/ipfs/ipfs-cluster/consensus/crdt"
	"github.com/ipfs/ipfs-cluster/consensus/raft"
	"github.com/ipfs/ipfs-cluster/datastore/badger"
	"github.com/ipfs/ipfs-cluster/datastore/leveldb"
	"github.com/ipfs/ipfs-cluster/informer/disk"
	"github.com/ipfs/ipfs-cluster/informer/numpin"
	"github.com/ipfs/ipfs-cluster/ipfsconn/ipfshttp"
	"github.com/ipfs/ipfs-cluster/monitor/pubsubmon"
	"github.com/ipfs/ipfs-cluster/observations"
	"github.com/ipfs/ipfs-cluster/pintracker/stateless"

	logging "github.com/ipfs/go-log/v2"
	crypto "github.com/libp2p/go-libp2p-core/crypto"
	peer "github.com/libp2p/go-libp2p-core/peer"

	"verifharness/hx"
)

type section struct {
	name string
	typ  config.SectionType
	mk   func() config.ComponentConfig
	env  string // envconfig prefix
}

var sections = []section{
	{"cluster", config.Cluster, func() config.ComponentConfig { return &ipfscluster.Config{} }, "CLUSTER"},
	{"raft", config.Consensus, func() config.ComponentConfig { return &raft.Config{} }, "CLUSTER_RAFT"},
	{"crdt", config.Consensus, func() config.ComponentConfig { return &crdt.Config{} }, "CLUSTER_CRDT"},
	{"restapi", config.API, func() config.ComponentConfig { return &rest.Config{} }, "CLUSTER_RESTAPI"},
	{"ipfsproxy", config.API, func() config.ComponentConfig { return &ipfsproxy.Config{} }, "CLUSTER_IPFSPROXY"},
	{"ipfshttp", config.IPFSConn, func() config.ComponentConfig { return &ipfshttp.Config{} }, "CLUSTER_IPFSHTTP"},
	{"stateless", config.PinTracker, func() config.ComponentConfig { return &stateless.Config{} }, "CLUSTER_STATELESS"},
	{"pubsubmon", config.Monitor, func() config.ComponentConfig { return &pubsubmon.Config{} }, "CLUSTER_PUBSUBMON"},
	{"disk", config.Informer, func() config.ComponentConfig { return &disk.Config{} }, "CLUSTER_DISK"},
	{"numpin", config.Informer, func() config.ComponentConfig { return &numpin.Config{} }, "CLUSTER_NUMPIN"},
	{"metrics", config.Observations, func() config.ComponentConfig { return &observations.MetricsConfig{} }, "CLUSTER_METRICS"},
	{"tracing", config.Observations, func() config.ComponentConfig { return &observations.TracingConfig{} }, "CLUSTER_TRACING"},
	{"badger", config.Datastore, func() config.ComponentConfig { return &badger.Config{} }, "CLUSTER_BADGER"},
	{"leveldb", config.Datastore, func() config.ComponentConfig { return &leveldb.Config{} }, "CLUSTER_LEVELDB"},
}

// managerKey is the name of the top-level object of the configuration file that holds the section type.
var managerKey = map[config.SectionType]string{config.Consensus: "consensus", config.API: "api", config.IPFSConn: "ipfs_connector",
	config.PinTracker: "pin_tracker", config.Monitor: "monitor", config.Informer: "informer", config.Observations: "observations",
	config.Datastore: "datastore"}

// ---------------------------------------------------------------------------
// generic JSON trees
// ---------------------------------------------------------------------------

type tree = map[string]interface{}

func parse(b []byte) (tree, error) {
	var t tree
	d := json.NewDecoder(bytes.NewReader(b))
	d.UseNumber()
	err := d.Decode(&t)
	return t, err
}

func canon(x interface{}) string {
	b, _ := json.Marshal(x) // maps are written with sorted keys
	return string(b)
}

func clone(x interface{}) interface{} {
	switch v := x.(type) {
	case tree:
		o := tree{}
		for k, e := range v {
			o[k] = clone(e)
		}
		return o
	case []interface{}:
		o := make([]interface{}, len(v))
		for i, e := range v {
			o[i] = clone(e)
		}
		return o
	}
	return x
}

func get(t tree, path []string) (interface{}, bool) {
	var cur interface{} = t
	for _, p := range path {
		m, ok := cur.(tree)
		if !ok {
			return nil, false
		}
		cur, ok = m[p]
		if !ok {
			return nil, false
		}
	}
	return cur, true
}

func set(t tree, path []string, v interface{}, remove bool) {
	cur := t
	for _, p := range path[:len(path)-1] {
		nx, ok := cur[p].(tree)
		if !ok {
			nx = tree{}
			cur[p] = nx
		}
		cur = nx
	}
	if remove {
		delete(cur, path[len(path)-1])
		return
	}
	cur[path[len(path)-1]] = v
}

func isIdent(s string) bool {
	if s == "" {
		return false
	}
	for _, c := range s {
		if !(c == '_' || c >= 'a' && c <= 'z' || c >= '0' && c <= '9') {
			return false
		}
	}
	return true
}

// leaves lists the settings of a section: leaf paths of the display form (which keeps omitempty keys) and of
// the saved form. Objects whose keys all look like setting names are descended into; other objects are maps.
func leaves(t tree, prefix []string, out map[string][]string) {
	for k, v := range t {
		p := append(append([]string{}, prefix...), k)
		if m, ok := v.(tree); ok && len(m) > 0 {
			all := true
			for kk := range m {
				if !isIdent(kk) {
					all = false
				}
			}
			if all {
				leaves(m, p, out)
				continue
			}
		}
		out[strings.Join(p, ".")] = p
	}
}

func vkind(v interface{}) string {
	switch v.(type) {
	case string:
		return "string"
	case json.Number, float64:
		return "number"
	case bool:
		return "bool"
	case []interface{}:
		return "array"
	case tree:
		return "object"
	}
	return "" // null: kind unknown
}

// semKind reports the shape of a setting's default value (the specification decides what follows from it).
func semKind(v interface{}) string {
	switch x := v.(type) {
	case string:
		if x == "" {
			return "unknown"
		}
		if _, err := time.ParseDuration(x); err == nil {
			return "duration"
		}
		if strings.HasPrefix(x, "/ip") || strings.HasPrefix(x, "/dns") || strings.HasPrefix(x, "/unix") {
			return "multiaddr"
		}
		return "text"
	case json.Number, float64:
		return "number"
	case bool:
		return "bool"
	case []interface{}:
		if len(x) == 0 {
			return "list-empty"
		}
		if semKind(x[0]) == "multiaddr" {
			return "list-multiaddr"
		}
		return "list-text"
	case tree:
		return "map"
	}
	return "null"
}

// ---------------------------------------------------------------------------
// concretisation of the value classes of spec/Config.tla
// ---------------------------------------------------------------------------

const hidden = "XXX_hidden_XXX"

type seedVals struct {
	str, path, hex32, peerid, maddr, dur string
	typ                                  int64
}

func mkSeedVals(seed int64) seedVals {
	h := hx.Hash(fmt.Sprintf("c15/%d", seed))
	hh := hx.Hash(fmt.Sprintf("c15b/%d", seed))
	names := hx.NewNames(seed)
	n := int64(seed%7) + 1
	return seedVals{
		str:    "verif-" + h[:8],
		path:   "/tmp/verif-c15-" + h[:6] + "/file.x",
		hex32:  (h + hh + h + hh)[:64],
		peerid: peer.Encode(names.Peer("p1")),
		maddr:  fmt.Sprintf("/ip4/127.0.0.1/tcp/%d", 20000+seed%1000),
		dur:    fmt.Sprintf("%dm%ds", 6+n, 10+n),
		typ:    6 + n,
	}
}

// concrete returns the JSON value of a class for a setting whose default (display) value is def.
func (s seedVals) concrete(class string, def interface{}) (v interface{}, remove bool, ok bool) {
	switch class {
	case "empty":
		return "", false, true
	case "str":
		return s.str, false, true
	case "dur":
		return s.dur, false, true
	case "dur-zero":
		return "0s", false, true
	case "dur-neg":
		return "-5s", false, true
	case "dur-bad":
		return "5 minutes", false, true
	case "maddr":
		return s.maddr, false, true
	case "maddr-bad":
		return "/ip4/300.1.1.1/tcp/x", false, true
	case "path":
		return s.path, false, true
	case "hex32":
		return s.hex32, false, true
	case "peerid":
		return s.peerid, false, true
	case "zero":
		return json.Number("0"), false, true
	case "one":
		return json.Number("1"), false, true
	case "typ":
		t := s.typ
		if n, isn := def.(json.Number); isn && n.String() == fmt.Sprint(t) {
			t += 3
		}
		return json.Number(fmt.Sprint(t)), false, true
	case "neg":
		return json.Number("-1"), false, true
	case "big":
		return json.Number("2147483647"), false, true
	case "frac":
		return json.Number("0.5"), false, true
	case "true":
		return true, false, true
	case "false":
		return false, false, true
	case "arr-empty":
		return []interface{}{}, false, true
	case "arr-typ": // the default elements plus one more of the same kind
		arr, _ := def.([]interface{})
		extra := interface{}(s.str)
		if len(arr) > 0 {
			if e, isS := arr[0].(string); isS && strings.HasPrefix(e, "/") {
				extra = s.maddr
			}
		}
		return append(append([]interface{}{}, arr...), extra), false, true
	case "arr-str":
		return []interface{}{s.str}, false, true
	case "arr-maddr":
		return []interface{}{s.maddr}, false, true
	case "arr-bad":
		return []interface{}{"/ip4/300.1.1.1/tcp/x"}, false, true
	case "obj-empty":
		return tree{}, false, true
	case "obj-str":
		return tree{"X-Verif-" + s.str: s.str}, false, true
	case "obj-list":
		return tree{"X-Verif-" + s.str: []interface{}{s.str}}, false, true
	case "null":
		return nil, false, true
	case "absent":
		return nil, true, true
	case "wrongtype":
		switch def.(type) {
		case string:
			return json.Number("7"), false, true
		case json.Number:
			return "7", false, true
		case bool:
			return "true", false, true
		case []interface{}:
			return tree{"a": "b"}, false, true
		default:
			return json.Number("7"), false, true
		}
	}
	return nil, false, false
}

// same decides whether two JSON values denote the same setting value (durations and numbers semantically).
func same(a, b interface{}) bool {
	if canon(a) == canon(b) {
		return true
	}
	switch x := a.(type) {
	case string:
		y, ok := b.(string)
		if !ok {
			return false
		}
		dx, e1 := time.ParseDuration(x)
		dy, e2 := time.ParseDuration(y)
		return e1 == nil && e2 == nil && dx == dy
	case json.Number:
		y, ok := b.(json.Number)
		if !ok {
			return false
		}
		fx, e1 := x.Float64()
		fy, e2 := y.Float64()
		return e1 == nil && e2 == nil && fx == fy
	case []interface{}:
		y, ok := b.([]interface{})
		if !ok || len(x) != len(y) {
			return false
		}
		for i := range x {
			if !same(x[i], y[i]) {
				return false
			}
		}
		return true
	}
	return false
}

// ---------------------------------------------------------------------------
// running the real code
// ---------------------------------------------------------------------------

func guard(f func() error) (err error, panicked bool) {
	defer func() {
		if r := recover(); r != nil {
			err, panicked = fmt.Errorf("panic: %v", r), true
		}
	}()
	return f(), false
}

func outcomeOf(err error, panicked bool) string {
	switch {
	case panicked:
		return "panic"
	case err != nil:
		return "rejected"
	}
	return "accepted"
}

type loaded struct {
	outcome string
	err     string
	valid   bool
	saved   tree // ToJSON of the loaded configuration (nil when not accepted or not savable)
	raw     []byte
	display string
}

// loadAlone: LoadJSON on a fresh component configuration.
func loadAlone(sec section, j []byte) loaded {
	cfg := sec.mk()
	err, p := guard(func() error { return cfg.LoadJSON(j) })
	l := loaded{outcome: outcomeOf(err, p)}
	if err != nil {
		l.err = err.Error()
		return l
	}
	verr, vp := guard(cfg.Validate)
	l.valid = verr == nil && !vp
	var raw []byte
	serr, sp := guard(func() error { var e error; raw, e = cfg.ToJSON(); return e })
	if serr == nil && !sp {
		l.raw = raw
		l.saved, _ = parse(raw)
	}
	var disp []byte
	guard(func() error { var e error; disp, e = cfg.ToDisplayJSON(); return e })
	l.display = string(disp)
	return l
}

func newManager() (*config.Manager, map[string]config.ComponentConfig) {
	m := config.NewManager()
	comps := map[string]config.ComponentConfig{}
	for _, s := range sections {
		c := s.mk()
		comps[s.name] = c
		m.RegisterComponent(s.typ, c)
	}
	return m, comps
}

func sectionPath(sec section) []string {
	if sec.typ == config.Cluster {
		return []string{"cluster"}
	}
	return []string{managerKey[sec.typ], sec.name}
}

// loadInManager: the section's JSON is placed in a full configuration file loaded by a config.Manager.
func loadInManager(sec section, full tree, secJSON tree) loaded {
	f := clone(full).(tree)
	set(f, sectionPath(sec), secJSON, false)
	b, _ := json.Marshal(f)
	m, comps := newManager()
	defer m.Shutdown()
	err, p := guard(func() error { return m.LoadJSON(b) })
	l := loaded{outcome: outcomeOf(err, p)}
	if err != nil {
		l.err = err.Error()
		return l
	}
	verr, vp := guard(comps[sec.name].Validate)
	l.valid = verr == nil && !vp
	var raw []byte
	serr, sp := guard(func() error { var e error; raw, e = m.ToJSON(); return e })
	if serr == nil && !sp {
		if t, err := parse(raw); err == nil {
			if st, ok := get(t, sectionPath(sec)); ok {
				l.saved, _ = st.(tree)
				l.raw, _ = json.Marshal(st)
			}
		}
	}
	var disp []byte
	guard(func() error { var e error; disp, e = m.ToDisplayJSON(); return e })
	l.display = string(disp)
	return l
}

type fact map[string]interface{}

type run struct {
	res   *hx.Result
	w     *json.Encoder
	sv    seedVals
	n     int
	byLaw map[string]int
}

func (r *run) emit(f fact) {
	r.n++
	r.w.Encode(f)
}

func relation(saved tree, path []string, given interface{}, removed bool, def interface{}, hasDef bool) string {
	got, ok := get(saved, path)
	switch {
	case !ok && removed:
		return "same"
	case !ok && hasDef && same(given, def):
		return "same" // omitted from the saved form because it is the default
	case !ok:
		return "absent"
	case !removed && same(got, given):
		return "same"
	case hasDef && same(got, def):
		return "default"
	}
	return "other"
}

func TestConfig(t *testing.T) {
	logging.SetAllLoggers(logging.LevelPanic)
	config.ConfigSaveInterval = 2 * time.Millisecond // Manager.Shutdown waits for one tick per registered component
	res := hx.NewResult()
	defer res.Write()
	out, err := os.Create(os.Getenv("VERIF_TRACE"))
	if err != nil {
		res.Infra("trace: %v", err)
		return
	}
	defer out.Close()
	bw := bufio.NewWriterSize(out, 1<<20)
	defer bw.Flush()
	r := &run{res: res, w: json.NewEncoder(bw), sv: mkSeedVals(hx.Seed())}

	// classes per JSON kind, written by TLC from spec/Config.tla
	classes := map[string][]string{}
	lines, err := hx.LoadCases()
	if err != nil {
		res.Infra("classes: %v", err)
		return
	}
	for _, l := range lines {
		var c struct {
			VKind   string   `json:"vkind"`
			Classes []string `json:"classes"`
		}
		if json.Unmarshal(l, &c) == nil && c.VKind != "" {
			sort.Strings(c.Classes)
			classes[c.VKind] = c.Classes
		}
	}
	if len(classes) < 5 {
		res.Infra("value classes missing (got %d kinds)", len(classes))
		return
	}
	only := os.Getenv("VERIF_ONLY") // "section/setting/class/scope" of a replay

	// the full configuration file with every section at its default
	fullMgr, comps := newManager()
	for _, c := range comps {
		c.Default()
	}
	fullRaw, err := fullMgr.ToJSON()
	fullMgr.Shutdown()
	if err != nil {
		res.Infra("default manager file: %v", err)
		return
	}
	full, err := parse(fullRaw)
	if err != nil {
		res.Infra("default manager file: %v", err)
		return
	}

	injs := map[string][]*injection{}
	save0s := map[string]tree{}
	nsettings := 0
	npairs := 0
	perSection := map[string]int{}
	for _, sec := range sections {
		// ---- DefaultValid
		def := sec.mk()
		derr, dp := guard(def.Default)
		verr, vp := guard(def.Validate)
		r.emit(fact{"fact": "default", "section": sec.name, "err": derr != nil, "panic": dp || vp, "valid": verr == nil && !vp})
		if derr != nil || dp {
			continue
		}
		raw0, err := def.ToJSON()
		if err != nil {
			res.Infra("%s: default ToJSON: %v", sec.name, err)
			return
		}
		save0, err := parse(raw0)
		if err != nil {
			res.Infra("%s: default ToJSON does not parse: %v", sec.name, err)
			return
		}
		disp0raw, err := def.ToDisplayJSON()
		if err != nil {
			res.Infra("%s: default ToDisplayJSON: %v", sec.name, err)
			return
		}
		disp0, _ := parse(disp0raw)
		// the default must itself load (otherwise single-setting edits of it say nothing)
		if l := loadAlone(sec, raw0); l.outcome != "accepted" {
			r.emit(fact{"fact": "default", "section": sec.name, "err": true, "panic": l.outcome == "panic", "valid": false, "detail": "saved default does not load: " + l.err})
			continue
		}
		save0s[sec.name] = save0
		settings := map[string][]string{}
		leaves(disp0, nil, settings)
		leaves(save0, nil, settings)
		names := []string{}
		for k := range settings {
			names = append(names, k)
		}
		sort.Strings(names)
		nsettings += len(names)
		perSection[sec.name] = len(names)
		var kept, swallowed []caseInfo
		var pathSets []pathSetting

		for _, name := range names {
			path := settings[name]
			// the default of a setting: from the saved form, else (omitempty keys) from the display form
			defVal, hasDef := get(save0, path)
			if !hasDef {
				if d, ok := get(disp0, path); ok {
					if s, isS := d.(string); !(isS && s == hidden) {
						defVal, hasDef = d, true
					}
				}
			}
			shape := defVal
			if shape == nil {
				shape, _ = get(disp0, path)
			}
			if s, isS := shape.(string); isS && s == hidden {
				shape = nil // the display form hides it and the saved default is null: kind unknown, try every kind
			}
			kind := vkind(shape)
			skind := semKind(shape)
			if skind == "unknown" || skind == "text" {
				// an empty default says nothing: a string setting that gives "90s" back as "1m30s" holds a duration
				pj := clone(save0).(tree)
				set(pj, path, "90s", false)
				pb, _ := json.Marshal(pj)
				if l := loadAlone(sec, pb); l.outcome == "accepted" && l.saved != nil {
					if got, ok := get(l.saved, path); ok {
						if gs, isS := got.(string); isS && gs != "90s" && same(gs, "90s") {
							skind = "duration"
						}
					}
				}
			}
			kinds := []string{kind}
			if kind == "" { // null in both forms: try it as every kind
				kinds = []string{"string", "number", "bool", "array", "object"}
			}
			for _, k := range kinds {
				for _, class := range classes[k] {
					if strings.HasPrefix(class, "path-") {
						continue // exercised by pathCases through a Manager with a base directory
					}
					for _, scope := range []string{"alone", "manager", "env"} {
						if only != "" && only != strings.Join([]string{sec.name, name, class, scope}, "/") {
							continue
						}
						ci := r.loadCase(sec, name, path, k, skind, class, scope, save0, full, defVal, hasDef, shape, nil)
						if scope != "alone" || ci.outcome != "accepted" || ci.isdefault || class == "absent" || class == "null" {
							continue
						}
						switch ci.rel {
						case "same":
							kept = append(kept, ci)
						case "default", "absent":
							swallowed = append(swallowed, ci) // given, accepted, not kept
						}
					}
				}
			}
			if (kind == "string" || kind == "") && isPathName(path[len(path)-1]) {
				pathSets = append(pathSets, pathSetting{name: name, path: path, skind: skind, defVal: defVal, hasDef: hasDef})
			}
			if only == "" {
				if in := r.hiddenCase(sec, name, path, save0, full, kind); in != nil {
					injs[sec.name] = append(injs[sec.name], in)
				}
			}
		}
		// a value the loader swallows must not take other settings with it: every kept (setting, class)
		// again, next to each swallowed one
		if only == "" {
			seenSw := map[string]bool{}
			for _, g := range swallowed {
				if seenSw[g.name] { // one swallowed value per setting is enough
					continue
				}
				seenSw[g.name] = true
				for _, w := range kept {
					if w.name == g.name || strings.HasPrefix(w.name, g.name+".") || strings.HasPrefix(g.name, w.name+".") {
						continue
					}
					r.loadCase(sec, w.name, w.path, w.kind, w.skind, w.class, "pair", save0, full, w.defVal, w.hasDef, w.shape,
						&edit{name: g.name, class: g.class, path: g.path, v: g.v})
					npairs++
				}
			}
			r.rejectCases(sec, raw0)
			r.pathCases(sec, pathSets, save0, full)
			r.historyCases(sec, raw0, save0, kept, full)
		}
	}
	if only == "" {
		r.subsetCases(full, save0s, injs)
	}
	res.Set("sections", len(sections))
	res.Set("settings_extracted_from_code", nsettings)
	res.Set("settings_per_section", perSection)
	res.Set("facts_recorded", r.n)
	res.Set("pair_cases", npairs)
}

// loadCase gives one setting one value and records what the real loader made of it.
type edit struct {
	name, class string
	path        []string
	v           interface{}
}

type caseInfo struct {
	name, kind, skind, class string
	path                     []string
	defVal, shape            interface{}
	hasDef                   bool
	v                        interface{}
	outcome, rel             string
	isdefault                bool
}

func (r *run) loadCase(sec section, name string, path []string, kind, skind, class, scope string, save0, full tree,
	defVal interface{}, hasDef bool, shape interface{}, with *edit) (ci caseInfo) {
	v, remove, ok := r.sv.concrete(class, shape)
	if !ok {
		r.res.Infra("value class %q of the specification is unknown to the driver", class)
		return
	}
	ci = caseInfo{name: name, kind: kind, skind: skind, class: class, path: path, defVal: defVal, shape: shape, hasDef: hasDef, v: v}
	f := fact{"fact": "load", "section": sec.name, "setting": name, "vkind": kind, "skind": skind, "class": class, "scope": scope,
		"valid": false, "rel": "n/a", "reload": "n/a", "stable": false, "isdefault": hasDef && !remove && same(v, defVal), "value": canon(v)}
	j := clone(save0).(tree)
	set(j, path, v, remove)
	if with != nil {
		set(j, with.path, with.v, false)
		f["with"] = with.name + "=" + with.class
	}
	jb, _ := json.Marshal(j)
	var l, l2 loaded
	switch scope {
	case "alone", "pair":
		l = loadAlone(sec, jb)
		if l.outcome == "accepted" && l.raw != nil {
			l2 = loadAlone(sec, l.raw)
		}
	case "manager":
		l = loadInManager(sec, full, j)
		if l.outcome == "accepted" && l.saved != nil {
			l2 = loadInManager(sec, full, l.saved)
		}
	case "env":
		// delivery of the value through the environment, names derived as envconfig does from the key
		if remove || v == nil || len(path) != 1 {
			return
		}
		var sval string
		switch x := v.(type) {
		case string:
			sval = x
		case json.Number:
			sval = x.String()
		case bool:
			sval = fmt.Sprint(x)
		case []interface{}:
			parts := []string{}
			for _, e := range x {
				parts = append(parts, fmt.Sprint(e))
			}
			sval = strings.Join(parts, ",")
		default:
			return
		}
		if class == "wrongtype" {
			return
		}
		key := sec.env + "_" + strings.ToUpper(strings.Replace(name, "_", "", -1))
		os.Setenv(key, sval)
		cfg := sec.mk()
		cfg.Default()
		// cluster.Default() draws a fresh secret: compare against this instance's own saved form
		before, _ := cfg.ToJSON()
		beforeT, _ := parse(before)
		err, p := guard(cfg.ApplyEnvVars)
		os.Unsetenv(key)
		l = loaded{outcome: outcomeOf(err, p)}
		if err != nil {
			l.err = err.Error()
		} else {
			verr, vp := guard(cfg.Validate)
			l.valid = verr == nil && !vp
			raw, serr := cfg.ToJSON()
			if serr == nil {
				l.raw = raw
				l.saved, _ = parse(raw)
				if canon(l.saved) == canon(beforeT) && !same(v, defVal) {
					// the variable was not picked up (name derivation differs): nothing delivered, nothing to judge
					return
				}
				l2 = loadAlone(sec, raw)
			}
		}
	}
	f["outcome"] = l.outcome
	if l.err != "" {
		f["detail"] = l.err
	}
	if l.outcome == "accepted" {
		f["valid"] = l.valid
		if l.saved != nil {
			f["rel"] = relation(l.saved, path, v, remove, defVal, hasDef)
			if got, ok := get(l.saved, path); ok {
				f["saved"] = canon(got)
			}
			f["reload"] = l2.outcome
			f["stable"] = l2.saved != nil && canon(l2.saved) == canon(l.saved)
			if l2.err != "" {
				f["detail"] = "reload: " + l2.err
			}
		} else {
			f["reload"] = "rejected"
			f["detail"] = "loaded configuration cannot be saved"
		}
	}
	r.emit(f)
	id := fact{"section": sec.name, "setting": name, "class": class, "scope": scope}
	if with != nil {
		id["with"] = f["with"]
	}
	r.res.Case(id, class != "absent")
	ci.outcome, _ = f["outcome"].(string)
	ci.rel, _ = f["rel"].(string)
	ci.isdefault, _ = f["isdefault"].(bool)
	return ci
}

// marker is the recognisable value placed into one setting (64 hex characters, so it also is a cluster secret).
func (r *run) marker(sec, name string) string {
	h := sha256.Sum256([]byte(fmt.Sprintf("c15-marker/%d/%s/%s", hx.Seed(), sec, name)))
	return hex.EncodeToString(h[:])
}

type pathVal struct {
	path []string
	v    interface{}
}

// injection: how a marker gets into a setting (edits of the section's JSON) and what to look for afterwards.
type injection struct {
	sec, name string
	tokens    []string
	sent      string
	edits     []pathVal
}

func applyEdits(j tree, edits []pathVal) tree {
	o := clone(j).(tree)
	for _, e := range edits {
		set(o, e.path, e.v, false)
	}
	return o
}

// hiddenCase injects a recognisable value into a setting and records whether the display forms show it.
// It returns the injection that worked (nil if the setting takes none).
func (r *run) hiddenCase(sec section, name string, path []string, save0, full tree, kind string) *injection {
	tokens := strings.Split(path[len(path)-1], "_")
	m := r.marker(sec.name, name)
	var candidates []injection
	add := func(sent string, edits ...pathVal) {
		candidates = append(candidates, injection{sec: sec.name, name: name, tokens: tokens, sent: sent, edits: edits})
	}
	if kind == "" || kind == "object" {
		add(m, pathVal{path, tree{"verifuser": m}})
	}
	switch kind {
	case "string", "":
		add(m, pathVal{path, m})
		// a private key has to be a key: a real one, with the matching id and a listen address (restapi)
		priv, pub, _ := crypto.GenerateEd25519Key(bytes.NewReader(bytes.Repeat([]byte(m), 4)))
		pb, _ := crypto.MarshalPrivateKey(priv)
		pid, _ := peer.IDFromPublicKey(pub)
		b64 := base64.StdEncoding.EncodeToString(pb)
		if _, has := get(save0, []string{"id"}); has || sec.name == "restapi" {
			add(b64, pathVal{path, b64}, pathVal{[]string{"id"}, peer.Encode(pid)},
				pathVal{[]string{"libp2p_listen_multiaddress"}, []interface{}{r.sv.maddr}})
		} else {
			add(b64, pathVal{path, b64})
		}
	case "object":
	default:
		return nil
	}
	var worked *injection
	for _, scope := range []string{"alone", "manager"} {
		injected, shown := false, false
		for ci := range candidates {
			c := candidates[ci]
			jj := applyEdits(save0, c.edits)
			var l loaded
			if scope == "alone" {
				b, _ := json.Marshal(jj)
				l = loadAlone(sec, b)
			} else {
				l = loadInManager(sec, full, jj)
			}
			if l.outcome != "accepted" || l.saved == nil {
				continue
			}
			// injected = the value is really held by the configuration (it comes back in the saved form)
			if !strings.Contains(string(l.raw), c.sent) {
				continue
			}
			injected = true
			if worked == nil && scope == "alone" {
				worked = &candidates[ci]
			}
			if strings.Contains(l.display, c.sent) {
				shown = true
			}
		}
		r.emit(fact{"fact": "hidden", "section": sec.name, "setting": name, "tokens": tokens, "scope": scope,
			"injected": injected, "shown": shown})
		r.res.Count(1)
	}
	return worked
}

// subsetCases: a full configuration file with a marker in every setting that takes one, in EVERY section, is loaded
// by Managers that register only part of the components - the families the binaries use (cmdutils: the nine base
// components + raft|crdt|both + no|badger|leveldb|both datastores), small ones (cluster alone, cluster + crdt) and
// seeded random subsets. Recorded: per (family, section, setting) whether the display form shows the marker, and per
// (family, unregistered section) whether ToJSON still carries the section unchanged.
func (r *run) subsetCases(full tree, save0s map[string]tree, injs map[string][]*injection) {
	// the marked file: per section as many injections as are compatible with each other
	marked := clone(full).(tree)
	kept := map[string][]*injection{}
	for _, sec := range sections {
		cur, ok := save0s[sec.name]
		if !ok {
			continue
		}
		for _, in := range injs[sec.name] {
			try := applyEdits(cur, in.edits)
			b, _ := json.Marshal(try)
			l := loadAlone(sec, b)
			if l.outcome != "accepted" || l.raw == nil {
				continue
			}
			okAll := strings.Contains(string(l.raw), in.sent)
			for _, prev := range kept[sec.name] {
				if !strings.Contains(string(l.raw), prev.sent) {
					okAll = false
				}
			}
			if okAll {
				cur = try
				kept[sec.name] = append(kept[sec.name], in)
			}
		}
		set(marked, sectionPath(sec), cur, false)
	}
	markedRaw, _ := json.Marshal(marked)

	base := []string{"cluster", "restapi", "ipfsproxy", "ipfshttp", "stateless", "pubsubmon", "disk", "metrics", "tracing"}
	families := map[string][]string{"all": nil, "cluster-only": {"cluster"}, "cluster+crdt": {"cluster", "crdt"}, "cluster+raft": {"cluster", "raft"}}
	for _, s := range sections {
		families["all"] = append(families["all"], s.name)
	}
	for _, cons := range [][]string{{"raft"}, {"crdt"}, {"raft", "crdt"}} {
		for _, dst := range [][]string{{}, {"badger"}, {"leveldb"}, {"badger", "leveldb"}} {
			n := "service:" + strings.Join(cons, "+") + "/" + strings.Join(dst, "+")
			families[n] = append(append(append([]string{}, base...), cons...), dst...)
		}
	}
	rng := rand.New(rand.NewSource(hx.Seed()))
	nrand := 12
	if hx.Thorough() {
		nrand = 60
	}
	for i := 0; i < nrand; i++ {
		sub := []string{"cluster"}
		for _, s := range sections[1:] {
			if rng.Intn(2) == 0 {
				sub = append(sub, s.name)
			}
		}
		families[fmt.Sprintf("random%02d:%s", i, strings.Join(sub[1:], "+"))] = sub
	}
	names := []string{}
	for n := range families {
		names = append(names, n)
	}
	sort.Strings(names)
	for _, fam := range names {
		reg := map[string]bool{}
		for _, s := range families[fam] {
			reg[s] = true
		}
		m := config.NewManager()
		for _, s := range sections {
			if reg[s.name] {
				m.RegisterComponent(s.typ, s.mk())
			}
		}
		err, p := guard(func() error { return m.LoadJSON(markedRaw) })
		outcome := outcomeOf(err, p)
		var disp, saved []byte
		if outcome == "accepted" {
			guard(func() error { var e error; disp, e = m.ToDisplayJSON(); return e })
			guard(func() error { var e error; saved, e = m.ToJSON(); return e })
		}
		m.Shutdown()
		savedT, _ := parse(saved)
		for _, sec := range sections {
			for _, in := range kept[sec.name] {
				r.emit(fact{"fact": "hidden", "section": sec.name, "setting": in.name, "tokens": in.tokens, "scope": "subset:" + fam,
					"registered": reg[sec.name], "injected": outcome == "accepted", "shown": strings.Contains(string(disp), in.sent)})
				r.res.Count(1)
			}
			if !reg[sec.name] {
				want, _ := get(marked, sectionPath(sec))
				got, has := get(savedT, sectionPath(sec))
				r.emit(fact{"fact": "subset", "family": fam, "section": sec.name, "registered": false, "outcome": outcome,
					"kept": has && canon(got) == canon(want), "panic": p})
				r.res.Case(fact{"family": fam, "section": sec.name}, true)
			}
		}
		if outcome != "accepted" {
			detail := ""
			if err != nil {
				detail = err.Error()
			}
			r.emit(fact{"fact": "subset", "family": fam, "section": "*", "registered": true, "outcome": outcome, "kept": false, "panic": p, "detail": detail})
		}
	}
	r.res.Set("manager_subset_families", len(names))
	nm := 0
	for _, k := range kept {
		nm += len(k)
	}
	r.res.Set("markers_in_full_file", nm)
}

// historyCases: by now hundreds of different files went through this component in this process. The result
// of Default() and of loading a file must not depend on that history, nor on what an object loaded before.
func (r *run) historyCases(sec section, raw0 []byte, save0 tree, kept []caseInfo, full tree) {
	// settings whose default differs from one Default() to the next (the generated cluster secret)
	volatile := [][]string{}
	d := func() tree {
		c := sec.mk()
		c.Default()
		b, _ := c.ToJSON()
		t, _ := parse(b)
		return t
	}
	d1, d2 := d(), d()
	all := map[string][]string{}
	leaves(d1, nil, all)
	for _, p := range all {
		a, _ := get(d1, p)
		b, _ := get(d2, p)
		if canon(a) != canon(b) {
			volatile = append(volatile, p)
		}
	}
	strip := func(t tree) string {
		if t == nil {
			return "<nil>"
		}
		c := clone(t).(tree)
		for _, p := range volatile {
			set(c, p, nil, true)
		}
		return canon(c)
	}
	// A: a rich file - every kept (setting, class) that still loads together with the ones before it
	a := clone(save0).(tree)
	seen := map[string]bool{}
	for _, k := range kept {
		if seen[k.name] {
			continue
		}
		try := clone(a).(tree)
		set(try, k.path, k.v, false)
		b, _ := json.Marshal(try)
		if l := loadAlone(sec, b); l.outcome == "accepted" && l.saved != nil {
			a = try
			seen[k.name] = true
		}
	}
	rawA, _ := json.Marshal(a)
	emit := func(seq, outcome string, same bool, detail string) {
		r.emit(fact{"fact": "history", "section": sec.name, "seq": seq, "outcome": outcome, "same": same, "detail": detail})
		r.res.Case(fact{"section": sec.name, "history": seq}, true)
	}
	saveOf := func(c config.ComponentConfig) tree {
		var raw []byte
		if err, p := guard(func() error { var e error; raw, e = c.ToJSON(); return e }); err != nil || p {
			return nil
		}
		t, _ := parse(raw)
		return t
	}
	diff := func(x, y tree) string {
		if x == nil || y == nil {
			return "not saved"
		}
		ps := map[string][]string{}
		leaves(x, nil, ps)
		leaves(y, nil, ps)
		out := []string{}
		for n, p := range ps {
			a, _ := get(x, p)
			b, _ := get(y, p)
			if canon(a) != canon(b) {
				out = append(out, fmt.Sprintf("%s: %s vs %s", n, canon(a), canon(b)))
			}
		}
		sort.Strings(out)
		if len(out) > 4 {
			out = out[:4]
		}
		return strings.Join(out, "; ")
	}
	// first load of A (reference for "load-twice")
	la := loadAlone(sec, rawA)
	// 1. Default() on a fresh object
	{
		c := sec.mk()
		err, p := guard(c.Default)
		t := saveOf(c)
		emit("default-after-loads", outcomeOf(err, p), strip(t) == strip(save0), diff(t, save0))
	}
	// 2. the default file on a fresh object
	{
		l := loadAlone(sec, raw0)
		emit("load-default-file-after-loads", l.outcome, l.saved != nil && canon(l.saved) == canon(save0), diff(l.saved, save0)+l.err)
	}
	// 3. A, then the default file, on ONE object
	{
		c := sec.mk()
		guard(func() error { return c.LoadJSON(rawA) })
		err, p := guard(func() error { return c.LoadJSON(raw0) })
		t := saveOf(c)
		emit("reload-on-used-object", outcomeOf(err, p), t != nil && canon(t) == canon(save0), diff(t, save0))
	}
	// 4. A again, after something else
	{
		l := loadAlone(sec, rawA)
		emit("load-twice", l.outcome, la.saved != nil && l.saved != nil && canon(l.saved) == canon(la.saved), diff(l.saved, la.saved)+l.err)
	}
	// 5./6. on ONE config.Manager: a file that lacks this section (the Manager generates the defaults), the same
	// file with the section set to A, and the file without it again: what the Manager holds and saves for the
	// section is what a fresh Manager gets from the last file alone. (The cluster section is not defaulted by the
	// Manager when it is missing, so it has no such sequence.)
	if sec.typ != config.Cluster && full != nil {
		without := clone(full).(tree)
		if parent, ok := get(without, sectionPath(sec)[:1]); ok {
			if pt, ok := parent.(tree); ok {
				delete(pt, sec.name)
			}
		}
		withA := clone(full).(tree)
		set(withA, sectionPath(sec), a, false)
		bw, _ := json.Marshal(without)
		ba, _ := json.Marshal(withA)
		sectionOf := func(m *config.Manager) tree {
			var raw []byte
			if err, p := guard(func() error { var e error; raw, e = m.ToJSON(); return e }); err != nil || p {
				return nil
			}
			t, err := parse(raw)
			if err != nil {
				return nil
			}
			st, _ := get(t, sectionPath(sec))
			out, _ := st.(tree)
			return out
		}
		play := func(files ...[]byte) (tree, string) {
			m, _ := newManager()
			defer m.Shutdown()
			var err error
			var p bool
			for _, f := range files {
				f := f
				err, p = guard(func() error { return m.LoadJSON(f) })
			}
			return sectionOf(m), outcomeOf(err, p)
		}
		ref, refOutcome := play(bw)
		if refOutcome == "accepted" && ref != nil {
			if _, o := play(ba); o == "accepted" {
				t, o := play(bw, ba, bw)
				emit("manager-section-missing-set-missing", o, t != nil && strip(t) == strip(ref), diff(t, ref))
				t, o = play(ba, bw)
				emit("manager-section-set-missing", o, t != nil && strip(t) == strip(ref), diff(t, ref))
			}
		}
	}
}

type pathSetting struct {
	name   string
	path   []string
	skind  string
	defVal interface{}
	hasDef bool
}

func isPathName(key string) bool {
	for _, t := range strings.Split(key, "_") {
		switch t {
		case "file", "folder", "dir", "path":
			return true
		}
	}
	return false
}

var pemOnce struct {
	sync.Once
	pem []byte
}

// certAndKeyPEM: a self-signed certificate and its key in ONE PEM file (tls.LoadX509KeyPair skips the blocks it
// does not look for), so that the same file is acceptable wherever the loader wants a certificate or a key.
func certAndKeyPEM() []byte {
	pemOnce.Do(func() {
		key, err := ecdsa.GenerateKey(elliptic.P256(), crand.Reader)
		if err != nil {
			return
		}
		tpl := &x509.Certificate{SerialNumber: big.NewInt(15), Subject: pkix.Name{CommonName: "verif-c15"},
			NotBefore: time.Now().Add(-time.Hour), NotAfter: time.Now().Add(24 * time.Hour),
			KeyUsage: x509.KeyUsageDigitalSignature, ExtKeyUsage: []x509.ExtKeyUsage{x509.ExtKeyUsageServerAuth}}
		der, err := x509.CreateCertificate(crand.Reader, tpl, tpl, &key.PublicKey, key)
		if err != nil {
			return
		}
		kb, err := x509.MarshalECPrivateKey(key)
		if err != nil {
			return
		}
		pemOnce.pem = append(pem.EncodeToMemory(&pem.Block{Type: "CERTIFICATE", Bytes: der}),
			pem.EncodeToMemory(&pem.Block{Type: "EC PRIVATE KEY", Bytes: kb})...)
	})
	return pemOnce.pem
}

// pathCases: file and folder settings get relative / absolute / ".." paths through a config.Manager loading the
// configuration from a real directory (which becomes the components' BaseDir); the files and folders exist.
func (r *run) pathCases(sec section, ps []pathSetting, save0, full tree) {
	if len(ps) == 0 {
		return
	}
	pemBytes := certAndKeyPEM()
	if pemBytes == nil {
		r.res.Infra("cannot generate a certificate")
		return
	}
	for _, class := range []string{"path-rel", "path-abs", "path-dotdot"} {
		groups := [][]pathSetting{}
		for _, p := range ps {
			groups = append(groups, []pathSetting{p})
		}
		if len(ps) > 1 {
			groups = append(groups, ps)
		}
		for gi, g := range groups {
			scope := "basedir"
			if len(g) > 1 {
				scope = "basedir-together"
			}
			base, err := os.MkdirTemp("", "verif-c15-base-")
			if err != nil {
				r.res.Infra("temp dir: %v", err)
				return
			}
			func() {
				defer os.RemoveAll(base)
				j := clone(save0).(tree)
				vals := map[string]string{}
				for _, p := range g {
					leaf := p.path[len(p.path)-1]
					isDir := !strings.Contains(leaf, "file") && (strings.Contains(leaf, "folder") || strings.Contains(leaf, "dir"))
					tag := strings.Replace(p.name, ".", "-", -1)
					var v string
					switch class {
					case "path-rel":
						v = "verif-rel-" + tag
					case "path-abs":
						v = filepath.Join(base, "verif-abs-"+tag)
					case "path-dotdot":
						v = "sub/../verif-dd-" + tag
						os.MkdirAll(filepath.Join(base, "sub"), 0700)
					}
					if !isDir {
						v = v + "/f.pem"
					}
					resolved := v
					if !filepath.IsAbs(v) {
						resolved = filepath.Join(base, v)
					}
					if isDir {
						os.MkdirAll(resolved, 0700)
					} else {
						os.MkdirAll(filepath.Dir(resolved), 0700)
						os.WriteFile(resolved, pemBytes, 0600)
					}
					vals[p.name] = v
					set(j, p.path, v, false)
				}
				loadFrom := func(secJSON tree, file string) loaded {
					f := clone(full).(tree)
					set(f, sectionPath(sec), secJSON, false)
					b, _ := json.Marshal(f)
					fp := filepath.Join(base, file)
					os.WriteFile(fp, b, 0600)
					m, comps := newManager()
					defer m.Shutdown()
					err, p := guard(func() error { return m.LoadJSONFromFile(fp) })
					l := loaded{outcome: outcomeOf(err, p)}
					if err != nil {
						l.err = err.Error()
						return l
					}
					verr, vp := guard(comps[sec.name].Validate)
					l.valid = verr == nil && !vp
					var raw []byte
					if serr, sp := guard(func() error { var e error; raw, e = m.ToJSON(); return e }); serr == nil && !sp {
						if t, err := parse(raw); err == nil {
							if st, ok := get(t, sectionPath(sec)); ok {
								l.saved, _ = st.(tree)
							}
						}
					}
					return l
				}
				l := loadFrom(j, "service.json")
				var l2 loaded
				if l.outcome == "accepted" && l.saved != nil {
					l2 = loadFrom(l.saved, "service2.json")
				}
				for _, p := range g {
					f := fact{"fact": "load", "section": sec.name, "setting": p.name, "vkind": "string", "skind": p.skind, "class": class,
						"scope": scope, "valid": false, "rel": "n/a", "reload": "n/a", "stable": false, "isdefault": false,
						"value": canon(strings.Replace(vals[p.name], base, "<base>", -1)), "outcome": l.outcome}
					if l.err != "" {
						f["detail"] = strings.Replace(l.err, base, "<base>", -1)
					}
					if l.outcome == "accepted" {
						f["valid"] = l.valid
						if l.saved != nil {
							f["rel"] = relation(l.saved, p.path, vals[p.name], false, p.defVal, p.hasDef)
							if got, ok := get(l.saved, p.path); ok {
								f["saved"] = strings.Replace(canon(got), base, "<base>", -1)
							}
							f["reload"] = l2.outcome
							f["stable"] = l2.saved != nil && canon(l2.saved) == canon(l.saved)
						} else {
							f["reload"] = "rejected"
						}
					}
					r.emit(f)
					r.res.Case(fact{"section": sec.name, "setting": p.name, "class": class, "scope": scope, "g": gi}, true)
				}
			}()
		}
	}
}

// rejectCases sets out-of-range values directly on the fields of the real Config struct; when Validate rejects
// the configuration and the value is representable in the saved form, loading that saved form must fail.
func (r *run) rejectCases(sec section, raw0 []byte) {
	type cand struct {
		class string
		apply func(v reflect.Value) bool
	}
	cands := []cand{
		{"neg", func(v reflect.Value) bool {
			switch v.Kind() {
			case reflect.Int, reflect.Int8, reflect.Int16, reflect.Int32, reflect.Int64:
				v.SetInt(-1)
				return true
			case reflect.Float32, reflect.Float64:
				v.SetFloat(-1)
				return true
			}
			return false
		}},
		{"zero", func(v reflect.Value) bool {
			switch v.Kind() {
			case reflect.Int, reflect.Int8, reflect.Int16, reflect.Int32, reflect.Int64, reflect.Uint, reflect.Uint8, reflect.Uint16,
				reflect.Uint32, reflect.Uint64, reflect.Float32, reflect.Float64, reflect.String:
				v.Set(reflect.Zero(v.Type()))
				return true
			}
			return false
		}},
		{"big", func(v reflect.Value) bool {
			switch v.Kind() {
			case reflect.Int, reflect.Int32, reflect.Int64:
				v.SetInt(1<<31 - 1)
				return true
			case reflect.Uint, reflect.Uint32, reflect.Uint64:
				v.SetUint(1<<31 - 1)
				return true
			case reflect.Float32, reflect.Float64:
				v.SetFloat(1e12)
				return true
			}
			return false
		}},
		{"nil", func(v reflect.Value) bool {
			switch v.Kind() {
			case reflect.Slice, reflect.Map, reflect.Interface:
				v.Set(reflect.Zero(v.Type()))
				return true
			}
			return false
		}},
	}
	probe := sec.mk()
	rt := reflect.TypeOf(probe).Elem()
	var fields [][]int
	var fnames []string
	for i := 0; i < rt.NumField(); i++ {
		f := rt.Field(i)
		if f.PkgPath != "" || f.Anonymous {
			continue
		}
		fields = append(fields, []int{i})
		fnames = append(fnames, f.Name)
		if f.Type.Kind() == reflect.Struct && f.Type.PkgPath() != "time" {
			for k := 0; k < f.Type.NumField(); k++ {
				if f.Type.Field(k).PkgPath == "" {
					fields = append(fields, []int{i, k})
					fnames = append(fnames, f.Name+"."+f.Type.Field(k).Name)
				}
			}
		}
	}
	for fi, idx := range fields {
		for _, c := range cands {
			cfg := sec.mk()
			if err, p := guard(cfg.Default); err != nil || p {
				continue
			}
			// cluster draws a random secret in Default(): take this instance's own saved default as reference
			ref, rerr := cfg.ToJSON()
			if rerr != nil {
				continue
			}
			var applied bool
			_, p := guard(func() error {
				fv := reflect.ValueOf(cfg).Elem().FieldByIndex(idx)
				if !fv.CanSet() {
					return nil
				}
				applied = c.apply(fv)
				return nil
			})
			if p || !applied {
				continue
			}
			verr, vp := guard(cfg.Validate)
			f := fact{"fact": "reject", "section": sec.name, "field": fnames[fi], "class": c.class, "rejects": verr != nil && !vp,
				"panic": vp, "represented": false, "load": "n/a", "asdefault": false}
			if verr != nil {
				f["detail"] = verr.Error()
			}
			var raw []byte
			serr, sp := guard(func() error { var e error; raw, e = cfg.ToJSON(); return e })
			if serr == nil && !sp {
				t1, _ := parse(raw)
				t0, _ := parse(ref)
				f["represented"] = canon(t1) != canon(t0)
				l := loadAlone(sec, raw)
				f["load"] = l.outcome
				if l.outcome == "panic" {
					f["panic"] = true
				}
				if l.saved != nil {
					f["asdefault"] = canon(l.saved) == canon(t0)
				}
			}
			r.emit(f)
			r.res.Count(1)
		}
	}
}
