package c05

import (
	"context"
	"encoding/json"
	"fmt"
	"math/rand"
	"os"
	"reflect"
	"sort"
	"sync"
	"testing"
	"time"

	"verifharness/hx"
	"verifharness/rig"

	"github.com/ipfs/ipfs-cluster/api"
	"github.com/ipfs/ipfs-cluster/pintracker/optracker"
	"github.com/ipfs/ipfs-cluster/pintracker/stateless"
	"github.com/ipfs/ipfs-cluster/state"
	"github.com/ipfs/ipfs-cluster/state/dsstate"

	ds "github.com/ipfs/go-datastore"
	dssync "github.com/ipfs/go-datastore/sync"
	peer "github.com/libp2p/go-libp2p-core/peer"
	rpc "github.com/libp2p/go-libp2p-gorpc"
)

type act struct {
	Name string `json:"name"`
	Cid  string `json:"cid,omitempty"`
	Kind string `json:"kind,omitempty"`
	Op   string `json:"op,omitempty"`
	// branch tag of the specification's action (input only): for HandleErr its first element says
	// whether the operation whose call returned had been cancelled
	Br json.RawMessage `json:"br,omitempty"`
}

// out: the action as recorded in the observations (without the input-only branch tag)
func (a act) out() act { a.Br = nil; return a }

// wantCancelled: for a HandleErr step, was the operation cancelled (nil when the step does not say)
func (a *act) wantCancelled() *bool {
	if a.Name != "HandleErr" || len(a.Br) == 0 {
		return nil
	}
	var l []interface{}
	if json.Unmarshal(a.Br, &l) != nil || len(l) == 0 {
		return nil
	}
	if b, ok := l[0].(bool); ok {
		return &b
	}
	return nil
}

type proj struct {
	Status    map[string]string `json:"status"`
	StatusAll map[string]string `json:"statusall"`
	Pending   []CallView        `json:"pending"`
	Applied   []CallView        `json:"applied"`
	Stable    bool              `json:"stable"`
	Quiescent bool              `json:"quiescent"`
}

type step struct {
	Act     act               `json:"act"`
	Res     string            `json:"res"`
	St      map[string]string `json:"st"`
	Ipfs    map[string]string `json:"ipfs"`
	Healthy bool              `json:"healthy"`
	NoExp   bool              `json:"noexp"`
	Proj    proj              `json:"proj"`
}

type script struct {
	ID    string   `json:"id"`
	K     int      `json:"K"`
	Q     int      `json:"Q"`
	Cids  []string `json:"cids"`
	Steps []step   `json:"steps"`
	Tags  []string `json:"tags"`
	Gated bool     `json:"gated"` // worker steps after a call returned are scheduled by the script (verifGate hooks)
}

type filterObs struct {
	F   []string          `json:"f"`
	Res map[string]string `json:"res"`
}

type obsRec struct {
	Script    string            `json:"script"`
	I         int               `json:"i"`
	Act       act               `json:"act"`
	Res       string            `json:"res"`
	ExpRes    string            `json:"expres"`
	Healthy   bool              `json:"healthy"`
	St        map[string]string `json:"st"`
	Ipfs      map[string]string `json:"ipfs"`
	Ipfs0     map[string]string `json:"ipfs0"` // daemon pins when the last recover-all round started
	Status    map[string]string `json:"status"`
	StatusAll map[string]string `json:"statusall"`
	Pending   []CallView        `json:"pending"`
	Applied   []CallView        `json:"applied"`
	Quiescent bool              `json:"quiescent"`
	Filters   []filterObs       `json:"filters"`
	Match     bool              `json:"match"`
	Why       string            `json:"why"`
}

type env struct {
	names   *hx.Names
	self    peer.ID
	other   peer.ID
	st      state.State
	kinds   map[string]string
	daemon  *Daemon
	tracker *stateless.Tracker
	rng     *rand.Rand
	cids    []string
	remoteW sync.WaitGroup
	ipfs0   map[string]string

	gmu     sync.Mutex
	gated   bool
	waiting map[string][]gateWaiter // "point|cid|type" -> workers held at that gate
}

type gateWaiter struct {
	ch chan struct{}
	op *optracker.Operation
}

// gate registry: the hook is package-global in the repository, scripts run in parallel with disjoint CIDs
var gateEnvs sync.Map // concrete cid string -> *env

func gateFn(point string, op *optracker.Operation) {
	v, ok := gateEnvs.Load(op.Cid().String())
	if !ok {
		return
	}
	e := v.(*env)
	typ := "pin"
	if op.Type() != optracker.OperationPin {
		typ = "unpin"
	}
	e.gmu.Lock()
	if !e.gated {
		e.gmu.Unlock()
		return
	}
	key := point + "|" + e.names.CidName(op.Cid()) + "|" + typ
	ch := make(chan struct{})
	e.waiting[key] = append(e.waiting[key], gateWaiter{ch, op})
	e.gmu.Unlock()
	select {
	case <-ch:
	case <-time.After(30 * time.Second):
	}
}

// releaseGate lets a worker held at (point, cid, type) continue: the oldest one whose operation is
// cancelled / not cancelled as the step says (several operations of one CID and type can be parked
// at the gate: the live one and cancelled predecessors), else the oldest one.
func (e *env) releaseGate(point, cidName, typ string, cancelled *bool) error {
	key := point + "|" + cidName + "|" + typ
	deadline := time.Now().Add(2 * time.Second)
	for {
		e.gmu.Lock()
		if l := e.waiting[key]; len(l) > 0 {
			k := -1
			for i, w := range l {
				if cancelled == nil || w.op.Cancelled() == *cancelled {
					k = i
					break
				}
			}
			// the step names a cancelled / live operation that has not arrived at the gate yet: wait for it
			if k >= 0 || time.Now().After(deadline) {
				if k < 0 {
					k = 0
				}
				close(l[k].ch)
				e.waiting[key] = append(append([]gateWaiter{}, l[:k]...), l[k+1:]...)
				e.gmu.Unlock()
				return nil
			}
		}
		e.gmu.Unlock()
		if time.Now().After(deadline) {
			return fmt.Errorf("no worker held at gate %s", key)
		}
		time.Sleep(time.Millisecond)
	}
}

func (e *env) heldAtGates() int {
	e.gmu.Lock()
	defer e.gmu.Unlock()
	n := 0
	for _, l := range e.waiting {
		n += len(l)
	}
	return n
}

// ungate switches the gates off and releases everybody.
func (e *env) ungate() {
	e.gmu.Lock()
	e.gated = false
	for k, l := range e.waiting {
		for _, w := range l {
			close(w.ch)
		}
		delete(e.waiting, k)
	}
	e.gmu.Unlock()
}

func newEnv(sc *script, seed int64) (*env, error) {
	e := &env{names: hx.NewNames(seed), kinds: map[string]string{}, rng: rand.New(rand.NewSource(seed)), cids: sc.Cids,
		gated: sc.Gated, waiting: map[string][]gateWaiter{}}
	e.self = e.names.Peer("self")
	e.other = e.names.Peer("other")
	store := dssync.MutexWrap(ds.NewMapDatastore())
	st, err := dsstate.New(store, "", dsstate.DefaultHandle())
	if err != nil {
		return nil, err
	}
	e.st = st
	for _, c := range sc.Cids {
		e.kinds[c] = "none"
		gateEnvs.Store(e.names.Cid(c).String(), e)
	}
	e.daemon = NewDaemon(e.names.CidName, e.names.Cid)
	e.daemon.FailSalt = seed
	cfg := &stateless.Config{}
	cfg.Default()
	cfg.ConcurrentPins = sc.K
	cfg.MaxPinQueueSize = sc.Q
	e.tracker = stateless.New(cfg, e.self, "self", func(ctx context.Context) (state.ReadOnly, error) { return e.st, nil })
	srv := rpc.NewServer(nil, "verif")
	if err := srv.RegisterName("IPFSConnector", e.daemon); err != nil {
		return nil, err
	}
	e.tracker.SetClient(rpc.NewClientWithServer(nil, "verif", srv))
	return e, nil
}

func (e *env) close() {
	e.ungate()
	for _, c := range e.cids {
		gateEnvs.Delete(e.names.Cid(c).String())
	}
	// fail whatever is still pending so that workers and Track(remote) calls return
	_, pend, appl := e.daemon.Snapshot()
	for _, c := range pend {
		e.daemon.Decide(c.Cid, c.Kind, "fail", false)
	}
	for _, c := range appl {
		e.daemon.Decide(c.Cid, c.Kind, "return", true)
	}
	e.tracker.Shutdown(context.Background())
}

func (e *env) pinFor(c, kind string) *api.Pin {
	ci := e.names.Cid(c)
	opts := api.PinOptions{Name: "n-" + c}
	if kind == "dir" || kind == "rdir" {
		opts.Mode = api.PinModeDirect
	}
	p := api.PinWithOpts(ci, opts)
	switch kind {
	case "rec", "dir":
		switch e.rng.Intn(4) {
		case 0:
			p.ReplicationFactorMin, p.ReplicationFactorMax = -1, -1 // everywhere
		case 3:
			// everywhere, with a left-over allocation list that does not name this peer (entries written
			// by older adders): "allocated to everyone" is decided by the factors
			p.ReplicationFactorMin, p.ReplicationFactorMax = -1, -1
			p.Allocations = []peer.ID{e.other}
		case 1:
			p.ReplicationFactorMin, p.ReplicationFactorMax = 1, 1
			p.Allocations = []peer.ID{e.self}
		default:
			p.ReplicationFactorMin, p.ReplicationFactorMax = 1, 2
			p.Allocations = []peer.ID{e.other, e.self}
		}
	case "rrec", "rdir":
		p.ReplicationFactorMin, p.ReplicationFactorMax = 1, 1
		p.Allocations = []peer.ID{e.other}
	}
	// a recursive pin may be a depth-limited shard pin (MaxDepth 1 or 2): same abstract kind for the tracker
	if (kind == "rec" || kind == "rrec") && e.rng.Intn(4) == 0 {
		p.Type = api.ShardType
		p.MaxDepth = api.PinDepth(1 + e.rng.Intn(2))
		ref := e.names.Cid("prev-" + c)
		p.Reference = &ref
	}
	switch kind {
	case "meta":
		p.Type = api.MetaType
		ref := e.names.Cid("cdag-" + c)
		p.Reference = &ref
		p.MaxDepth = 0
	}
	return p
}

func resString(err error) string {
	if err == nil {
		return "ok"
	}
	if err == stateless.ErrFullQueue {
		return "fullq"
	}
	return "err:" + err.Error()
}

// do performs one environment action; returns the instruction's result ("ok", "fullq", ...).
func (e *env) do(a act) (string, error) {
	ctx := context.Background()
	switch a.Name {
	case "Track":
		p := e.pinFor(a.Cid, a.Kind)
		if err := e.st.Add(ctx, p); err != nil {
			return "", err
		}
		e.kinds[a.Cid] = a.Kind
		if a.Kind == "rrec" || a.Kind == "rdir" {
			// synchronous unpin on the caller's thread: blocks until the script releases the call
			e.remoteW.Add(1)
			go func() {
				defer e.remoteW.Done()
				e.tracker.Track(ctx, p)
			}()
			return "ok", nil
		}
		// Track of a local or meta pin only enqueues: it must return at once. A bounded wait keeps a
		// tracker that blocks here (e.g. one that issues a daemon call from Track) from hanging the run.
		type tres struct{ err error }
		ch := make(chan tres, 1)
		e.remoteW.Add(1)
		go func() {
			defer e.remoteW.Done()
			ch <- tres{e.tracker.Track(ctx, p)}
		}()
		select {
		case r := <-ch:
			return resString(r.err), nil
		case <-time.After(3 * time.Second):
			return "blocked", nil
		}
	case "Untrack":
		if err := e.st.Rm(ctx, e.names.Cid(a.Cid)); err != nil {
			return "", err
		}
		e.kinds[a.Cid] = "none"
		return resString(e.tracker.Untrack(ctx, e.names.Cid(a.Cid))), nil
	case "Recover":
		_, err := e.tracker.Recover(ctx, e.names.Cid(a.Cid))
		return resString(err), nil
	case "RecoverAll":
		e.ipfs0 = e.observe().Ipfs
		_, err := e.tracker.RecoverAll(ctx)
		return resString(err), nil
	case "Apply":
		if !e.daemon.Decide(a.Cid, callKind(a.Op), "apply", false) {
			return "", fmt.Errorf("no pending %s call for %s to apply", a.Op, a.Cid)
		}
		return "", nil
	case "Return":
		if !e.daemon.Decide(a.Cid, callKind(a.Op), "return", true) {
			return "", fmt.Errorf("no applied %s call for %s to return", a.Op, a.Cid)
		}
		return "", nil
	case "Fail":
		if !e.daemon.Decide(a.Cid, callKind(a.Op), "fail", false) {
			return "", fmt.Errorf("no pending %s call for %s to fail", a.Op, a.Cid)
		}
		return "", nil
	case "HandleErr", "Finish":
		want := a.wantCancelled()
		if a.Name == "Finish" {
			f := false // a call that returned without error and is recorded as done belongs to the live operation
			want = &f
		}
		return "", e.releaseGate("returned", a.Cid, callKind(a.Op), want)
	case "Clean":
		return "", e.releaseGate("clean", a.Cid, callKind(a.Op), nil)
	}
	return "", fmt.Errorf("unknown action %q", a.Name)
}

func callKind(op string) string {
	if op == "pin" {
		return "pin"
	}
	return "unpin" // unpin and remote operations both issue an unpin call
}

func (e *env) statusAll(f api.TrackerStatus) map[string]string {
	out := map[string]string{}
	for _, c := range e.cids {
		out[c] = "absent"
	}
	for _, pi := range e.tracker.StatusAll(context.Background(), f) {
		n := e.names.CidName(pi.Cid)
		if prev, ok := out[n]; ok && prev != "absent" {
			out[n] = "duplicate:" + prev + "+" + pi.Status.String()
		} else {
			out[n] = pi.Status.String()
		}
	}
	return out
}

func (e *env) observe() *obsRec {
	ctx := context.Background()
	o := &obsRec{St: map[string]string{}, Status: map[string]string{}}
	pins, pend, appl := e.daemon.Snapshot()
	o.Ipfs = map[string]string{}
	for _, c := range e.cids {
		o.St[c] = e.kinds[c]
		if m, ok := pins[c]; ok {
			o.Ipfs[c] = m
		} else {
			o.Ipfs[c] = "none"
		}
		o.Status[c] = e.tracker.Status(ctx, e.names.Cid(c)).Status.String()
	}
	o.StatusAll = e.statusAll(api.TrackerStatusUndefined)
	o.Pending, o.Applied = pend, appl
	o.Ipfs0 = e.ipfs0
	if o.Ipfs0 == nil {
		o.Ipfs0 = o.Ipfs
	}
	return o
}

func sameProj(o *obsRec, s *step) (bool, string) {
	if !reflect.DeepEqual(o.Status, s.Proj.Status) {
		return false, "status"
	}
	if !reflect.DeepEqual(o.StatusAll, s.Proj.StatusAll) {
		return false, "statusall"
	}
	if !reflect.DeepEqual(o.Ipfs, s.Ipfs) {
		return false, "ipfs"
	}
	if !sameCalls(o.Pending, s.Proj.Pending) {
		return false, "pending"
	}
	if !sameCalls(o.Applied, s.Proj.Applied) {
		return false, "applied"
	}
	return true, ""
}

func sameCalls(a, b []CallView) bool {
	if len(a) != len(b) {
		return false
	}
	x := append([]CallView{}, a...)
	y := append([]CallView{}, b...)
	key := func(s []CallView) func(i, j int) bool {
		return func(i, j int) bool { return fmt.Sprint(s[i]) < fmt.Sprint(s[j]) }
	}
	sort.Slice(x, key(x))
	sort.Slice(y, key(y))
	return reflect.DeepEqual(x, y)
}

var allStatuses = []api.TrackerStatus{api.TrackerStatusClusterError, api.TrackerStatusPinError, api.TrackerStatusUnpinError,
	api.TrackerStatusPinned, api.TrackerStatusPinning, api.TrackerStatusUnpinning, api.TrackerStatusUnpinned,
	api.TrackerStatusRemote, api.TrackerStatusPinQueued, api.TrackerStatusUnpinQueued, api.TrackerStatusSharded,
	api.TrackerStatusUnexpectedlyUnpinned}

func (e *env) filters(o *obsRec, nrandom int) {
	add := func(f api.TrackerStatus) {
		names := []string{}
		for _, s := range allStatuses {
			if f&s != 0 {
				names = append(names, s.String())
			}
		}
		o.Filters = append(o.Filters, filterObs{F: names, Res: e.statusAll(f)})
	}
	for _, s := range allStatuses {
		add(s)
	}
	add(api.TrackerStatusError)
	add(api.TrackerStatusQueued)
	for i := 0; i < nrandom; i++ {
		f := api.TrackerStatus(0)
		for _, s := range allStatuses {
			if e.rng.Intn(3) == 0 {
				f |= s
			}
		}
		if f != 0 {
			add(f)
		}
	}
}

// waitStable polls until the observation stops changing (quiet period), returns the last one.
func (e *env) waitStable(quiet time.Duration, max time.Duration) *obsRec {
	deadline := time.Now().Add(max)
	last := e.observe()
	lastChange := time.Now()
	for time.Now().Before(deadline) {
		time.Sleep(5 * time.Millisecond)
		o := e.observe()
		if !reflect.DeepEqual(o, last) {
			last = o
			lastChange = time.Now()
			continue
		}
		if time.Since(lastChange) >= quiet {
			break
		}
	}
	return last
}

func runScript(sc *script, seed int64, out chan<- *obsRec) (matched bool, infra error) {
	e, err := newEnv(sc, seed)
	if err != nil {
		return false, err
	}
	defer e.close()
	matched = true
	for i := range sc.Steps {
		s := &sc.Steps[i]
		res, err := e.do(s.Act)
		if s.NoExp {
			// last action of a behaviour that ends before the next stable state: no prediction to compare
			// with; record the result and let the epilogue judge what the real code makes of it
			o := e.waitStable(60*time.Millisecond, 2*time.Second)
			o.Script, o.I, o.Act, o.Res, o.ExpRes, o.Healthy = sc.ID, i, s.Act.out(), res, s.Res, false
			o.Match = err == nil && (res == "" || res == s.Res)
			if !o.Match {
				o.Why = "result"
				if err != nil {
					o.Why = "action not executable: " + err.Error()
				}
				matched = false
			}
			o.Quiescent = false
			o.Filters = []filterObs{}
			out <- o
			break
		}
		var o *obsRec
		if err == nil {
			// poll until the real tracker shows the state the specification predicts
			deadline := time.Now().Add(1500 * time.Millisecond)
			for {
				o = e.observe()
				if ok, _ := sameProj(o, s); ok || time.Now().After(deadline) {
					break
				}
				time.Sleep(2 * time.Millisecond)
			}
			if ok, _ := sameProj(o, s); ok {
				// it must also stay there
				time.Sleep(15 * time.Millisecond)
				o = e.observe()
			}
		}
		if err != nil || func() bool { ok, _ := sameProj(o, s); return !ok }() {
			// departed from the specification: record the state the real code settles in
			o = e.waitStable(200*time.Millisecond, 3*time.Second)
			o.Match = false
			if err != nil {
				o.Why = "action not executable: " + err.Error()
			} else {
				_, o.Why = sameProj(o, s)
			}
		} else {
			o.Match = true
		}
		if res != "" && s.Res != res && s.Res != "" {
			if o.Match {
				o.Why = "result"
			}
			o.Match = false
		}
		o.Script, o.I, o.Act, o.Res, o.ExpRes, o.Healthy = sc.ID, i, s.Act.out(), res, s.Res, s.Healthy
		// quiescent: nothing queued, no worker busy, no call in flight. When the real projection equals the
		// predicted one the specification knows exactly; otherwise: settled, no call in flight and no worker
		// held at a gate.
		o.Quiescent = len(o.Pending) == 0 && len(o.Applied) == 0 && e.heldAtGates() == 0
		if o.Match {
			o.Quiescent = s.Proj.Quiescent
		}
		if !o.Match {
			// the spec's notion of a healthy recover round no longer applies
			o.Healthy = false
		}
		o.Filters = []filterObs{}
		if o.Quiescent {
			e.filters(o, 3)
		}
		out <- o
		if !o.Match {
			matched = false
			// a difference in what Status/StatusAll report does not change the tracker's
			// state: go on; anything else ends the scripted part
			if o.Why != "status" && o.Why != "statusall" && o.Why != "result" {
				break
			}
		}
	}
	// Epilogue, independent of the specification's transcription: let every in-flight call
	// succeed, run recover rounds with the daemon healthy until one succeeds, let it finish.
	// The statement: "after a recover round with IPFS healthy the daemon matches for every CID".
	e.ungate()
	e.daemon.SetFree()
	e.waitStable(60*time.Millisecond, 3*time.Second)
	rounds := 0
	var rerr error
	for rounds < 6 {
		rounds++
		if rounds == 1 {
			e.ipfs0 = e.observe().Ipfs
		}
		_, rerr = e.tracker.RecoverAll(context.Background())
		e.waitStable(60*time.Millisecond, 3*time.Second)
		if rerr == nil {
			break
		}
	}
	o := e.waitStable(100*time.Millisecond, 3*time.Second)
	o.Script, o.I, o.Act, o.Res, o.ExpRes = sc.ID, len(sc.Steps), act{Name: "Epilogue"}, resString(rerr), resString(rerr)
	o.Match, o.Healthy = true, rerr == nil
	o.Quiescent = len(o.Pending) == 0 && len(o.Applied) == 0
	o.Filters = []filterObs{}
	if o.Quiescent {
		e.filters(o, 3)
	}
	out <- o
	return matched, nil
}

func TestDriver(t *testing.T) {
	rig.Quiet()
	stateless.VerifGate = gateFn
	res := hx.NewResult()
	defer res.Write()
	raw, err := hx.LoadCases()
	if err != nil {
		t.Fatal(err)
	}
	tf, err := os.Create(os.Getenv("VERIF_TRACE"))
	if err != nil {
		t.Fatal(err)
	}
	defer tf.Close()
	enc := json.NewEncoder(tf)
	out := make(chan *obsRec, 1024)
	var wgOut sync.WaitGroup
	wgOut.Add(1)
	go func() {
		defer wgOut.Done()
		for o := range out {
			enc.Encode(o)
		}
	}()
	par := hx.EnvInt("VERIF_PAR", 8)
	sem := make(chan struct{}, par)
	var wg sync.WaitGroup
	var mu sync.Mutex
	matched := 0
	for i, r := range raw {
		var sc script
		if err := json.Unmarshal(r, &sc); err != nil {
			t.Fatal(err)
		}
		wg.Add(1)
		sem <- struct{}{}
		go func(i int, sc script) {
			defer wg.Done()
			defer func() { <-sem }()
			ok, ierr := runScript(&sc, hx.Seed()*7919+int64(i), out)
			if ierr != nil {
				res.Infra("script %s: %v", sc.ID, ierr)
				return
			}
			nontrivial := len(sc.Tags) > 0
			acts := []string{}
			for _, s := range sc.Steps {
				a := s.Act.Name
				if s.Act.Cid != "" {
					a += "(" + s.Act.Cid + "," + s.Act.Kind + s.Act.Op + ")"
				}
				acts = append(acts, a)
			}
			res.Case(map[string]interface{}{"K": sc.K, "Q": sc.Q, "actions": acts, "tags": sc.Tags}, nontrivial)
			res.Count(len(sc.Steps) - 1)
			if ok {
				mu.Lock()
				matched++
				mu.Unlock()
			}
		}(i, sc)
	}
	wg.Wait()
	close(out)
	wgOut.Wait()
	res.AddTraces(matched)
	res.Set("scripts", len(raw))
	res.Set("scripts_matching_spec_at_every_step", matched)
}
