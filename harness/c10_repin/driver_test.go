// C10 driver: every member of an episode's peerset is a real Cluster (own
// loopback host, built by NewCluster) over ONE shared pinset and the same
// Peers(). The script loads the pinset, then delivers the ping alert for the
// failed peer to every survivor's monitor channel (or calls PeerRemove at one
// member, or StateSync at every member) and records, per event, the pinset
// before/after and the LogPin/LogUnpin calls of each peer. The closest-peer
// order is the real one (blake2b XOR distances of the concrete IDs); the driver
// reports it as the projection of the specification's `rank`. No verdict here:
// spec/ClusterAPIRepinTrace.tla judges the recorded episodes.
package c10

import (
	"bytes"
	"context"
	"encoding/json"
	"fmt"
	"math/rand"
	"os"
	"sort"
	"testing"
	"time"

	"verifharness/hx"
	"verifharness/rig"

	"github.com/ipfs/ipfs-cluster/api"
	"github.com/ipfs/ipfs-cluster/monitor/pubsubmon"

	cid "github.com/ipfs/go-cid"
	cbor "github.com/ipfs/go-ipld-cbor"
	peer "github.com/libp2p/go-libp2p-core/peer"
	pubsub "github.com/libp2p/go-libp2p-pubsub"
	mh "github.com/multiformats/go-multihash"
	"golang.org/x/crypto/blake2b"
)

type worldT struct {
	Peers     []string            `json:"peers"`
	Followers []string            `json:"followers"`
	NoRepin   bool                `json:"norepin"`
	Strat     string              `json:"strat"`
	MS        map[string]string   `json:"ms"`
	Blocks    []json.RawMessage   `json:"blocks"`
	Rank      map[string][]string `json:"rank"`
	GetFail   []string            `json:"getfail"` // CIDs whose State.Get fails with a read error during the episode
}

type epT struct {
	Kind    string `json:"kind"`
	Failed  string `json:"failed"`
	Failed2 string `json:"failed2"` // kind "remove2": the peer removed right after Failed
	At      string `json:"at"`
}

type episodeT struct {
	ID  int         `json:"id"`
	Src string      `json:"src"`
	W   worldT      `json:"w"`
	Ep  epT         `json:"ep"`
	Ps0 []rig.Entry `json:"ps0"`
}

type eventT struct {
	Kind     string      `json:"kind"`
	At       string      `json:"at"`
	Failed   string      `json:"failed"`
	Metric   string      `json:"metric"`
	Members  []string    `json:"members"`
	Members2 []string    `json:"members2"`
	Ps       []rig.Entry `json:"ps"`
	Ps2      []rig.Entry `json:"ps2"`
	Log      [][2]string `json:"log"`
	Other    [][3]string `json:"other"`
	Barrier  bool        `json:"barrier"`
	Err      string      `json:"err,omitempty"`
	// concurrent delivery (kind "alerts" / "syncs"): every acting peer at once
	Peers []string               `json:"peers"`
	Logs  map[string][][2]string `json:"logs"`
	Seen  map[string]bool        `json:"seen"`
	Gate  int                    `json:"gate_arrived"`
}

type actT struct {
	By   string `json:"by"`
	Kind string `json:"kind"`
	Cid  string `json:"cid"`
}

type recT struct {
	ID     int         `json:"id"`
	Src    string      `json:"src"`
	W      worldT      `json:"w"`
	Ep     epT         `json:"ep"`
	Ps0    []rig.Entry `json:"ps0"`
	Events []eventT    `json:"events"`
	Acts   []actT      `json:"acts"`
	PsF    []rig.Entry `json:"psF"`
}

type pools struct {
	gate     *rig.ListGate
	getGate  *rig.ListGate
	faults   *rig.FaultDatastore
	shared   *rig.SharedState
	normal   []*rig.Rig
	follower []*rig.Rig
	realmon  []*rig.Rig // rigs whose PeerMonitor is the REAL pubsubmon.Monitor
	mons     map[*rig.Rig]*pubsubmon.Monitor
	rng      *rand.Rand
	barrier  int
}

func (p *pools) get(kind string, i int) (*rig.Rig, error) {
	lst := &p.normal
	if kind == "follower" {
		lst = &p.follower
	}
	if kind == "realmon" {
		lst = &p.realmon
	}
	for len(*lst) <= i {
		if kind == "realmon" {
			// real pubsubmon over a real gossipsub on the rig's host; its peerset callback is the consensus
			// component's Peers(), exactly as ipfs-cluster-service wires it
			ctx := context.Background()
			h, err := rig.NewHost()
			if err != nil {
				return nil, err
			}
			ps, err := pubsub.NewGossipSub(ctx, h)
			if err != nil {
				return nil, err
			}
			cfg := &pubsubmon.Config{}
			cfg.Default()
			cfg.CheckInterval = time.Hour // no alerts of its own
			peersOf := &rig.FakeConsensus{ID: h.ID(), S: p.shared}
			mon, err := pubsubmon.New(ctx, cfg, ps, peersOf.Peers)
			if err != nil {
				return nil, err
			}
			r, err := rig.NewRig(rig.Opts{Host: h, Shared: p.shared, Monitor: mon, RplMin: -1, RplMax: -1})
			if err != nil {
				return nil, err
			}
			if p.mons == nil {
				p.mons = map[*rig.Rig]*pubsubmon.Monitor{}
			}
			p.mons[r] = mon
			*lst = append(*lst, r)
			continue
		}
		r, err := rig.NewRig(rig.Opts{Shared: p.shared, Follower: kind == "follower", RplMin: -1, RplMax: -1})
		if err != nil {
			return nil, err
		}
		*lst = append(*lst, r)
	}
	return (*lst)[i], nil
}

func (p *pools) close() {
	for _, r := range append(append(p.normal, p.follower...), p.realmon...) {
		r.Close()
	}
}

// "nonnum": a valid, unexpired metric whose value is not a number (a holder stays healthy, a candidate cannot be
// ranked); "bad" (absent / invalid flag / expired: the real monitor filters those) is scripted as no metric at all.
var metricValue = map[string]string{"v0": "100", "v1": "200", "v2": "300", "nonnum": "not-a-number"}

func dist(a, b [32]byte) []byte {
	out := make([]byte, 32)
	for i := range out {
		out[i] = a[i] ^ b[i]
	}
	return out
}

// realRank orders the members by XOR distance of the blake2b-256 hashes of CID key and peer ID.
func realRank(c cid.Cid, members []string, ids map[string]peer.ID) []string {
	ch := blake2b.Sum256([]byte(c.KeyString()))
	out := append([]string{}, members...)
	d := map[string][]byte{}
	for _, m := range members {
		d[m] = dist(blake2b.Sum256([]byte(string(ids[m]))), ch)
	}
	sort.SliceStable(out, func(i, j int) bool { return bytes.Compare(d[out[i]], d[out[j]]) < 0 })
	return out
}

func sortedNames(ids []peer.ID, n *hx.Names) []string {
	out := n.PeerNames(ids)
	sort.Strings(out)
	return out
}

func runEpisode(p *pools, e *episodeT, res *hx.Result) (*recT, error) {
	ctx := context.Background()
	names := hx.NewNames(hx.Seed()*1000003 + int64(e.ID))
	proj := rig.NewProj(names)
	isF := map[string]bool{}
	for _, f := range e.W.Followers {
		isF[f] = true
	}
	// assign a real Cluster to every member
	rigs := map[string]*rig.Rig{}
	ids := map[string]peer.ID{}
	var fresh []*rig.Rig
	defer func() {
		for _, r := range fresh {
			r.Close()
		}
	}()
	perm := p.rng.Perm(8)
	nf := 0
	for i, m := range e.W.Peers {
		var r *rig.Rig
		var err error
		switch {
		case e.Ep.Kind == "remove2":
			r, err = p.get("realmon", i)
		case isF[m]:
			r, err = p.get("follower", nf)
			nf++
		case e.W.NoRepin:
			// alertsHandler ends at the first ping alert when repinning is disabled: fresh instances every time
			r, err = rig.NewRig(rig.Opts{Shared: p.shared, NoRepin: true, RplMin: -1, RplMax: -1})
			if err == nil {
				fresh = append(fresh, r)
			}
		default:
			r, err = p.get("normal", perm[i%8])
		}
		if err != nil {
			return nil, err
		}
		for _, other := range rigs {
			if other == r {
				return nil, fmt.Errorf("rig assigned twice")
			}
		}
		rigs[m] = r
		ids[m] = r.ID
		names.SetPeer(m, r.ID)
	}
	followerID := map[peer.ID]bool{}
	for f := range isF {
		followerID[ids[f]] = true
	}
	var memberIDs []peer.ID
	for _, m := range e.W.Peers {
		memberIDs = append(memberIDs, ids[m])
	}
	p.shared.SetPeers(memberIDs)
	p.faults.ClearTags()
	p.shared.Reset()
	// blocks (cluster-DAG -> shard links), metrics, trust on every member
	blocks := map[string][]byte{}
	for _, raw := range e.W.Blocks {
		var pair []json.RawMessage
		if err := json.Unmarshal(raw, &pair); err != nil || len(pair) != 2 {
			return nil, fmt.Errorf("bad block spec")
		}
		var d string
		var links []string
		json.Unmarshal(pair[0], &d)
		json.Unmarshal(pair[1], &links)
		obj := map[string]cid.Cid{}
		for i, l := range links {
			obj[fmt.Sprintf("%d", i)] = names.Cid(l)
		}
		node, err := cbor.WrapObject(obj, mh.SHA2_256, -1)
		if err != nil {
			return nil, err
		}
		blocks[names.Cid(d).String()] = node.RawData()
	}
	mname := fmt.Sprintf("freespace-%d", e.ID)
	for _, r := range rigs {
		if mon := p.mons[r]; mon != nil {
			// a fresh metric name per episode: what earlier episodes logged is invisible
			r.Informer.SetName(mname)
			r.IPFS.Blocks = blocks
			r.Cons.Trusted = func(q peer.ID) bool { return !followerID[q] }
			for _, m := range e.W.Peers {
				v, ok := metricValue[e.W.MS[m]]
				if !ok {
					continue
				}
				mt := &api.Metric{Name: mname, Peer: ids[m], Value: v, Valid: true}
				mt.SetTTL(time.Hour)
				if err := mon.LogMetric(ctx, mt); err != nil {
					return nil, err
				}
			}
			continue
		}
		r.IPFS.Blocks = blocks
		r.Cons.Trusted = func(q peer.ID) bool { return !followerID[q] }
		var ms []*api.Metric
		for _, m := range e.W.Peers {
			v, ok := metricValue[e.W.MS[m]]
			if !ok {
				continue
			}
			mt := &api.Metric{Name: r.Informer.Name(), Peer: ids[m], Value: v, Valid: true}
			mt.SetTTL(time.Hour)
			ms = append(ms, mt)
		}
		r.Mon.Set(r.Informer.Name(), ms)
	}
	for _, en := range e.Ps0 {
		p.faults.Tag(en.Cid)
		if err := p.shared.State.Add(ctx, proj.Pin(en)); err != nil {
			return nil, err
		}
	}
	if e.W.GetFail == nil {
		e.W.GetFail = []string{}
	}
	defer p.faults.FailGets(nil)
	p.shared.TakeCalls()
	rec := &recT{ID: e.ID, Src: e.Src, W: e.W, Ep: e.Ep, Events: []eventT{}, Acts: []actT{}}
	rec.W.Rank = map[string][]string{}
	for _, en := range e.Ps0 {
		rec.W.Rank[en.Cid] = realRank(names.Cid(en.Cid), e.W.Peers, ids)
	}
	pins := func() []rig.Entry { return proj.Entries(p.shared.Pins()) }
	members := func() []string {
		ps, _ := rigs[e.W.Peers[0]].Cons.Peers(ctx)
		return sortedNames(ps, names)
	}
	rec.Ps0 = pins()
	p.faults.FailGets(e.W.GetFail) // from here on State.Get of these CIDs fails (List and writes still work)
	var all []rig.LogCall
	split := func(ev *eventT) {
		for _, c := range p.shared.TakeCalls() {
			all = append(all, c)
			by := names.PeerName(c.By)
			if by == ev.At {
				ev.Log = append(ev.Log, [2]string{c.Kind, names.CidName(c.Pin.Cid)})
			} else {
				ev.Other = append(ev.Other, [3]string{by, c.Kind, names.CidName(c.Pin.Cid)})
			}
		}
	}
	// Completion of an alert is observed without touching Cluster.Alerts() while a handler may be appending
	// to it: alertsHandler is one sequential loop, so a second PING alert about a peer that is no member (it
	// re-homes nothing) reaching State.List proves that the first alert has been dealt with completely.
	dummy := names.Peer("no-member-barrier")
	lists := func(m, metric string) int { // State.List calls the coded handler makes for (alert, barrier)
		if isF[m] || e.W.NoRepin {
			return 0
		}
		if metric == "ping" {
			return 2
		}
		return 1
	}
	send := func(m, metric string) error {
		a := &api.Alert{Metric: api.Metric{Name: metric, Peer: ids[e.Ep.Failed], Valid: false}, TriggeredAt: time.Now()}
		b := &api.Alert{Metric: api.Metric{Name: "ping", Peer: dummy, Valid: false}, TriggeredAt: time.Now()}
		for _, al := range []*api.Alert{a, b} {
			select {
			case rigs[m].Mon.AlertCh <- al:
			case <-time.After(20 * time.Second):
				return fmt.Errorf("alert channel of %s is full: nobody reads it", m)
			}
		}
		return nil
	}
	waitLists := func(target int) bool {
		deadline := time.Now().Add(40 * time.Second)
		for time.Now().Before(deadline) {
			if p.gate.Count() >= target {
				return true
			}
			time.Sleep(2 * time.Millisecond)
		}
		return false
	}
	// quiet: peers whose handler makes no List call (followers, repinning disabled): give them time, then look
	settle := func(ms []string) map[string]int {
		out := map[string]int{}
		if len(ms) == 0 {
			return out
		}
		time.Sleep(400 * time.Millisecond)
		for _, m := range ms {
			// nothing is appending any more (the handler either ended or has consumed both alerts)
			out[m] = len(rigs[m].Cluster.Alerts())
			for {
				select {
				case <-rigs[m].Mon.AlertCh:
					continue
				default:
				}
				break
			}
		}
		return out
	}
	alertAt := func(m, metric string) error {
		ev := eventT{Peers: []string{}, Logs: map[string][][2]string{}, Seen: map[string]bool{}, Kind: "alert", At: m, Failed: e.Ep.Failed, Metric: metric, Members: members(), Ps: pins(),
			Log: [][2]string{}, Other: [][3]string{}}
		c0 := p.gate.Count()
		before := len(rigs[m].Cluster.Alerts())
		if err := send(m, metric); err != nil {
			return err
		}
		if n := lists(m, metric); n > 0 {
			if !waitLists(c0 + n) {
				return fmt.Errorf("peer %s did not finish handling the alert within 40s", m)
			}
			ev.Barrier = true
		} else {
			// barrier = the handler went on to record the barrier alert after the first one
			ev.Barrier = settle([]string{m})[m]-before >= 2
		}
		ev.Ps2 = pins()
		ev.Members2 = members()
		split(&ev)
		rec.Events = append(rec.Events, ev)
		return nil
	}
	order := append([]string{}, e.W.Peers...)
	p.rng.Shuffle(len(order), func(i, j int) { order[i], order[j] = order[j], order[i] })
	splitAll := func(ev *eventT) {
		for _, m := range ev.Peers {
			ev.Logs[m] = [][2]string{}
		}
		for _, c := range p.shared.TakeCalls() {
			all = append(all, c)
			by := names.PeerName(c.By)
			if _, ok := ev.Logs[by]; ok {
				ev.Logs[by] = append(ev.Logs[by], [2]string{c.Kind, names.CidName(c.Pin.Cid)})
			} else {
				ev.Other = append(ev.Other, [3]string{by, c.Kind, names.CidName(c.Pin.Cid)})
			}
		}
	}
	// every survivor gets the alert at once; the list gate makes all handlers read the same pre-repin pinset
	alertsAll := func(metric string) error {
		ev := eventT{Peers: []string{}, Logs: map[string][][2]string{}, Seen: map[string]bool{}, Kind: "alerts", Failed: e.Ep.Failed, Metric: metric, Members: members(), Ps: pins(),
			Log: [][2]string{}, Other: [][3]string{}}
		listers, total := 0, 0
		var quiet []string
		before := map[string]int{}
		for _, m := range order {
			if m == e.Ep.Failed {
				continue
			}
			ev.Peers = append(ev.Peers, m)
			ev.Seen[m] = false
			if n := lists(m, metric); n > 0 {
				listers++
				total += n
			} else {
				quiet = append(quiet, m)
				before[m] = len(rigs[m].Cluster.Alerts())
			}
		}
		sort.Strings(ev.Peers)
		c0 := p.gate.Count()
		if metric == "ping" {
			p.gate.Arm(listers) // every handler reads the pinset before any of them re-pins
		}
		for _, m := range ev.Peers {
			if err := send(m, metric); err != nil {
				p.gate.Disarm()
				return err
			}
		}
		if !waitLists(c0 + total) {
			p.gate.Disarm()
			return fmt.Errorf("the survivors did not finish handling the alert within 40s")
		}
		for _, m := range ev.Peers {
			ev.Seen[m] = lists(m, metric) > 0
		}
		for m, n := range settle(quiet) {
			ev.Seen[m] = n-before[m] >= 2
		}
		ev.Gate = p.gate.Arrived()
		p.gate.Disarm()
		ev.Ps2 = pins()
		ev.Members2 = members()
		splitAll(&ev)
		rec.Events = append(rec.Events, ev)
		return nil
	}
	syncsAll := func() error {
		ev := eventT{Peers: []string{}, Logs: map[string][][2]string{}, Seen: map[string]bool{}, Kind: "syncs", Members: members(), Ps: pins(), Log: [][2]string{}, Other: [][3]string{}}
		readers := 0
		for _, m := range order {
			ev.Peers = append(ev.Peers, m)
			if !isF[m] {
				readers++
			}
		}
		sort.Strings(ev.Peers)
		p.gate.Arm(readers)
		// line up the PinGet of concurrent Unpin calls (if more than one peer goes for the same expired pin,
		// all of them have read it before any LogUnpin); with one peer per pin this just waits out the deadline
		if readers > 1 {
			p.getGate.Arm(readers)
		}
		errs := make(chan error, len(order))
		for _, m := range order {
			go func(m string) {
				cctx, cancel := context.WithTimeout(ctx, 60*time.Second)
				defer cancel()
				errs <- rigs[m].Cluster.StateSync(cctx)
			}(m)
		}
		for range order {
			if err := <-errs; err != nil {
				ev.Err = err.Error()
			}
		}
		ev.Gate = p.gate.Arrived()
		p.gate.Disarm()
		p.getGate.Disarm()
		ev.Ps2 = pins()
		ev.Members2 = members()
		splitAll(&ev)
		rec.Events = append(rec.Events, ev)
		return nil
	}
	concurrent := e.ID%3 != 0
	switch e.Ep.Kind {
	case "fail", "noise":
		metric := "ping"
		if e.Ep.Kind == "noise" {
			metric = "freespace"
		}
		if concurrent {
			if err := alertsAll(metric); err != nil {
				return nil, err
			}
			break
		}
		for _, m := range order {
			if m == e.Ep.Failed {
				continue
			}
			if err := alertAt(m, metric); err != nil {
				return nil, err
			}
		}
	case "remove":
		ev := eventT{Peers: []string{}, Logs: map[string][][2]string{}, Seen: map[string]bool{}, Kind: "remove", At: e.Ep.At, Failed: e.Ep.Failed, Members: members(), Ps: pins(),
			Log: [][2]string{}, Other: [][3]string{}}
		cctx, cancel := context.WithTimeout(ctx, 60*time.Second)
		err := rigs[e.Ep.At].Cluster.PeerRemove(cctx, ids[e.Ep.Failed])
		cancel()
		if err != nil {
			ev.Err = err.Error()
		}
		ev.Ps2 = pins()
		ev.Members2 = members()
		split(&ev)
		rec.Events = append(rec.Events, ev)
	case "remove2":
		for _, t := range []string{e.Ep.Failed, e.Ep.Failed2} {
			ev := eventT{Peers: []string{}, Logs: map[string][][2]string{}, Seen: map[string]bool{}, Kind: "remove", At: e.Ep.At, Failed: t, Members: members(), Ps: pins(),
				Log: [][2]string{}, Other: [][3]string{}}
			cctx, cancel := context.WithTimeout(ctx, 60*time.Second)
			err := rigs[e.Ep.At].Cluster.PeerRemove(cctx, ids[t])
			cancel()
			if err != nil {
				ev.Err = err.Error()
			}
			ev.Ps2 = pins()
			ev.Members2 = members()
			split(&ev)
			rec.Events = append(rec.Events, ev)
		}
	case "sync":
		if concurrent {
			if err := syncsAll(); err != nil {
				return nil, err
			}
			break
		}
		for _, m := range order {
			ev := eventT{Peers: []string{}, Logs: map[string][][2]string{}, Seen: map[string]bool{}, Kind: "sync", At: m, Members: members(), Ps: pins(), Log: [][2]string{}, Other: [][3]string{}}
			cctx, cancel := context.WithTimeout(ctx, 60*time.Second)
			err := rigs[m].Cluster.StateSync(cctx)
			cancel()
			if err != nil {
				ev.Err = err.Error()
			}
			ev.Ps2 = pins()
			ev.Members2 = members()
			split(&ev)
			rec.Events = append(rec.Events, ev)
		}
	default:
		return nil, fmt.Errorf("unknown episode kind %q", e.Ep.Kind)
	}
	time.Sleep(20 * time.Millisecond)
	for _, c := range p.shared.TakeCalls() {
		all = append(all, c)
	}
	for _, c := range all {
		rec.Acts = append(rec.Acts, actT{By: names.PeerName(c.By), Kind: c.Kind, Cid: names.CidName(c.Pin.Cid)})
	}
	rec.PsF = pins()
	return rec, nil
}

func TestDriver(t *testing.T) {
	rig.Quiet()
	res := hx.NewResult()
	defer res.Write()
	eps, err := hx.LoadCases()
	if err != nil {
		t.Fatal(err)
	}
	// the shared pinset is a REAL dsstate over a datastore whose reads can be made to fail
	shared, faults := rig.NewFaultySharedState()
	p := &pools{shared: shared, faults: faults, rng: rand.New(rand.NewSource(hx.Seed()))}
	p.gate = p.shared.GateLists()
	p.getGate = p.shared.GateGets()
	p.getGate.Deadline = 250 * time.Millisecond
	defer p.close()
	outf, err := os.Create(os.Getenv("VERIF_TRACE"))
	if err != nil {
		t.Fatal(err)
	}
	defer outf.Close()
	enc := json.NewEncoder(outf)
	for _, raw := range eps {
		var e episodeT
		if err := json.Unmarshal(raw, &e); err != nil {
			res.Infra("bad episode: %v", err)
			return
		}
		rec, err := runEpisode(p, &e, res)
		if err != nil {
			res.Infra("episode %d: %v", e.ID, err)
			return
		}
		if err := enc.Encode(rec); err != nil {
			res.Infra("write: %v", err)
			return
		}
		// non-trivial: some pin is held by the failed/removed peer, or some pin is expired (sync)
		nt := false
		for _, en := range e.Ps0 {
			for _, a := range en.Allocs {
				if a == e.Ep.Failed && e.Ep.Kind != "sync" {
					nt = true
				}
			}
			if e.Ep.Kind == "sync" && en.Exp == "past" {
				nt = true
			}
		}
		res.Case(map[string]interface{}{"w": e.W, "ep": e.Ep, "ps0": e.Ps0}, nt)
	}
}
