// C04 driver: replays call histories generated from spec/ClusterAPISim.tla (and
// directed scripts) on a real Cluster (real pin / setupPin / PinUpdate / Unpin /
// unpinClusterDag / PinPath / allocate, real dsstate behind a recording
// consensus, scripted metrics, scripted IPFS Resolve/BlockGet) and records
// (environment, pinset before, call, pinset after, result) tuples for
// spec/ClusterAPITrace.tla. No verdict is taken here.
package c04

import (
	"context"
	"encoding/json"
	"fmt"
	"os"
	"sort"
	"testing"
	"time"

	"verifharness/hx"
	"verifharness/rig"

	"github.com/ipfs/ipfs-cluster/api"

	cid "github.com/ipfs/go-cid"
	cbor "github.com/ipfs/go-ipld-cbor"
	peer "github.com/libp2p/go-libp2p-core/peer"
	mh "github.com/multiformats/go-multihash"
)

type envT struct {
	Follower bool              `json:"follower"`
	Dmin     int               `json:"dmin"`
	Dmax     int               `json:"dmax"`
	Strat    string            `json:"strat"`
	MS       map[string]string `json:"ms"`
	Paths    [][2]string       `json:"paths"`
	Blocks   []json.RawMessage `json:"blocks"`   // [cdag, [links]]: the truth about the cluster-DAG
	Fail     []string          `json:"fail"`     // CIDs whose BlockGet fails at the moment
	LogFail  [][2]string       `json:"logfail"`  // <<kind, cid>> consensus operations failing at the moment
	GetFail  []string          `json:"getfail"`  // CIDs whose State.Get fails (C10's fault dimension; always empty here)
	Deferred bool              `json:"deferred"` // the consensus component acknowledges before it commits
}

type callT struct {
	Op      string            `json:"op"`
	Via     string            `json:"via,omitempty"` // "go" (default): exported method; "rpc": the peer's RPC endpoint
	Cid     string            `json:"cid,omitempty"`
	O       *rig.AbsOpts      `json:"o,omitempty"`
	P       *rig.Entry        `json:"p,omitempty"`
	From    string            `json:"from,omitempty"`
	To      string            `json:"to,omitempty"`
	Path    string            `json:"path,omitempty"`
	MS      map[string]string `json:"ms,omitempty"`
	Fail    []string          `json:"fail,omitempty"`
	LogFail [][2]string       `json:"logfail,omitempty"`
}

type scriptT struct {
	ID    int         `json:"id"`
	Src   string      `json:"src"`
	Env   envT        `json:"env"`
	Pre   []rig.Entry `json:"pre"`
	Steps []callT     `json:"steps"`
}

type obsT struct {
	OK     bool        `json:"ok"`
	Ps2    []rig.Entry `json:"ps2"`
	Ret    []rig.Entry `json:"ret"`
	Log    [][2]string `json:"log"`
	Failed [][2]string `json:"failed"` // consensus operations that were attempted and failed
	Win    []winT      `json:"win"`    // flush records: what was acknowledged since the last flush
}

type winT struct {
	Call callT       `json:"call"`
	OK   bool        `json:"ok"`
	Ret  []rig.Entry `json:"ret"`
}

type recT struct {
	ID   int         `json:"id"`
	Step int         `json:"step"`
	Src  string      `json:"src"`
	Env  envT        `json:"env"`
	Ps   []rig.Entry `json:"ps"`
	Call callT       `json:"call"`
	Obs  obsT        `json:"obs"`
	Err  string      `json:"err,omitempty"`
}

type world struct {
	r      *rig.Rig
	proj   *rig.Proj
	n      int
	blocks map[string][]byte // every block of the script's DAGs, by abstract CID name
	ds     *rig.DeferredState
}

// setFail makes BlockGet fail for the named CIDs (fault injection: the connector has no such block) and
// succeed for all other blocks of the script.
func (w *world) setFail(fail []string) {
	m := map[string][]byte{}
	for name, raw := range w.blocks {
		failing := false
		for _, f := range fail {
			if f == name {
				failing = true
			}
		}
		if !failing {
			m[w.proj.N.Cid(name).String()] = raw
		}
	}
	w.r.IPFS.Blocks = m
}

func newWorld(e envT, seed int64) (*world, error) {
	shared := rig.NewSharedState()
	ds := shared.Deferrable()
	h, err := rig.NewHost()
	if err != nil {
		return nil, err
	}
	shared.SetPeers([]peer.ID{h.ID()})
	r, err := rig.NewRig(rig.Opts{Host: h, Shared: shared, Follower: e.Follower, RplMin: e.Dmin, RplMax: e.Dmax,
		Descending: e.Strat == "desc"})
	if err != nil {
		return nil, err
	}
	names := hx.NewNames(seed)
	names.SetPeer("p1", r.ID)
	return &world{r: r, proj: rig.NewProj(names), ds: ds}, nil
}

var metricValue = map[string]string{"v0": "100", "v1": "200", "v2": "300", "nonnum": "abc"}

func (w *world) setMetrics(ms map[string]string) {
	name := w.r.Informer.Name()
	var out []*api.Metric
	peers := make([]string, 0, len(ms))
	for p := range ms {
		peers = append(peers, p)
	}
	sort.Strings(peers)
	for _, p := range peers {
		v, ok := metricValue[ms[p]]
		if !ok {
			continue // "bad": the monitor does not return a metric for this peer
		}
		m := &api.Metric{Name: name, Peer: w.proj.N.Peer(p), Value: v, Valid: true}
		m.SetTTL(time.Hour)
		out = append(out, m)
	}
	w.r.Mon.Set(name, out)
}

// setLogFail injects consensus failures for the named operations.
func (w *world) setLogFail(lf [][2]string) {
	var fs []rig.LogFault
	for _, f := range lf {
		fs = append(fs, rig.LogFault{Kind: f[0], Cid: w.proj.N.Cid(f[1])})
	}
	w.r.Shared.FailOps(fs, 0)
}

// prepare loads environment and initial pinset of a script.
func (w *world) prepare(s *scriptT) error {
	ctx := context.Background()
	N := w.proj.N
	var members []peer.ID
	for _, p := range []string{"p1", "p2", "p3", "p4", "p5"} {
		if _, ok := s.Env.MS[p]; ok {
			members = append(members, N.Peer(p))
		}
	}
	w.r.Shared.SetPeers(members)
	w.r.Shared.FailOps(nil, 0)
	w.ds.Defer(false)
	w.ds.Drop()
	w.r.Shared.Reset()
	w.r.IPFS.Paths = map[string]cid.Cid{}
	for _, pc := range s.Env.Paths {
		w.r.IPFS.Paths[pc[0]] = N.Cid(pc[1])
	}
	w.blocks = map[string][]byte{}
	for _, raw := range s.Env.Blocks {
		var pair []json.RawMessage
		if err := json.Unmarshal(raw, &pair); err != nil || len(pair) != 2 {
			return fmt.Errorf("bad block spec %s", raw)
		}
		var d string
		var links []string
		json.Unmarshal(pair[0], &d)
		json.Unmarshal(pair[1], &links)
		obj := map[string]cid.Cid{}
		for i, l := range links {
			obj[fmt.Sprintf("%d", i)] = N.Cid(l)
		}
		node, err := cbor.WrapObject(obj, mh.SHA2_256, -1)
		if err != nil {
			return err
		}
		// the cluster-DAG block as the sharding adder builds it (a CBOR map of links)
		w.blocks[d] = node.RawData()
		// shard blocks exist too (the code under test never fetches them; failing them must change nothing)
		for _, l := range links {
			w.blocks[l] = []byte("shard-" + l)
		}
	}
	w.setFail(s.Env.Fail)
	for _, e := range s.Pre {
		if err := w.r.Shared.State.Add(ctx, w.proj.Pin(e)); err != nil {
			return err
		}
	}
	w.setMetrics(s.Env.MS)
	w.setLogFail(s.Env.LogFail)
	w.ds.Defer(s.Env.Deferred)
	w.r.Shared.TakeCalls()
	return nil
}

func (w *world) pins() ([]rig.Entry, error) {
	pins, err := w.r.Cluster.Pins(context.Background())
	if err != nil {
		return nil, err
	}
	return w.proj.Entries(pins), nil
}

func (w *world) exec(c *callT) (*api.Pin, error) {
	ctx, cancel := context.WithTimeout(context.Background(), 60*time.Second)
	defer cancel()
	N := w.proj.N
	cl := w.r.Cluster
	if c.Via == "rpc" {
		// exactly what the REST API does: a call to the local peer's RPC server
		var out api.Pin
		var err error
		switch c.Op {
		case "pin":
			err = w.r.RPC().CallContext(ctx, "", "Cluster", "Pin", api.PinWithOpts(N.Cid(c.Cid), w.proj.Options(*c.O)), &out)
		case "unpin":
			err = w.r.RPC().CallContext(ctx, "", "Cluster", "Unpin", api.PinCid(N.Cid(c.Cid)), &out)
		case "pinpath":
			err = w.r.RPC().CallContext(ctx, "", "Cluster", "PinPath", &api.PinPath{PinOptions: w.proj.Options(*c.O), Path: c.Path}, &out)
		case "unpinpath":
			err = w.r.RPC().CallContext(ctx, "", "Cluster", "UnpinPath", &api.PinPath{Path: c.Path}, &out)
		default:
			return nil, fmt.Errorf("op %q has no RPC endpoint", c.Op)
		}
		if err != nil {
			return nil, err
		}
		return &out, nil
	}
	switch c.Op {
	case "pin":
		return cl.Pin(ctx, N.Cid(c.Cid), w.proj.Options(*c.O))
	case "rpcpin":
		var out api.Pin
		err := w.r.RPC().CallContext(ctx, "", "Cluster", "Pin", w.proj.Pin(*c.P), &out)
		if err != nil {
			return nil, err
		}
		return &out, nil
	case "update":
		return cl.PinUpdate(ctx, N.Cid(c.From), N.Cid(c.To), w.proj.Options(*c.O))
	case "unpin":
		return cl.Unpin(ctx, N.Cid(c.Cid))
	case "pinpath":
		return cl.PinPath(ctx, c.Path, w.proj.Options(*c.O))
	case "unpinpath":
		return cl.UnpinPath(ctx, c.Path)
	}
	return nil, fmt.Errorf("unknown op %q", c.Op)
}

func nontrivial(before []rig.Entry, c *callT, ok bool) bool {
	if c.Op != "pin" {
		return true
	}
	for _, e := range before {
		if e.Cid == c.Cid {
			return true // re-pin of an existing entry
		}
	}
	return !ok || c.O.Upd != "" // refused first pin, or pin-with-update
}

func TestDriver(t *testing.T) {
	rig.Quiet()
	res := hx.NewResult()
	defer res.Write()
	scripts, err := hx.LoadCases()
	if err != nil {
		t.Fatal(err)
	}
	worlds := map[string]*world{}
	defer func() {
		for _, w := range worlds {
			w.r.Close()
		}
	}()
	outf, err := os.Create(os.Getenv("VERIF_TRACE"))
	if err != nil {
		t.Fatal(err)
	}
	defer outf.Close()
	enc := json.NewEncoder(outf)
	nrec := 0
	for _, raw := range scripts {
		var s scriptT
		if err := json.Unmarshal(raw, &s); err != nil {
			res.Infra("bad script: %v", err)
			return
		}
		key := fmt.Sprintf("%v/%d/%d/%s", s.Env.Follower, s.Env.Dmin, s.Env.Dmax, s.Env.Strat)
		w := worlds[key]
		if w == nil {
			w, err = newWorld(s.Env, hx.Seed())
			if err != nil {
				res.Infra("cannot build rig %s: %v", key, err)
				return
			}
			worlds[key] = w
		}
		if err := w.prepare(&s); err != nil {
			res.Infra("script %d: %v", s.ID, err)
			return
		}
		env := s.Env
		if env.Fail == nil {
			env.Fail = []string{}
		}
		if env.LogFail == nil {
			env.LogFail = [][2]string{}
		}
		env.GetFail = []string{}
		win := []winT{}
		// flush commits what the deferred consensus has acknowledged and records (committed before, window, after)
		flush := func(step int) bool {
			before, err := w.pins()
			if err == nil {
				err = w.ds.Flush(context.Background())
			}
			var after []rig.Entry
			if err == nil {
				after, err = w.pins()
			}
			if err != nil {
				res.Infra("script %d: flush: %v", s.ID, err)
				return false
			}
			rec := recT{ID: s.ID, Step: step, Src: s.Src, Env: env, Ps: before, Call: callT{Op: "flush"},
				Obs: obsT{OK: true, Ps2: after, Ret: []rig.Entry{}, Log: [][2]string{}, Failed: [][2]string{}, Win: win}}
			win = []winT{}
			if err := enc.Encode(&rec); err != nil {
				res.Infra("write: %v", err)
				return false
			}
			nrec++
			res.Case(map[string]interface{}{"env": key, "ps": before, "flush": rec.Obs.Win}, len(rec.Obs.Win) > 1)
			return true
		}
		if s.Env.Deferred {
			// whatever the script does, its last event is a flush
			s.Steps = append(s.Steps, callT{Op: "flush"})
		}
		for i := range s.Steps {
			c := &s.Steps[i]
			if c.Op == "flush" {
				if !flush(i + 1) {
					return
				}
				continue
			}
			if c.Op == "logfail" {
				env.LogFail = c.LogFail
				if env.LogFail == nil {
					env.LogFail = [][2]string{}
				}
				w.setLogFail(c.LogFail)
				continue
			}
			if c.Op == "blockfail" {
				env.Fail = c.Fail
				if env.Fail == nil {
					env.Fail = []string{}
				}
				w.setFail(c.Fail)
				continue
			}
			if c.Op == "metrics" {
				env.MS = c.MS
				w.setMetrics(c.MS)
				continue
			}
			before, err := w.pins()
			if err != nil {
				res.Infra("script %d: Pins: %v", s.ID, err)
				return
			}
			pin, cerr := w.exec(c)
			after, err := w.pins()
			if err != nil {
				res.Infra("script %d: Pins: %v", s.ID, err)
				return
			}
			rec := recT{ID: s.ID, Step: i + 1, Src: s.Src, Env: env, Ps: before, Call: *c,
				Obs: obsT{OK: cerr == nil, Ps2: after, Ret: []rig.Entry{}, Log: [][2]string{}, Failed: [][2]string{}, Win: []winT{}}}
			if cerr != nil {
				rec.Err = cerr.Error()
			} else if pin != nil {
				rec.Obs.Ret = append(rec.Obs.Ret, w.proj.Entry(pin))
			}
			for _, lc := range w.r.Shared.TakeCalls() {
				if lc.Err != nil {
					rec.Obs.Failed = append(rec.Obs.Failed, [2]string{lc.Kind, w.proj.N.CidName(lc.Pin.Cid)})
					continue
				}
				rec.Obs.Log = append(rec.Obs.Log, [2]string{lc.Kind, w.proj.N.CidName(lc.Pin.Cid)})
			}
			if env.Deferred {
				win = append(win, winT{Call: *c, OK: rec.Obs.OK, Ret: rec.Obs.Ret})
			}
			if err := enc.Encode(&rec); err != nil {
				res.Infra("write: %v", err)
				return
			}
			nrec++
			res.Case(map[string]interface{}{"env": key, "deferred": env.Deferred, "ms": env.MS, "ps": before, "call": c}, nontrivial(before, c, cerr == nil))
		}
	}
	res.Set("c04_steps_recorded", nrec)
}
