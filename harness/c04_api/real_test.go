// C04 "real backends" stage: a small set of the TLC-generated histories is
// executed on real Clusters whose consensus component is real: a single-peer
// raft.Consensus, a crdt.Consensus without batching (both commit before they
// answer: immediate mode) and a crdt.Consensus with batching (acknowledges into
// a batch that is committed when it is old enough: deferred mode, Flush = wait
// until the batch has been committed). The records have the same shape as
// those of TestDriver and are judged by the same TLC predicates at the settled
// points; the consensus call log is not observable here (transcription-level
// checks are left to TestDriver).
package c04

import (
	"context"
	"encoding/json"
	"fmt"
	"io/ioutil"
	"os"
	"testing"
	"time"

	"verifharness/hx"
	"verifharness/rig"

	ipfscluster "github.com/ipfs/ipfs-cluster"
	"github.com/ipfs/ipfs-cluster/api"
	"github.com/ipfs/ipfs-cluster/consensus/raft"

	peer "github.com/libp2p/go-libp2p-core/peer"
)

const batchAge = 150 * time.Millisecond

type realBackend struct {
	name     string
	cl       *ipfscluster.Cluster
	cons     ipfscluster.Consensus
	mon      *rig.FakeMonitor
	id       peer.ID
	deferred bool
	proj     *rig.Proj
	close    func()
}

func newBackend(kind string, seed int64) (*realBackend, error) {
	b := &realBackend{name: kind}
	switch kind {
	case "raft", "raft-noretry":
		key, _, err := rig.NewKey()
		if err != nil {
			return nil, err
		}
		dir, err := ioutil.TempDir("", "verif-c04-raft-")
		if err != nil {
			return nil, err
		}
		tweak := func(cfg *raft.Config) {}
		if kind == "raft-noretry" {
			tweak = func(cfg *raft.Config) { cfg.CommitRetries = 0 }
		}
		p, err := rig.NewRaftPeer(rig.RaftOpts{Key: key, Dir: dir, TweakRaft: tweak, TweakCluster: func(cfg *ipfscluster.Config) {
			cfg.ReplicationFactorMin, cfg.ReplicationFactorMax = 1, 2
			cfg.PeerWatchInterval = time.Hour
		}})
		if err != nil {
			os.RemoveAll(dir)
			return nil, err
		}
		b.cl, b.cons, b.mon, b.id = p.Cluster, p.Cons, p.Mon, p.ID
		b.close = func() { p.Close(); os.RemoveAll(dir) }
	case "crdt", "crdt-batch":
		o := rig.CrdtOpts{RplMin: 1, RplMax: 2}
		if kind == "crdt-batch" {
			o.MaxBatchSize, o.MaxBatchAge = 1000, batchAge
			b.deferred = true
		}
		p, err := rig.NewCrdtPeer(o)
		if err != nil {
			return nil, err
		}
		b.cl, b.cons, b.mon, b.id = p.Cluster, p.Cons, p.Mon, p.ID
		b.close = p.Close
	default:
		return nil, fmt.Errorf("unknown backend %q", kind)
	}
	names := hx.NewNames(seed)
	names.SetPeer("p1", b.id)
	b.proj = rig.NewProj(names)
	return b, nil
}

func (b *realBackend) pins() ([]rig.Entry, error) {
	pins, err := b.cl.Pins(context.Background())
	if err != nil {
		return nil, err
	}
	return b.proj.Entries(pins), nil
}

// settle polls the pinset until it has not changed for `quiet` (generous deadline).
func (b *realBackend) settle(quiet time.Duration) ([]rig.Entry, error) {
	deadline := time.Now().Add(60 * time.Second)
	last, err := b.pins()
	if err != nil {
		return nil, err
	}
	lastJSON, _ := json.Marshal(last)
	since := time.Now()
	for time.Now().Before(deadline) {
		time.Sleep(15 * time.Millisecond)
		cur, err := b.pins()
		if err != nil {
			return nil, err
		}
		curJSON, _ := json.Marshal(cur)
		if string(curJSON) != string(lastJSON) {
			last, lastJSON, since = cur, curJSON, time.Now()
			continue
		}
		if time.Since(since) >= quiet {
			return cur, nil
		}
	}
	return nil, fmt.Errorf("the pinset of %s did not stop changing within 60s", b.name)
}

func (b *realBackend) quiet() time.Duration {
	if b.deferred {
		return 2*batchAge + 100*time.Millisecond // a batch is committed at most batchAge after its first operation
	}
	return 30 * time.Millisecond
}

// load empties the pinset and stores the initial entries, through the consensus component.
func (b *realBackend) load(pre []rig.Entry, ms map[string]string) error {
	ctx := context.Background()
	cur, err := b.cl.Pins(ctx)
	if err != nil {
		return err
	}
	// two steps, each settled: unpin what is there, then store the initial entries (an unpin and a pin of the same CID
	// inside one batch is one of the histories under test, not something the set-up may rely on)
	for _, p := range cur {
		if err := b.cons.LogUnpin(ctx, p); err != nil {
			return err
		}
	}
	if len(cur) > 0 {
		left, err := b.settle(b.quiet())
		if err != nil {
			return err
		}
		if len(left) != 0 {
			return fmt.Errorf("%s: could not empty the pinset (%d entries left)", b.name, len(left))
		}
	}
	for _, e := range pre {
		if err := b.cons.LogPin(ctx, b.proj.Pin(e)); err != nil {
			return err
		}
	}
	got, err := b.settle(b.quiet())
	if err != nil {
		return err
	}
	if len(got) != len(pre) {
		return fmt.Errorf("%s: initial pinset has %d entries, want %d", b.name, len(got), len(pre))
	}
	var out []*api.Metric
	for _, p := range []string{"p1", "p2", "p3"} {
		v, ok := metricValue[ms[p]]
		if !ok {
			continue
		}
		m := &api.Metric{Name: "freespace", Peer: b.proj.N.Peer(p), Value: v, Valid: true}
		m.SetTTL(time.Hour)
		out = append(out, m)
	}
	b.mon.Set("freespace", out)
	return nil
}

func (b *realBackend) exec(c *callT) (*api.Pin, error) {
	ctx := context.Background()
	N := b.proj.N
	switch c.Op {
	case "pin":
		return b.cl.Pin(ctx, N.Cid(c.Cid), b.proj.Options(*c.O))
	case "update":
		return b.cl.PinUpdate(ctx, N.Cid(c.From), N.Cid(c.To), b.proj.Options(*c.O))
	case "unpin":
		return b.cl.Unpin(ctx, N.Cid(c.Cid))
	}
	return nil, fmt.Errorf("op %q is not part of the real-backend histories", c.Op)
}

type realScriptT struct {
	scriptT
	Backend string `json:"backend"`
}

type winPsT struct {
	winT
	Ps []rig.Entry `json:"ps"` // the committed pinset the call saw
}

func TestReal(t *testing.T) {
	rig.Quiet()
	res := hx.NewResult()
	defer res.Write()
	scripts, err := hx.LoadCases()
	if err != nil {
		t.Fatal(err)
	}
	outf, err := os.Create(os.Getenv("VERIF_TRACE"))
	if err != nil {
		t.Fatal(err)
	}
	defer outf.Close()
	enc := json.NewEncoder(outf)
	backends := map[string]*realBackend{}
	defer func() {
		for _, b := range backends {
			b.close()
		}
	}()
	nrec := 0
	aborted := map[string]bool{}
	recorded := map[string]int{}
	for _, raw := range scripts {
		var s realScriptT
		if err := json.Unmarshal(raw, &s); err != nil {
			res.Infra("bad script: %v", err)
			return
		}
		b := backends[s.Backend]
		if b == nil {
			b, err = newBackend(s.Backend, hx.Seed())
			if err != nil {
				res.Infra("cannot build backend %s: %v", s.Backend, err)
				return
			}
			backends[s.Backend] = b
		}
		if aborted[s.Backend] {
			continue
		}
		if err := b.load(s.Pre, s.Env.MS); err != nil {
			// The set-up itself goes through the consensus component under test. When it stops working AFTER steps of
			// this backend have been recorded (they are judged), the rest of this backend's histories is skipped and
			// said so; before that it is an infrastructure problem.
			if recorded[s.Backend] == 0 {
				res.Infra("script %d on %s: %v", s.ID, s.Backend, err)
				return
			}
			aborted[s.Backend] = true
			res.Set("real_backend_aborted:"+s.Backend, err.Error())
			continue
		}
		env := s.Env
		env.Deferred = b.deferred
		if env.Fail == nil {
			env.Fail = []string{}
		}
		if env.LogFail == nil {
			env.LogFail = [][2]string{}
		}
		env.GetFail = []string{}
		win := []winPsT{}
		steps := s.Steps
		if b.deferred {
			steps = append(steps, callT{Op: "flush"})
		}
		for i := range steps {
			c := &steps[i]
			before, err := b.pins()
			if err != nil {
				res.Infra("script %d: Pins: %v", s.ID, err)
				return
			}
			type obsWin struct {
				obsT
				Win []winPsT `json:"win"`
			}
			rec := struct {
				ID   int         `json:"id"`
				Step int         `json:"step"`
				Src  string      `json:"src"`
				Env  envT        `json:"env"`
				Ps   []rig.Entry `json:"ps"`
				Call callT       `json:"call"`
				Obs  obsWin      `json:"obs"`
				Err  string      `json:"err,omitempty"`
			}{ID: s.ID, Step: i + 1, Src: s.Src, Env: env, Ps: before, Call: *c}
			rec.Obs.Ret, rec.Obs.Log, rec.Obs.Failed, rec.Obs.Win = []rig.Entry{}, [][2]string{}, [][2]string{}, []winPsT{}
			if c.Op == "flush" {
				if !b.deferred {
					continue // nothing is pending on a backend that commits before it answers
				}
				after, err := b.settle(b.quiet())
				if err != nil {
					res.Infra("script %d: %v", s.ID, err)
					return
				}
				rec.Obs.OK, rec.Obs.Ps2, rec.Obs.Win = true, after, win
				win = []winPsT{}
			} else {
				pin, cerr := b.exec(c)
				var after []rig.Entry
				if b.deferred {
					after, err = b.pins()
				} else {
					after, err = b.settle(b.quiet())
				}
				if err != nil {
					res.Infra("script %d: %v", s.ID, err)
					return
				}
				rec.Obs.OK, rec.Obs.Ps2 = cerr == nil, after
				if cerr != nil {
					rec.Err = cerr.Error()
				} else if pin != nil {
					rec.Obs.Ret = append(rec.Obs.Ret, b.proj.Entry(pin))
				}
				if b.deferred {
					win = append(win, winPsT{winT: winT{Call: *c, OK: rec.Obs.OK, Ret: rec.Obs.Ret}, Ps: before})
				}
			}
			if err := enc.Encode(&rec); err != nil {
				res.Infra("write: %v", err)
				return
			}
			nrec++
			recorded[s.Backend]++
			res.Case(map[string]interface{}{"backend": s.Backend, "ps": before, "call": c, "win": rec.Obs.Win}, true)
		}
	}
	res.Set("c04_real_backend_steps", nrec)
}
