// C08 driver, part "decoder totality": structured corruptions of real encodings
// and seeded random bytes are fed to every decoder; the outcome of each input is
// recorded (error | value | value-not-reencodable | panic-*) and judged by
// spec/CodecTrace.tla (AllowedOutcomes). This part is SAMPLING, not model
// checking; the evidence says so.
package c08

import (
	"bytes"
	"context"
	"encoding/hex"
	"encoding/json"
	"fmt"
	"io"
	"math/rand"
	"net/url"
	"os"
	"sort"
	"strings"
	"testing"
	"time"

	"github.com/ipfs/ipfs-cluster/api"
	pb "github.com/ipfs/ipfs-cluster/api/pb"
	"github.com/ipfs/ipfs-cluster/consensus/raft"

	logging "github.com/ipfs/go-log/v2"
	"github.com/ugorji/go/codec"
	proto "google.golang.org/protobuf/proto"

	"verifharness/hx"
)

// a decoder under test: dec turns bytes into a value (or an error), enc re-encodes the value.
type decoder struct {
	name string
	fmt  string // pb | msgpack | json | query
	rec  string
	dec  func(b []byte) (interface{}, error)
	enc  func(x interface{}) error
}

func decoders() []decoder {
	ctx := context.Background()
	out := []decoder{
		{name: "pb:Pin", fmt: "pb", rec: "Pin",
			dec: func(b []byte) (interface{}, error) { p := &api.Pin{}; return p, p.ProtoUnmarshal(b) },
			enc: func(x interface{}) error { _, err := x.(*api.Pin).ProtoMarshal(); return err }},
		{name: "pb:snapshot", fmt: "snapshot", rec: "Pin",
			// raft snapshot restore / offline state read: dsstate.Unmarshal then List (decodes every stored pin)
			dec: func(b []byte) (interface{}, error) {
				st := newState()
				if err := st.Unmarshal(bytes.NewReader(b)); err != nil {
					return nil, err
				}
				_, err := st.List(ctx)
				return st, err
			},
			enc: func(x interface{}) error { return x.(interface{ Marshal(io.Writer) error }).Marshal(io.Discard) }},
		{name: "raftlog:LogOp", fmt: "msgpack", rec: "LogOp",
			dec: func(b []byte) (interface{}, error) { op := &raft.LogOp{}; return op, mpDecode(b, op, true) },
			enc: func(x interface{}) error { _, err := mpEncode(x); return err }},
		{name: "export:import", fmt: "json", rec: "Pin",
			// cmdutils importState: json lines -> state.Add (ProtoMarshal)
			dec: func(b []byte) (interface{}, error) {
				st := newState()
				d := json.NewDecoder(bytes.NewReader(b))
				for {
					var p api.Pin
					err := d.Decode(&p)
					if err == io.EOF {
						return st, nil
					}
					if err != nil {
						return nil, err
					}
					if err := st.Add(ctx, &p); err != nil {
						return nil, err
					}
				}
			},
			enc: func(x interface{}) error {
				pins, err := x.(interface {
					List(context.Context) ([]*api.Pin, error)
				}).List(ctx)
				if err != nil {
					return err
				}
				e := json.NewEncoder(io.Discard)
				for _, p := range pins {
					if err := e.Encode(p); err != nil {
						return err
					}
				}
				return nil
			}},
		{name: "query:PinOptions", fmt: "query", rec: "Pin",
			dec: func(b []byte) (interface{}, error) {
				vs, err := url.ParseQuery(string(b))
				if err != nil {
					return nil, err
				}
				po := &api.PinOptions{}
				return po, po.FromQuery(vs)
			},
			enc: func(x interface{}) error { _, err := x.(*api.PinOptions).ToQuery(); return err }},
	}
	names := []string{}
	for n := range kits {
		names = append(names, n)
	}
	sort.Strings(names)
	for _, n := range names {
		k := kits[n]
		out = append(out,
			decoder{name: "msgpack:" + n, fmt: "msgpack", rec: n,
				dec: func(b []byte) (interface{}, error) { y := k.fresh(); return y, mpDecode(b, y, false) },
				enc: func(x interface{}) error { _, err := mpEncode(x); return err }},
			decoder{name: "json:" + n, fmt: "json", rec: n,
				dec: func(b []byte) (interface{}, error) { y := k.fresh(); return y, json.Unmarshal(b, y) },
				enc: func(x interface{}) error { _, err := json.Marshal(x); return err }})
	}
	return out
}

func outcome(d decoder, in []byte) (o string, detail string) {
	stage := "decode"
	defer func() {
		if r := recover(); r != nil {
			o, detail = "panic-"+stage, fmt.Sprint(r)
		}
	}()
	x, err := d.dec(in)
	if err != nil {
		return "error", ""
	}
	stage = "reencode"
	if err := d.enc(x); err != nil {
		return "value-not-reencodable", err.Error()
	}
	return "value", ""
}

type fuzzRow struct {
	Dec     string `json:"dec"`
	Class   string `json:"class"`
	Outcome string `json:"outcome"`
	N       int    `json:"n"`
	Example string `json:"example"` // hex of the first input with this outcome
	Detail  string `json:"detail,omitempty"`
}

type fuzzer struct {
	rows  map[string]*fuzzRow
	total int
	slow  time.Duration
}

// clampLens bounds every 32-bit msgpack length/count header in an input to < 2^20: ugorji/codec, reading from a
// stream as go-libp2p-gorpc does, allocates what a bin32/str32/array32/map32 header announces before it looks
// for the bytes (observed: a 20-byte random input announcing 2.6 GB made the process grow to 9.8 GB RSS).
// That is an amplification, not a crash; feeding it would starve the shared machine. The clamp is applied to
// every input of the msgpack decoders, whatever its class, and is stated in the evidence.
func clampLens(b []byte) []byte {
	var out []byte
	for i := 0; i+4 < len(b); i++ {
		switch b[i] {
		case 0xc6, 0xc9, 0xdb, 0xdd, 0xdf:
			if b[i+1] != 0 || b[i+2] > 0x0f {
				if out == nil {
					out = append([]byte{}, b...)
					b = out
				}
				b[i+1] = 0
				b[i+2] &= 0x0f
			}
		}
	}
	return b
}

func (f *fuzzer) feed(d decoder, class string, in []byte) {
	if d.fmt == "msgpack" || d.fmt == "snapshot" {
		in = clampLens(in)
	}
	t0 := time.Now()
	o, detail := outcome(d, in)
	if dt := time.Since(t0); dt > f.slow {
		f.slow = dt
		if dt > 200*time.Millisecond && os.Getenv("VERIF_DEBUG") != "" {
			fmt.Fprintf(os.Stderr, "slow %v %s %s len=%d %s\n", dt, d.name, class, len(in), hex.EncodeToString(in[:min(len(in), 80)]))
		}
	}
	f.total++
	k := d.name + "|" + class + "|" + o
	r := f.rows[k]
	if r == nil {
		ex := in
		if len(ex) > 4096 {
			ex = ex[:4096]
		}
		r = &fuzzRow{Dec: d.name, Class: class, Outcome: o, Example: hex.EncodeToString(ex), Detail: detail}
		f.rows[k] = r
	}
	r.N++
}

// seeds returns real encodings of rich values of the decoder's record type.
func seeds(e *env, d decoder, cases []caseIn) [][]byte {
	var out [][]byte
	n := 0
	for _, c := range cases {
		if c.Rec != d.rec && !(d.rec == "LogOp" && c.Rec == "Pin") {
			continue
		}
		if c.Fmt != "json" { // one format's cases enumerate the values once
			continue
		}
		n++
		if n%37 != 1 && n > 3 { // a spread of values
			continue
		}
		x := kits[c.Rec].build(e, c.ID, c.V)
		var b []byte
		var err error
		switch {
		case d.name == "pb:Pin":
			b, err = x.(*api.Pin).ProtoMarshal()
		case d.name == "pb:snapshot":
			st := newState()
			if err = st.Add(context.Background(), x.(*api.Pin)); err == nil {
				var buf bytes.Buffer
				err = st.Marshal(&buf)
				b = buf.Bytes()
			}
		case d.name == "raftlog:LogOp":
			b, err = mpEncode(&raft.LogOp{Cid: x.(*api.Pin), Type: raft.LogOpUnpin, TagCtx: []byte{9}})
		case d.fmt == "msgpack":
			b, err = mpEncode(x)
		case d.fmt == "json":
			b, err = json.Marshal(x)
		case d.fmt == "query":
			var q string
			q, err = x.(*api.Pin).PinOptions.ToQuery()
			b = []byte(q)
		}
		if err == nil && len(b) > 0 {
			out = append(out, b)
		}
		if len(out) >= 8 {
			break
		}
	}
	return out
}

var junkJSON = []string{`null`, `0`, `-1`, `1e400`, `18446744073709551616`, `"x"`, `""`, `"\ud800"`, `[]`, `{}`, `true`, `[null]`, `[[]]`,
	`{"/":null}`, `{"/":"x"}`, `{"/":""}`, `"/ip4/999.1.1.1"`, `["/ip4/1.2.3.4/tcp/1"]`, `[""]`, `{"":null}`, `"0001-01-01T00:00:00Z"`,
	`"9999-99-99T00:00:00Z"`, `{"a":1}`, `[{"":{}}]`}

func junkValues() []interface{} {
	return []interface{}{nil, 0, -1, uint64(1<<64 - 1), "x", "", []byte{}, []byte{0xff, 0xfe}, []byte{0x12, 0x20, 1, 2}, []interface{}{},
		map[string]interface{}{}, true, 1.5, []interface{}{nil}, []interface{}{[]interface{}{}}, []interface{}{"x"}, []interface{}{[]byte{0xff}},
		map[string]interface{}{"": nil}, map[string]interface{}{"a": 1}, strings.Repeat("\xff", 40), time.Unix(1, 1)}
}

// structured corruptions of one real encoding
func (f *fuzzer) structured(d decoder, seed []byte, rng *rand.Rand, thorough bool) {
	// truncate at every offset
	for i := 0; i < len(seed); i++ {
		f.feed(d, "truncate", seed[:i])
	}
	// one byte replaced at every offset: wire type flip, length bytes, high bit, syntax
	for i := 0; i < len(seed); i++ {
		for _, nb := range []byte{0x00, 0xff, 0x80, 0x7f, seed[i] ^ 0x01, seed[i] ^ 0x07, seed[i] + 1, rndByte(rng)} {
			if nb == seed[i] {
				continue
			}
			m := append([]byte{}, seed...)
			m[i] = nb
			f.feed(d, "byte", m)
		}
	}
	// oversize length / count inserted at every offset
	var big [][]byte
	switch d.fmt {
	case "pb":
		big = [][]byte{{0xff, 0xff, 0xff, 0xff, 0x0f}, {0xff, 0xff, 0xff, 0xff, 0xff, 0xff, 0xff, 0xff, 0xff, 0x01}, {0x0a, 0xff, 0xff, 0x03}}
	case "msgpack", "snapshot":
		// Announced lengths stay <= 2^20 bytes / 2^16 elements: ugorji/codec allocates what a header announces
		// (observed: 4 GiB and 2-6 s per 68-byte input for an array32 header of 0xffffffff standing where bytes
		// are expected; a map32 header pre-sizes a Go map). That does not crash but would starve the shared machine.
		big = [][]byte{{0xdb, 0x00, 0x0f, 0xff, 0xff}, {0xdd, 0x00, 0x00, 0xff, 0xff}, {0xdf, 0x00, 0x00, 0xff, 0xff}, {0xc6, 0x00, 0x0f, 0xff, 0xff},
			{0xc9, 0x00, 0x0f, 0xff, 0xff, 0x01}, {0xd7, 0xff}, {0xdc, 0xff, 0xff}}
	case "json":
		big = [][]byte{[]byte(`1e999999`), []byte(`"\u0000"`), []byte("\xff\xfe"), []byte(`{"a":`), []byte(`]`)}
	case "query":
		big = [][]byte{[]byte("%zz"), []byte("&origins=/ip4/1"), []byte("&user-allocations=,,x"), []byte("&expire-in=1ns"), []byte("&meta-=x"),
			[]byte("&pin-update=Qm"), []byte("&replication=99999999999999999999"), []byte("&shard-size=-1"), []byte("\xff\xfe")}
	}
	step := 1
	if !thorough && len(seed) > 200 {
		step = 3
	}
	for i := 0; i <= len(seed); i += step {
		for _, ins := range big {
			m := append(append(append([]byte{}, seed[:i]...), ins...), seed[i:]...)
			f.feed(d, "oversize-or-insert", m)
			if i < len(seed) {
				m2 := append(append(append([]byte{}, seed[:i]...), ins...), seed[i+1:]...)
				f.feed(d, "oversize-or-insert", m2)
			}
		}
	}
	// wrong type / invalid identifier per field (generic re-encoding of the real encoding)
	switch d.fmt {
	case "json":
		var m map[string]json.RawMessage
		if json.Unmarshal(seed, &m) == nil {
			for k := range m {
				for _, j := range junkJSON {
					m2 := map[string]json.RawMessage{}
					for a, b := range m {
						m2[a] = b
					}
					m2[k] = json.RawMessage(j)
					b, err := json.Marshal(m2)
					if err == nil {
						f.feed(d, "field-wrong-type", b)
					}
				}
			}
		}
	case "msgpack":
		var m map[string]interface{}
		h := &codec.MsgpackHandle{}
		h.RawToString = false
		if codec.NewDecoderBytes(seed, h).Decode(&m) == nil {
			keys := []string{}
			for k := range m {
				keys = append(keys, k)
			}
			sort.Strings(keys)
			sub := func(path []string, junk interface{}) {
				m2 := deepCopy(m).(map[string]interface{})
				cur := m2
				for _, p := range path[:len(path)-1] {
					nx, ok := cur[p].(map[string]interface{})
					if !ok {
						return
					}
					cur = nx
				}
				cur[path[len(path)-1]] = junk
				if b, err := mpEncode(m2); err == nil {
					f.feed(d, "field-wrong-type", b)
				}
			}
			for _, k := range keys {
				for _, j := range junkValues() {
					sub([]string{k}, j)
				}
				if inner, ok := m[k].(map[string]interface{}); ok { // LogOp.Cid -> Pin fields
					for k2 := range inner {
						for _, j := range junkValues() {
							sub([]string{k, k2}, j)
						}
					}
				}
			}
			// unknown field (ErrorIfNoField decoders must refuse, the others skip)
			for _, j := range junkValues() {
				sub([]string{"zz-unknown"}, j)
			}
		}
	case "pb":
		junkB := [][]byte{nil, {}, {0xff}, {0x12, 0x20, 1, 2}, {0x01, 0x55, 0x12, 0x20}, bytes.Repeat([]byte{0xff}, 64), []byte("QmNotACid"), {0x04, 1, 2, 3, 4}}
		var p pb.Pin
		if proto.Unmarshal(seed, &p) == nil {
			for _, j := range junkB {
				for field := 0; field < 6; field++ {
					q := proto.Clone(&p).(*pb.Pin)
					if q.Options == nil {
						q.Options = &pb.PinOptions{}
					}
					switch field {
					case 0:
						q.Cid = j
					case 1:
						q.Allocations = append(q.Allocations, j)
					case 2:
						q.Reference = j
					case 3:
						q.Options.PinUpdate = j
					case 4:
						q.Options.Origins = append(q.Options.Origins, j)
					case 5:
						q.Options.Metadata = map[string]string{string(j): string(j)}
						q.Options.Name = string(j)
					}
					if b, err := (proto.MarshalOptions{}).Marshal(q); err == nil {
						f.feed(d, "invalid-cid-peer-multiaddr-utf8", b)
					}
				}
			}
			for _, ty := range []pb.Pin_PinType{-1, 5, 63, 64, 1 << 30} {
				q := proto.Clone(&p).(*pb.Pin)
				q.Type = ty
				q.MaxDepth = int32(ty)
				if b, err := proto.Marshal(q); err == nil {
					f.feed(d, "enum-out-of-range", b)
				}
			}
		}
	}
	// non-UTF8 in place of every printable run
	for i := 0; i+2 <= len(seed); i++ {
		if seed[i] >= 'a' && seed[i] <= 'z' && seed[i+1] >= 'a' && seed[i+1] <= 'z' {
			m := append([]byte{}, seed...)
			m[i], m[i+1] = 0xff, 0xc0
			f.feed(d, "non-utf8", m)
		}
	}
}

// rndByte never returns the msgpack array32 marker (see the note on announced lengths above).
func rndByte(rng *rand.Rand) byte {
	for {
		if b := byte(rng.Intn(256)); b != 0xdd {
			return b
		}
	}
}

func min(a, b int) int {
	if a < b {
		return a
	}
	return b
}

func deepCopy(x interface{}) interface{} {
	switch v := x.(type) {
	case map[string]interface{}:
		o := map[string]interface{}{}
		for k, e := range v {
			o[k] = deepCopy(e)
		}
		return o
	case []interface{}:
		o := make([]interface{}, len(v))
		for i, e := range v {
			o[i] = deepCopy(e)
		}
		return o
	}
	return x
}

func (f *fuzzer) nesting(d decoder) {
	depths := []int{10, 1000, 20000}
	for _, n := range depths {
		switch d.fmt {
		case "json":
			f.feed(d, "deep-nesting", []byte(strings.Repeat("[", n)+strings.Repeat("]", n)))
			f.feed(d, "deep-nesting", []byte(strings.Repeat(`{"metadata":`, n)+"1"+strings.Repeat("}", n)))
			f.feed(d, "deep-nesting", []byte(`{"zz":`+strings.Repeat("[", n)+strings.Repeat("]", n)+`}`))
		case "msgpack", "snapshot":
			f.feed(d, "deep-nesting", append(bytes.Repeat([]byte{0x91}, n), 0xc0))
			f.feed(d, "deep-nesting", append(append([]byte{0x81, 0xa2, 'z', 'z'}, bytes.Repeat([]byte{0x91}, n)...), 0xc0))
			f.feed(d, "deep-nesting", append(bytes.Repeat([]byte{0x81, 0xa1, 'c'}, n), 0xc0))
		case "pb":
			// nested length-delimited field 5 (Options) / unknown groups
			b := []byte{}
			for i := 0; i < n && len(b) < 1<<20; i++ {
				l := len(b)
				hdr := []byte{0x2a}
				for l >= 0x80 {
					hdr = append(hdr, byte(l)|0x80)
					l >>= 7
				}
				hdr = append(hdr, byte(l))
				b = append(hdr, b...)
			}
			f.feed(d, "deep-nesting", b)
			f.feed(d, "deep-nesting", bytes.Repeat([]byte{0x7b}, n)) // start-group tags
		case "query":
			f.feed(d, "deep-nesting", []byte(strings.Repeat("meta-a=b&", n)))
			f.feed(d, "deep-nesting", []byte("origins="+strings.Repeat("/ip4/1.2.3.4/tcp/1,", n)))
		}
	}
}

func (f *fuzzer) random(d decoder, seedsB [][]byte, rng *rand.Rand, n int) {
	for i := 0; i < n; i++ {
		b := make([]byte, rng.Intn(96))
		rng.Read(b)
		f.feed(d, "random-bytes", b)
	}
	// random multi-byte mutations / splices of real encodings
	for i := 0; i < n && len(seedsB) > 0; i++ {
		s := append([]byte{}, seedsB[rng.Intn(len(seedsB))]...)
		for k := 1 + rng.Intn(4); k > 0 && len(s) > 0; k-- {
			switch rng.Intn(4) {
			case 0:
				s[rng.Intn(len(s))] = rndByte(rng)
			case 1:
				a := rng.Intn(len(s))
				s = append(s[:a], s[a+rng.Intn(len(s)-a):]...)
			case 2:
				o := seedsB[rng.Intn(len(seedsB))]
				a, b := rng.Intn(len(s)), rng.Intn(len(o))
				s = append(append([]byte{}, s[:a]...), o[b:]...)
			case 3:
				a := rng.Intn(len(s))
				s = append(append(append([]byte{}, s[:a]...), s[a:]...), s[a:]...)
			}
		}
		f.feed(d, "random-mutation", s)
	}
}

func TestDecoderTotality(t *testing.T) {
	logging.SetAllLoggers(logging.LevelPanic) // the decoders log every refused entry
	res := hx.NewResult()
	defer res.Write()
	e := newEnv(hx.Seed())
	out := os.Getenv("VERIF_FUZZ")
	f := &fuzzer{rows: map[string]*fuzzRow{}}

	// replay of one stored input
	if rc, ok := hx.ReplayCase(); ok {
		var r fuzzRow
		if json.Unmarshal(rc, &r) != nil || r.Dec == "" {
			res.Infra("replay file is not a decoder-totality case")
			return
		}
		in, _ := hex.DecodeString(r.Example)
		for _, d := range decoders() {
			if d.name == r.Dec {
				f.feed(d, r.Class, in)
			}
		}
	} else {
		lines, err := hx.LoadCases()
		if err != nil {
			res.Infra("loading cases: %v", err)
			return
		}
		var cases []caseIn
		for i, l := range lines {
			var c caseIn
			if json.Unmarshal(l, &c) == nil && c.Rec != "" {
				c.ID = i
				cases = append(cases, c)
			}
		}
		nrand := hx.EnvInt("VERIF_FUZZ_RANDOM", 3000)
		tStart := time.Now()
		for di, d := range decoders() {
			rng := rand.New(rand.NewSource(hx.Seed()*1000 + int64(di)))
			ss := seeds(e, d, cases)
			if len(ss) == 0 {
				res.Infra("no seed encodings for decoder %s", d.name)
				return
			}
			for _, s := range ss {
				f.structured(d, s, rng, hx.Thorough())
			}
			f.nesting(d)
			f.random(d, ss, rng, nrand)
			if os.Getenv("VERIF_DEBUG") != "" {
				fmt.Fprintf(os.Stderr, "%s: seeds=%d total=%d t=%v\n", d.name, len(ss), f.total, time.Since(tStart))
			}
		}
	}
	keys := []string{}
	for k := range f.rows {
		keys = append(keys, k)
	}
	sort.Strings(keys)
	w, err := os.Create(out)
	if err != nil {
		res.Infra("fuzz output: %v", err)
		return
	}
	defer w.Close()
	enc := json.NewEncoder(w)
	perOutcome := map[string]int{}
	perClass := map[string]int{}
	for _, k := range keys {
		r := f.rows[k]
		enc.Encode(r)
		perOutcome[r.Outcome] += r.N
		perClass[r.Class] += r.N
	}
	// not added to "evaluations": those count the enumerated round-trip cases; this part is sampling
	res.Set("decoder_inputs_sampled", f.total)
	res.Set("decoder_inputs_by_outcome", perOutcome)
	res.Set("decoder_inputs_by_class", perClass)
	res.Set("decoders", len(decoders()))
	res.Set("slowest_decode_ms", f.slow.Milliseconds())
}
