// C08 driver, sequences: several values through ONE encoder/decoder instance - multi-pin states through the
// dsstate snapshot (into a fresh and into a non-empty in-memory datastore) and through the JSON export/import
// stream, and lists of every record type as one msgpack (RPC) / JSON (REST) value. Records what came back
// per slot / index; spec/CodecTrace.tla (BadItems) decides.
package c08

import (
	"bufio"
	"bytes"
	"context"
	"encoding/json"
	"fmt"
	"io"
	"os"
	"reflect"
	"testing"
	"time"
	"unsafe"

	ipfscluster "github.com/ipfs/ipfs-cluster"
	"github.com/ipfs/ipfs-cluster/api"
	"github.com/ipfs/ipfs-cluster/cmdutils"
	"github.com/ipfs/ipfs-cluster/config"
	"github.com/ipfs/ipfs-cluster/consensus/crdt"
	"github.com/ipfs/ipfs-cluster/consensus/raft"
	"github.com/ipfs/ipfs-cluster/datastore/badger"
	"github.com/ipfs/ipfs-cluster/datastore/leveldb"

	"github.com/ipfs/ipfs-cluster/state/dsstate"

	hraft "github.com/hashicorp/raft"
	cid "github.com/ipfs/go-cid"
	rpc "github.com/libp2p/go-libp2p-gorpc"
	libp2praft "github.com/libp2p/go-libp2p-raft"
	logging "github.com/ipfs/go-log/v2"
	peer "github.com/libp2p/go-libp2p-core/peer"

	"verifharness/hx"
)

type seqCase struct {
	Rec   string `json:"rec"`
	Fmt   string `json:"fmt"`
	Items []vals `json:"items"`
	Pre   []vals `json:"pre"`
}

type itemObs struct {
	OK  bool                   `json:"ok"`
	Got map[string]interface{} `json:"got"`
	Err string                 `json:"err,omitempty"`
}

type seqObs struct {
	ID    int       `json:"id"`
	Rec   string    `json:"rec"`
	Fmt   string    `json:"fmt"`
	Items []vals    `json:"items"`
	OK    bool      `json:"ok"`
	Got   []itemObs `json:"got"`
	Extra int       `json:"extra"`
	Stage string    `json:"stage,omitempty"`
	Err   string    `json:"err,omitempty"`
}

func (e *env) slotCid(i int, v vals) cid.Cid { return e.cid(fmt.Sprintf("slot%d", i), v.s("cid")) }

func (e *env) slotPin(id, i int, v vals) *api.Pin {
	p := kits["Pin"].build(e, id*16+i, v).(*api.Pin)
	p.Cid = e.slotCid(i, v)
	return p
}

func (e *env) absSlotPin(i int, p *api.Pin) (o itemObs) {
	defer func() {
		if r := recover(); r != nil {
			o = itemObs{Got: map[string]interface{}{}, Err: fmt.Sprint("panic inspecting: ", r)}
		}
	}()
	g := e.absPin(p)
	g["cid"] = e.cidClass(fmt.Sprintf("slot%d", i), p.Cid, "undef")
	return itemObs{OK: true, Got: g}
}

// runState: a multi-pin state through the snapshot or the export stream.
func runState(e *env, id int, c seqCase) (o seqObs) {
	o = seqObs{ID: id, Rec: c.Rec, Fmt: c.Fmt, Items: c.Items, Got: []itemObs{}}
	stage := "store"
	defer func() {
		if r := recover(); r != nil {
			o.OK, o.Stage, o.Err = false, "panic-"+stage, fmt.Sprint(r)
		}
	}()
	fail := func(err error) seqObs { o.Stage, o.Err = stage, err.Error(); return o }
	ctx := context.Background()
	src := newState()
	for i, v := range c.Items {
		if err := src.Add(ctx, e.slotPin(id, i+1, v)); err != nil {
			return fail(err)
		}
	}
	dst := newState() // sync-wrapped MapDatastore: keeps the slices it is given, like consensus/raft's inmem store
	switch c.Fmt {
	case "snapshot-fresh", "snapshot-nonempty":
		if c.Fmt == "snapshot-nonempty" {
			for i, v := range c.Pre {
				p := e.slotPin(id, i+1, v)
				p.Cid = e.slotCid(i+1, c.Items[i]) // the stale value lives under the CID the snapshot will overwrite
				if err := dst.Add(ctx, p); err != nil {
					return fail(err)
				}
			}
		}
		stage = "marshal"
		var buf bytes.Buffer
		if err := src.Marshal(&buf); err != nil {
			return fail(err)
		}
		stage = "unmarshal"
		if err := dst.Unmarshal(&buf); err != nil {
			return fail(err)
		}
	case "export":
		stage = "export"
		pins, err := src.List(ctx)
		if err != nil {
			return fail(err)
		}
		var buf bytes.Buffer
		enc := json.NewEncoder(&buf)
		for _, p := range pins {
			if err := enc.Encode(p); err != nil {
				return fail(err)
			}
		}
		stage = "import"
		dec := json.NewDecoder(&buf)
		for {
			var p api.Pin
			err := dec.Decode(&p)
			if err == io.EOF {
				break
			}
			if err != nil {
				return fail(err)
			}
			if err := dst.Add(ctx, &p); err != nil {
				return fail(err)
			}
		}
	case "export-real":
		return runRealExport(e, id, c, o)
	case "raftlog-fsm":
		return o // handled by runFSM (two observations)
	default:
		return fail(fmt.Errorf("unknown state format %s", c.Fmt))
	}
	stage = "read"
	o.OK = true
	found := 0
	for i, v := range c.Items {
		p, err := dst.Get(ctx, e.slotCid(i+1, v))
		if err != nil {
			o.Got = append(o.Got, itemObs{Got: map[string]interface{}{}, Err: err.Error()})
			continue
		}
		found++
		o.Got = append(o.Got, e.absSlotPin(i+1, p))
	}
	all, err := dst.List(ctx)
	if err != nil {
		return fail(err)
	}
	o.Extra = len(all) - found
	if o.Extra < 0 { // entries List() could not decode but Get() could: report as they are
		o.Extra = 0
	}
	return o
}

// runList: []*rec as one msgpack / JSON value.
func runList(e *env, id int, c seqCase) (o seqObs) {
	o = seqObs{ID: id, Rec: c.Rec, Fmt: c.Fmt, Items: c.Items, Got: []itemObs{}}
	stage := "encode"
	defer func() {
		if r := recover(); r != nil {
			o.OK, o.Stage, o.Err = false, "panic-"+stage, fmt.Sprint(r)
		}
	}()
	k := kits[c.Rec]
	elemT := reflect.TypeOf(k.fresh()) // *T
	in := reflect.MakeSlice(reflect.SliceOf(elemT), 0, len(c.Items))
	for i, v := range c.Items {
		x := k.build(e, id*16+i+1, v)
		if c.Rec == "Pin" {
			x.(*api.Pin).Cid = e.slotCid(i+1, v)
		}
		in = reflect.Append(in, reflect.ValueOf(x))
	}
	outp := reflect.New(reflect.SliceOf(elemT))
	var err error
	switch c.Fmt {
	case "msgpack":
		var b []byte
		if b, err = mpEncode(in.Interface()); err == nil {
			stage = "decode"
			err = mpDecode(b, outp.Interface(), false)
		}
	case "json":
		var buf bytes.Buffer
		if err = json.NewEncoder(&buf).Encode(in.Interface()); err == nil {
			stage = "decode"
			err = json.NewDecoder(&buf).Decode(outp.Interface())
		}
	default:
		err = fmt.Errorf("unknown list format %s", c.Fmt)
	}
	if err != nil {
		o.Stage, o.Err = stage, err.Error()
		return o
	}
	stage = "inspect"
	o.OK = true
	out := outp.Elem()
	for i := 0; i < out.Len(); i++ {
		el := out.Index(i)
		if el.IsNil() {
			o.Got = append(o.Got, itemObs{Got: map[string]interface{}{}, Err: "nil element"})
			continue
		}
		func() {
			defer func() {
				if r := recover(); r != nil {
					o.Got = append(o.Got, itemObs{Got: map[string]interface{}{}, Err: fmt.Sprint("panic inspecting: ", r)})
				}
			}()
			if c.Rec == "Pin" {
				o.Got = append(o.Got, e.absSlotPin(i+1, el.Interface().(*api.Pin)))
				return
			}
			o.Got = append(o.Got, itemObs{OK: true, Got: k.abstract(e, el.Interface())})
		}()
	}
	return o
}

func TestSequences(t *testing.T) {
	logging.SetAllLoggers(logging.LevelPanic)
	res := hx.NewResult()
	defer res.Write()
	lines, err := hx.LoadCases()
	if err != nil {
		res.Infra("loading sequence cases: %v", err)
		return
	}
	f, err := os.Create(os.Getenv("VERIF_TRACE"))
	if err != nil {
		res.Infra("opening trace: %v", err)
		return
	}
	defer f.Close()
	w := bufio.NewWriterSize(f, 1<<20)
	defer w.Flush()
	enc := json.NewEncoder(w)
	e := newEnv(hx.Seed())
	per := map[string]int{}
	items := 0
	skipped := 0
	for i, l := range lines {
		var c seqCase
		if err := json.Unmarshal(l, &c); err != nil || c.Rec == "" || len(c.Items) == 0 {
			res.Infra("sequence case line %d: %v", i+1, err)
			return
		}
		var o seqObs
		func() {
			defer func() {
				if r := recover(); r != nil {
					res.Infra("cannot build sequence case %d: %v", i+1, r)
				}
			}()
			switch c.Fmt {
			case "pubsub-live":
				var o2 seqObs
				o, o2 = runLive(e, i+1, c)
				if o2.Rec != "" {
					enc.Encode(o2)
					per[c.Rec+"/"+o2.Fmt]++
				}
			case "raftlog-fsm":
				var o2 seqObs
				o, o2 = runFSM(e, i+1, c)
				if o2.Rec != "" {
					enc.Encode(o2)
					per[c.Rec+"/"+o2.Fmt]++
				}
			case "snapshot-fresh", "snapshot-nonempty", "export", "export-real":
				o = runState(e, i+1, c)
			default:
				o = runList(e, i+1, c)
			}
		}()
		if seqInfra != "" {
			res.Infra("%s", seqInfra)
			return
		}
		if o.Stage == "skipped" && o.Rec == "" {
			skipped++
			continue
		}
		if o.Rec == "" {
			return
		}
		if err := enc.Encode(o); err != nil {
			res.Infra("writing trace: %v", err)
			return
		}
		per[c.Rec+"/"+c.Fmt]++
		items += len(c.Items)
		// non-trivial: the items are not all the same value
		distinct := false
		for _, v := range c.Items[1:] {
			if !reflect.DeepEqual(v, c.Items[0]) {
				distinct = true
			}
		}
		res.Case(map[string]interface{}{"rec": c.Rec, "fmt": c.Fmt, "items": c.Items}, distinct)
	}
	res.Set("sequences_executed", len(lines)-skipped)
	res.Set("live_sequences_skipped_after_losses", skipped)
	res.Set("sequence_items_executed", items)
	res.Set("sequences_per_record_and_format", per)
}

// ---- the real state export / import of cmdutils (Raft peer, offline) -------------------------------------------

func raftMgr(base string, ident *config.Identity) (cmdutils.StateManager, *cmdutils.Configs, error) {
	cl := &ipfscluster.Config{}
	if err := cl.Default(); err != nil {
		return nil, nil, err
	}
	cl.SetBaseDir(base)
	rc := &raft.Config{}
	rc.Default()
	rc.SetBaseDir(base)
	cc := &crdt.Config{}
	cc.Default()
	cc.SetBaseDir(base)
	bc := &badger.Config{}
	bc.Default()
	bc.SetBaseDir(base)
	lc := &leveldb.Config{}
	lc.Default()
	lc.SetBaseDir(base)
	cfgs := &cmdutils.Configs{Cluster: cl, Raft: rc, Crdt: cc, Badger: bc, LevelDB: lc}
	m, err := cmdutils.NewStateManager("raft", "", ident, cfgs)
	return m, cfgs, err
}

// runRealExport: peer A holds the pins in a Raft snapshot; A.ExportState -> B.ImportState (the real importState
// loop) -> offline read of B's state.
func runRealExport(e *env, id int, c seqCase, o seqObs) (out seqObs) {
	out = o
	stage := "setup"
	defer func() {
		if r := recover(); r != nil {
			out.OK, out.Stage, out.Err = false, "panic-"+stage, fmt.Sprint(r)
		}
	}()
	fail := func(err error) seqObs { out.Stage, out.Err = stage, err.Error(); return out }
	ctx := context.Background()
	base, err := os.MkdirTemp("", "verif-c08-exp-")
	if err != nil {
		panic(err)
	}
	defer os.RemoveAll(base)
	identA := &config.Identity{ID: e.names.Peer("expA")}
	identB := &config.Identity{ID: e.names.Peer("expB")}
	ma, cfgA, err := raftMgr(base+"/a", identA)
	if err != nil {
		return fail(err)
	}
	mb, _, err := raftMgr(base+"/b", identB)
	if err != nil {
		return fail(err)
	}
	src := newState()
	for i, v := range c.Items {
		if err := src.Add(ctx, e.slotPin(id, i+1, v)); err != nil {
			return fail(err)
		}
	}
	if err := raft.SnapshotSave(cfgA.Raft, src, []peer.ID{identA.ID}); err != nil {
		return fail(err)
	}
	stage = "export"
	var buf bytes.Buffer
	if err := ma.ExportState(&buf); err != nil {
		return fail(err)
	}
	stage = "import"
	if err := mb.ImportState(&buf); err != nil {
		return fail(err)
	}
	stage = "read"
	store, err := mb.GetStore()
	if err != nil {
		return fail(err)
	}
	defer store.Close()
	dst, err := mb.GetOfflineState(store)
	if err != nil {
		return fail(err)
	}
	out.OK = true
	found := 0
	for i, v := range c.Items {
		p, err := dst.Get(ctx, e.slotCid(i+1, v))
		if err != nil {
			out.Got = append(out.Got, itemObs{Got: map[string]interface{}{}, Err: err.Error()})
			continue
		}
		found++
		out.Got = append(out.Got, e.absSlotPin(i+1, p))
	}
	all, err := dst.List(ctx)
	if err != nil {
		return fail(err)
	}
	if out.Extra = len(all) - found; out.Extra < 0 {
		out.Extra = 0
	}
	return out
}

// ---- decode into a reused target: the real go-libp2p-raft FSM over consensus/raft LogOps -----------------------

type trackerSvc struct{ ch chan *api.Pin }

func (t *trackerSvc) Track(ctx context.Context, in *api.Pin, out *struct{}) error {
	q := hx.ClonePin(in)
	q.Origins = in.Origins
	t.ch <- q
	return nil
}

func (t *trackerSvc) Untrack(ctx context.Context, in *api.Pin, out *struct{}) error {
	t.ch <- nil
	return nil
}

func setUnexported(obj interface{}, field string, val interface{}) error {
	v := reflect.ValueOf(obj).Elem().FieldByName(field)
	if !v.IsValid() {
		return fmt.Errorf("%T has no field %q", obj, field)
	}
	reflect.NewAt(v.Type(), unsafe.Pointer(v.UnsafeAddr())).Elem().Set(reflect.ValueOf(val))
	return nil
}

type fsmRig struct {
	svc *trackerSvc
	st  *dsstate.State
	fsm *libp2praft.FSM
	idx uint64
	err error
}

var theFSM *fsmRig
var seqInfra string

// getFSM builds once what raft.NewConsensus builds (consensus.go): dsstate on an in-memory store,
// libp2praft.NewOpLog(state, &LogOp{consensus: cc}) and its FSM. consensus/rpcClient are unexported and set by
// reflection (a rename is an infrastructure error).
func getFSM() *fsmRig {
	if theFSM != nil {
		return theFSM
	}
	r := &fsmRig{svc: &trackerSvc{ch: make(chan *api.Pin, 64)}}
	theFSM = r
	srv := rpc.NewServer(nil, "/verif/c08")
	if r.err = srv.RegisterName("PinTracker", r.svc); r.err != nil {
		return r
	}
	client := rpc.NewClientWithServer(nil, "/verif/c08", srv)
	r.st = newState()
	baseOp := &raft.LogOp{}
	cc := &raft.Consensus{}
	if r.err = setUnexported(cc, "rpcClient", client); r.err != nil {
		return r
	}
	if r.err = setUnexported(baseOp, "consensus", cc); r.err != nil {
		return r
	}
	r.fsm = libp2praft.NewOpLog(r.st, baseOp).FSM()
	return r
}

// apply commits one LogOp, encoded as go-libp2p-raft's encodeOp does, and waits for the tracker hand-off.
func (r *fsmRig) apply(kind raft.LogOpType, p *api.Pin) (*api.Pin, error) {
	data, err := mpEncode(&raft.LogOp{Cid: p, Type: kind})
	if err != nil {
		return nil, fmt.Errorf("encode: %v", err)
	}
	r.idx++
	if out := r.fsm.Apply(&hraft.Log{Index: r.idx, Term: 1, Type: hraft.LogCommand, Data: data}); out == nil {
		return nil, fmt.Errorf("FSM.Apply failed")
	}
	select {
	case q := <-r.svc.ch:
		return q, nil
	case <-time.After(30 * time.Second):
		return nil, fmt.Errorf("no tracker hand-off")
	}
}

func runFSM(e *env, id int, c seqCase) (o, ot seqObs) {
	o = seqObs{ID: id, Rec: c.Rec, Fmt: c.Fmt, Items: c.Items, Got: []itemObs{}}
	ot = seqObs{ID: id, Rec: c.Rec, Fmt: c.Fmt + "-track", Items: c.Items, Got: []itemObs{}}
	stage := "setup"
	defer func() {
		if r := recover(); r != nil {
			o.OK, o.Stage, o.Err = false, "panic-"+stage, fmt.Sprint(r)
			ot.OK, ot.Stage, ot.Err = false, "panic-"+stage, fmt.Sprint(r)
		}
	}()
	r := getFSM()
	if r.err != nil {
		seqInfra = "raft FSM rig: " + r.err.Error()
		return seqObs{}, seqObs{}
	}
	ctx := context.Background()
	stage = "apply"
	o.OK, ot.OK = true, true
	for i, v := range c.Items {
		handed, err := r.apply(raft.LogOpPin, e.slotPin(id, i+1, v))
		if err != nil {
			o.OK, o.Stage, o.Err = false, stage, err.Error()
			ot.OK, ot.Stage, ot.Err = false, stage, err.Error()
			break
		}
		if handed == nil {
			ot.Got = append(ot.Got, itemObs{Got: map[string]interface{}{}, Err: "untrack instead of track"})
		} else {
			ot.Got = append(ot.Got, e.absSlotPin(i+1, handed))
		}
	}
	stage = "read"
	found := 0
	if o.OK {
		for i, v := range c.Items {
			p, err := r.st.Get(ctx, e.slotCid(i+1, v))
			if err != nil {
				o.Got = append(o.Got, itemObs{Got: map[string]interface{}{}, Err: err.Error()})
				continue
			}
			found++
			o.Got = append(o.Got, e.absSlotPin(i+1, p))
		}
		if all, err := r.st.List(ctx); err == nil && len(all) > found {
			o.Extra = len(all) - found
		}
	}
	// unpin everything again through the log: the next case decodes on top of these entries
	stage = "unpin"
	for i, v := range c.Items {
		r.apply(raft.LogOpUnpin, api.PinCid(e.slotCid(i+1, v)))
	}
	return o, ot
}
