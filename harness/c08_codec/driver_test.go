// C08 driver, part R: executes every case TLC enumerated from spec/Codec.tla on
// the real encoder/decoder pair of each boundary and records what came back
// (abstracted) for spec/CodecTrace.tla. The driver never compares with an
// expected value.
package c08

import (
	"bufio"
	"bytes"
	"context"
	"encoding/json"
	"fmt"
	"io"
	"net/url"
	"os"
	"sort"
	"testing"

	"github.com/ipfs/ipfs-cluster/api"
	"github.com/ipfs/ipfs-cluster/consensus/raft"
	"github.com/ipfs/ipfs-cluster/state/dsstate"

	ds "github.com/ipfs/go-datastore"
	dssync "github.com/ipfs/go-datastore/sync"
	"github.com/ugorji/go/codec"

	"verifharness/hx"
)

type caseIn struct {
	ID  int             `json:"id"`
	Rec string          `json:"rec"`
	Fmt string          `json:"fmt"`
	V   vals            `json:"v"`
	Exp json.RawMessage `json:"exp,omitempty"`
}

type obs struct {
	ID      int                    `json:"id"`
	Rec     string                 `json:"rec"`
	Fmt     string                 `json:"fmt"`
	V       vals                   `json:"v"`
	OK      bool                   `json:"ok"`
	Got     map[string]interface{} `json:"got"`
	Stage   string                 `json:"stage,omitempty"`
	Err     string                 `json:"err,omitempty"`
	Culprit []string               `json:"culprit,omitempty"`
}

type header struct {
	Hdr  bool            `json:"hdr"`
	N    int             `json:"n"`
	Base map[string]vals `json:"base"`
}

func newState() *dsstate.State {
	st, err := dsstate.New(dssync.MutexWrap(ds.NewMapDatastore()), "/c08", dsstate.DefaultHandle())
	if err != nil {
		panic(err)
	}
	return st
}

// msgpack exactly as go-libp2p-gorpc (stream_wrap.go) and pubsubmon configure it: a zero MsgpackHandle.
func mpEncode(x interface{}) ([]byte, error) {
	var buf bytes.Buffer
	err := codec.NewEncoder(&buf, &codec.MsgpackHandle{}).Encode(x)
	return buf.Bytes(), err
}

func mpDecode(b []byte, into interface{}, errorIfNoField bool) error {
	h := &codec.MsgpackHandle{}
	h.ErrorIfNoField = errorIfNoField // go-libp2p-raft codec.go: decode()
	return codec.NewDecoder(bytes.NewReader(b), h).Decode(into)
}

type failure struct {
	stage string
	err   string
}

func (f *failure) Error() string { return f.stage + ": " + f.err }

// roundTrip runs the real encoder and decoder of one boundary. It returns the decoded value.
func roundTrip(rec, fmt_ string, x interface{}, k kit) (out interface{}, fail *failure) {
	stage := "encode"
	defer func() {
		if r := recover(); r != nil {
			out, fail = nil, &failure{"panic-" + stage, fmt.Sprint(r)}
		}
	}()
	bad := func(err error) (interface{}, *failure) { return nil, &failure{stage, err.Error()} }
	ctx := context.Background()
	switch fmt_ {
	case "msgpack", "pubsub":
		b, err := mpEncode(x)
		if err != nil {
			return bad(err)
		}
		stage = "decode"
		y := k.fresh()
		if err := mpDecode(b, y, false); err != nil {
			return bad(err)
		}
		return y, nil
	case "json":
		var buf bytes.Buffer
		if err := json.NewEncoder(&buf).Encode(x); err != nil {
			return bad(err)
		}
		stage = "decode"
		y := k.fresh()
		if err := json.NewDecoder(&buf).Decode(y); err != nil {
			return bad(err)
		}
		return y, nil
	case "raftlog":
		op := &raft.LogOp{Cid: x.(*api.Pin), Type: raft.LogOpPin, TagCtx: []byte{1, 2, 3}}
		b, err := mpEncode(op)
		if err != nil {
			return bad(err)
		}
		stage = "decode"
		var op2 raft.LogOp
		if err := mpDecode(b, &op2, true); err != nil {
			return bad(err)
		}
		if op2.Cid == nil || op2.Type != raft.LogOpPin {
			return bad(fmt.Errorf("log operation lost its pin or type (type=%d)", op2.Type))
		}
		return op2.Cid, nil
	case "pb":
		p := x.(*api.Pin)
		st := newState()
		if err := st.Add(ctx, p); err != nil {
			return bad(err)
		}
		stage = "snapshot"
		var buf bytes.Buffer
		if err := st.Marshal(&buf); err != nil {
			return bad(err)
		}
		st2 := newState()
		if err := st2.Unmarshal(&buf); err != nil {
			return bad(err)
		}
		stage = "decode"
		y, err := st2.Get(ctx, p.Cid)
		if err != nil {
			return bad(err)
		}
		return y, nil
	case "export":
		// cmdutils exportState / importState: List -> json lines -> Decode -> Add
		p := x.(*api.Pin)
		st := newState()
		if err := st.Add(ctx, p); err != nil {
			return bad(err)
		}
		pins, err := st.List(ctx)
		if err != nil {
			return bad(err)
		}
		if len(pins) != 1 {
			return bad(fmt.Errorf("state lists %d pins after adding one", len(pins)))
		}
		var buf bytes.Buffer
		enc := json.NewEncoder(&buf)
		for _, q := range pins {
			if err := enc.Encode(q); err != nil {
				return bad(err)
			}
		}
		stage = "decode"
		st2 := newState()
		dec := json.NewDecoder(&buf)
		for {
			var q api.Pin
			err := dec.Decode(&q)
			if err == io.EOF {
				break
			}
			if err != nil {
				return bad(err)
			}
			if err := st2.Add(ctx, &q); err != nil {
				return bad(err)
			}
		}
		y, err := st2.Get(ctx, p.Cid)
		if err != nil {
			return bad(err)
		}
		return y, nil
	case "query":
		p := x.(*api.Pin)
		q, err := p.PinOptions.ToQuery()
		if err != nil {
			return bad(err)
		}
		stage = "decode"
		vs, err := url.ParseQuery(q)
		if err != nil {
			return bad(err)
		}
		var po api.PinOptions
		if err := po.FromQuery(vs); err != nil {
			return bad(err)
		}
		return &api.Pin{PinOptions: po}, nil
	}
	return nil, &failure{"driver", "unknown format " + fmt_}
}

func runCase(e *env, c caseIn) (o obs, infra error) {
	o = obs{ID: c.ID, Rec: c.Rec, Fmt: c.Fmt, V: c.V, Got: map[string]interface{}{}}
	k, ok := kits[c.Rec]
	if !ok {
		return o, fmt.Errorf("unknown record type %q", c.Rec)
	}
	var x interface{}
	func() {
		defer func() {
			if r := recover(); r != nil {
				infra = fmt.Errorf("cannot build case %d: %v", c.ID, r)
			}
		}()
		x = k.build(e, c.ID, c.V)
	}()
	if infra != nil {
		return o, infra
	}
	y, fail := roundTrip(c.Rec, c.Fmt, x, k)
	if fail != nil {
		o.Stage, o.Err = fail.stage, fail.err
		return o, nil
	}
	func() {
		defer func() {
			if r := recover(); r != nil {
				o.Stage, o.Err = "panic-inspect", fmt.Sprint(r)
			}
		}()
		o.Got = k.abstract(e, y)
		o.OK = true
	}()
	return o, nil
}

// culprits names the fields whose reset to the base value makes a refusal disappear
// (diagnosis for the violation key only; the verdict is TLC's).
func culprits(e *env, c caseIn, base vals) []string {
	out := []string{}
	if base == nil {
		return out
	}
	for f, bv := range base {
		if bytes.Equal(bv, c.V[f]) {
			continue
		}
		v2 := vals{}
		for k, x := range c.V {
			v2[k] = x
		}
		v2[f] = bv
		c2 := c
		c2.V = v2
		if o, err := runCase(e, c2); err == nil && o.OK {
			out = append(out, f)
		}
	}
	sort.Strings(out)
	return out
}

func TestRoundTrip(t *testing.T) {
	res := hx.NewResult()
	defer res.Write()
	lines, err := hx.LoadCases()
	if err != nil {
		res.Infra("loading cases: %v", err)
		return
	}
	f, err := os.Create(os.Getenv("VERIF_TRACE"))
	if err != nil {
		res.Infra("opening trace: %v", err)
		return
	}
	defer f.Close()
	w := bufio.NewWriterSize(f, 1<<20)
	defer w.Flush()
	e := newEnv(hx.Seed())
	var hdr header
	enc := json.NewEncoder(w)
	n := 0
	perFmt := map[string]int{}
	refused := 0
	for i, l := range lines {
		var probe struct {
			Hdr bool `json:"hdr"`
		}
		json.Unmarshal(l, &probe)
		if probe.Hdr {
			if err := json.Unmarshal(l, &hdr); err != nil {
				res.Infra("header: %v", err)
				return
			}
			continue
		}
		var c caseIn
		if err := json.Unmarshal(l, &c); err != nil {
			res.Infra("case line %d: %v", i+1, err)
			return
		}
		if c.ID == 0 {
			c.ID = i
		}
		o, ierr := runCase(e, c)
		if ierr != nil {
			res.Infra("%v", ierr)
			return
		}
		if !o.OK {
			refused++
			o.Culprit = culprits(e, c, hdr.Base[c.Rec])
		}
		if err := enc.Encode(o); err != nil {
			res.Infra("writing trace: %v", err)
			return
		}
		n++
		perFmt[c.Rec+"/"+c.Fmt]++
		// non-trivial: a value that is not a base value (every generated case differs from a base in >= 1 field
		// unless it is the base itself)
		res.Case(map[string]interface{}{"rec": c.Rec, "fmt": c.Fmt, "v": c.V}, !isBase(c.V, hdr.Base[c.Rec]))
	}
	res.Set("round_trips_executed", n)
	res.Set("round_trips_per_record_and_format", perFmt)
	res.Set("round_trips_refused_by_code", refused)
}

func isBase(v, base vals) bool {
	if base == nil {
		return false
	}
	for f, bv := range base {
		if !bytes.Equal(bv, v[f]) {
			return false
		}
	}
	return true
}
