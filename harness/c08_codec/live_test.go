// C08 driver, bytes in flight: metrics published back to back by a real pubsubmon.Monitor on a real two-peer
// gossipsub (configured as clusterhost.go does: signed messages, strict verification). Recorded is what the
// remote monitor and the publisher's own monitor hold afterwards; spec/CodecTrace.tla (BadItems) decides.
package c08

import (
	"context"
	"fmt"
	"strings"
	"time"

	"github.com/ipfs/ipfs-cluster/api"
	"github.com/ipfs/ipfs-cluster/monitor/pubsubmon"

	libp2p "github.com/libp2p/go-libp2p"
	host "github.com/libp2p/go-libp2p-core/host"
	peer "github.com/libp2p/go-libp2p-core/peer"
	rpc "github.com/libp2p/go-libp2p-gorpc"
	pubsub "github.com/libp2p/go-libp2p-pubsub"
)

type liveRig struct {
	a, b *pubsubmon.Monitor
	ha   host.Host
	hb   host.Host
	err  error
}

var theLive *liveRig
var liveLosses int

const liveDeadline = 25 * time.Second

func has(m *pubsubmon.Monitor, name string) *api.Metric {
	l := m.LatestMetrics(context.Background(), name)
	if len(l) == 0 {
		return nil
	}
	return l[0]
}

func waitBoth(r *liveRig, names []string, d time.Duration) bool {
	deadline := time.Now().Add(d)
	for {
		all := true
		for _, n := range names {
			if has(r.a, n) == nil || has(r.b, n) == nil {
				all = false
				break
			}
		}
		if all {
			return true
		}
		if time.Now().After(deadline) {
			return false
		}
		time.Sleep(2 * time.Millisecond)
	}
}

func getLive() *liveRig {
	if theLive != nil {
		return theLive
	}
	r := &liveRig{}
	theLive = r
	ctx := context.Background()
	mk := func() (host.Host, *pubsubmon.Monitor, error) {
		h, err := libp2p.New(ctx, libp2p.ListenAddrStrings("/ip4/127.0.0.1/tcp/0"))
		if err != nil {
			return nil, nil, err
		}
		ps, err := pubsub.NewGossipSub(ctx, h, pubsub.WithMessageSigning(true), pubsub.WithStrictSignatureVerification(true))
		if err != nil {
			return nil, nil, err
		}
		cfg := &pubsubmon.Config{}
		cfg.Default()
		m, err := pubsubmon.New(ctx, cfg, ps, nil)
		if err != nil {
			return nil, nil, err
		}
		m.SetClient(rpc.NewClient(h, "/verif/c08/none"))
		return h, m, nil
	}
	if r.ha, r.a, r.err = mk(); r.err != nil {
		return r
	}
	if r.hb, r.b, r.err = mk(); r.err != nil {
		return r
	}
	if r.err = r.ha.Connect(ctx, peer.AddrInfo{ID: r.hb.ID(), Addrs: r.hb.Addrs()}); r.err != nil {
		return r
	}
	// warm-up: until a metric published on A shows up on both sides
	deadline := time.Now().Add(90 * time.Second)
	for k := 0; ; k++ {
		n := fmt.Sprintf("warm#%d", k)
		m := &api.Metric{Name: n, Peer: r.ha.ID(), Value: "w", Valid: true}
		m.SetTTL(time.Hour)
		r.a.PublishMetric(ctx, m)
		if waitBoth(r, []string{n}, 300*time.Millisecond) {
			break
		}
		if time.Now().After(deadline) {
			r.err = fmt.Errorf("the two monitors never saw each other's metrics")
			return r
		}
	}
	return r
}

func (e *env) absLiveMetric(m *api.Metric) itemObs {
	c := *m
	if i := strings.LastIndex(c.Name, "#"); i >= 0 {
		c.Name = c.Name[:i]
	}
	return itemObs{OK: true, Got: e.absMetric(c)}
}

// runLive publishes the items back to back and reads both stores.
func runLive(e *env, id int, c seqCase) (remote, self seqObs) {
	remote = seqObs{ID: id, Rec: c.Rec, Fmt: c.Fmt, Items: c.Items, Got: []itemObs{}}
	self = seqObs{ID: id, Rec: c.Rec, Fmt: c.Fmt + "-self", Items: c.Items, Got: []itemObs{}}
	if liveLosses >= 3 {
		// three bursts already lost metrics (each waited out the full deadline): the verdict is in, do not
		// spend the deadline on every remaining case
		return seqObs{Stage: "skipped"}, seqObs{}
	}
	r := getLive()
	if r.err != nil {
		seqInfra = "live pubsub rig: " + r.err.Error()
		return seqObs{}, seqObs{}
	}
	ctx := context.Background()
	names := make([]string, len(c.Items))
	ms := make([]*api.Metric, len(c.Items))
	for i, v := range c.Items {
		m := e.metric(v)
		m.Name = fmt.Sprintf("%s#%d.%d", m.Name, id, i)
		names[i] = m.Name
		ms[i] = &m
	}
	for _, m := range ms { // the burst
		if err := r.a.PublishMetric(ctx, m); err != nil {
			remote.Stage, remote.Err = "publish", err.Error()
			self.Stage, self.Err = "publish", err.Error()
			return remote, self
		}
	}
	if !waitBoth(r, names, liveDeadline) {
		// before a loss counts: is the path alive at all? one metric, alone
		probe := &api.Metric{Name: fmt.Sprintf("probe#%d", id), Peer: r.ha.ID(), Value: "p", Valid: true}
		probe.SetTTL(time.Hour)
		r.a.PublishMetric(ctx, probe)
		if !waitBoth(r, []string{probe.Name}, liveDeadline) {
			seqInfra = "live pubsub rig: the path between the monitors stopped delivering (probe lost)"
			return seqObs{}, seqObs{}
		}
		liveLosses++
	}
	remote.OK, self.OK = true, true
	for _, n := range names {
		for _, side := range []struct {
			m *pubsubmon.Monitor
			o *seqObs
		}{{r.b, &remote}, {r.a, &self}} {
			if got := has(side.m, n); got != nil {
				side.o.Got = append(side.o.Got, e.absLiveMetric(got))
			} else {
				side.o.Got = append(side.o.Got, itemObs{Got: map[string]interface{}{}, Err: "published metric never arrived"})
			}
		}
	}
	return remote, self
}
