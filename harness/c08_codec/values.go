// Package c08 binds spec/Codec.tla to the real encoders and decoders.
//
// values.go: concretisation of the abstract field classes of the specification
// (seeded) and abstraction of decoded Go values back to classes. There is no
// notion of "expected" in this package: the driver reports what came back and
// TLC (spec/CodecTrace.tla) decides.
package c08

import (
	"bytes"
	"crypto/sha256"
	"encoding/binary"
	"encoding/json"
	"fmt"
	"math"
	"math/rand"
	"sort"
	"strconv"
	"strings"
	"time"

	"github.com/ipfs/ipfs-cluster/api"

	cid "github.com/ipfs/go-cid"
	peer "github.com/libp2p/go-libp2p-core/peer"
	protocol "github.com/libp2p/go-libp2p-core/protocol"
	ma "github.com/multiformats/go-multiaddr"
	mh "github.com/multiformats/go-multihash"

	"verifharness/hx"
)

type vals map[string]json.RawMessage

func (v vals) s(f string) string {
	var s string
	if err := json.Unmarshal(v[f], &s); err != nil {
		panic(fmt.Sprintf("case field %q is not a string: %s", f, string(v[f])))
	}
	return s
}

func (v vals) l(f string) []string {
	var s []string
	if err := json.Unmarshal(v[f], &s); err != nil {
		panic(fmt.Sprintf("case field %q is not a list: %s", f, string(v[f])))
	}
	return s
}

type env struct {
	seed  int64
	names *hx.Names
	whole time.Time
	sub   time.Time
	addrs map[string]ma.Multiaddr
}

func newEnv(seed int64) *env {
	e := &env{seed: seed, names: hx.NewNames(seed), addrs: map[string]ma.Multiaddr{}}
	r := rand.New(rand.NewSource(seed))
	sec := int64(1600000000 + r.Intn(2000000000))
	e.whole = time.Unix(sec, 0)
	e.sub = time.Unix(sec, int64(1+r.Intn(999999998)))
	mk := func(s string) ma.Multiaddr {
		m, err := ma.NewMultiaddr(s)
		if err != nil {
			panic(err)
		}
		return m
	}
	e.addrs["o1"] = mk(fmt.Sprintf("/ip4/10.%d.%d.%d/tcp/%d/p2p/%s", r.Intn(256), r.Intn(256), r.Intn(256), 1+r.Intn(65535), peer.Encode(e.names.Peer("po1"))))
	e.addrs["o2"] = mk(fmt.Sprintf("/dns4/h%d.example.org/udp/%d/quic/p2p/%s", r.Intn(1000), 1+r.Intn(65535), peer.Encode(e.names.Peer("po2"))))
	e.addrs["a1"] = mk(fmt.Sprintf("/ip6/fe80::%x/tcp/%d", 1+r.Intn(65535), 1+r.Intn(65535)))
	e.addrs["a2"] = mk(fmt.Sprintf("/ip4/192.168.%d.%d/tcp/%d/p2p/%s", r.Intn(256), r.Intn(256), 1+r.Intn(65535), peer.Encode(e.names.Peer("pa2"))))
	return e
}

func (e *env) h(label string) []byte {
	s := sha256.Sum256([]byte(fmt.Sprintf("c08/%d/%s", e.seed, label)))
	return s[:]
}

func (e *env) u64(label string) uint64 { return binary.BigEndian.Uint64(e.h(label)) }

// coin is a seeded per-(case, label) boolean used for choices the abstract value leaves open
// (nil vs empty slice, time zone).
func (e *env) coin(id int, label string) bool { return e.h(fmt.Sprintf("coin/%d/%s", id, label))[0]&1 == 1 }

// ---- strings ----------------------------------------------------------------

func (e *env) str(field, class string) string {
	tag := fmt.Sprintf("%x", e.h("str/" + field)[:3])
	switch class {
	case "":
		return ""
	case "ascii":
		return field + "-" + tag
	case "unicode":
		return "ñ é&=+%,;/?#☃ \"<>\\'\t" + field + tag + " 𝄞"
	case "number":
		return strconv.FormatUint(e.u64("num/"+field)%1000000000, 10)
	}
	panic("unknown string class " + class)
}

func (e *env) strClass(field, got string, classes ...string) string {
	if len(classes) == 0 {
		classes = []string{"", "ascii", "unicode", "number"}
	}
	for _, c := range classes {
		if e.str(field, c) == got {
			return c
		}
	}
	return "?" + got
}

// ---- cids -------------------------------------------------------------------

func (e *env) cid(field, class string) cid.Cid {
	switch class {
	case "v0", "k0":
		h, _ := mh.Encode(e.h("cid0/"+field), mh.SHA2_256)
		return cid.NewCidV0(h)
	case "v1", "k1":
		h, _ := mh.Encode(e.h("cid1/"+field), mh.SHA2_256)
		codecs := []uint64{cid.Raw, cid.DagProtobuf, cid.DagCBOR}
		return cid.NewCidV1(codecs[int(e.u64("cidcodec/"+field)%3)], h)
	}
	return cid.Undef
}

func (e *env) cidClass(field string, c cid.Cid, undef string) string {
	if !c.Defined() {
		return undef
	}
	for _, k := range []string{"v0", "v1"} {
		if e.cid(field, k).KeyString() == c.KeyString() {
			return k
		}
	}
	return "?" + c.String()
}

// ---- peers, addresses -----------------------------------------------------------

func (e *env) peers(id int, field string, names []string) []peer.ID {
	if len(names) == 0 {
		if e.coin(id, "nil/"+field) {
			return nil
		}
		return []peer.ID{}
	}
	return e.names.Peers(names)
}

func (e *env) peerNames(ps []peer.ID) []string {
	out := []string{}
	for _, p := range ps {
		if p == "" {
			out = append(out, "?empty")
			continue
		}
		out = append(out, e.names.PeerName(p))
	}
	return out
}

func (e *env) maddrs(id int, field string, names []string) []ma.Multiaddr {
	if len(names) == 0 {
		if e.coin(id, "nil/"+field) {
			return nil
		}
		return []ma.Multiaddr{}
	}
	out := make([]ma.Multiaddr, len(names))
	for i, n := range names {
		out[i] = e.addrs[n]
	}
	return out
}

func (e *env) maddrName(m ma.Multiaddr) (s string) {
	defer func() {
		if r := recover(); r != nil {
			s = "?unusable"
		}
	}()
	if m == nil {
		return "nil"
	}
	b := m.Bytes()
	for _, n := range []string{"o1", "o2", "a1", "a2"} {
		if bytes.Equal(e.addrs[n].Bytes(), b) {
			return n
		}
	}
	return "?" + m.String()
}

func (e *env) maddrNames(ms []ma.Multiaddr) []string {
	out := []string{}
	for _, m := range ms {
		out = append(out, e.maddrName(m))
	}
	return out
}

func (e *env) apiAddrs(id int, field string, names []string) []api.Multiaddr {
	ms := e.maddrs(id, field, names)
	if ms == nil {
		return nil
	}
	out := make([]api.Multiaddr, len(ms))
	for i, m := range ms {
		out[i] = api.NewMultiaddrWithValue(m)
	}
	return out
}

func (e *env) apiAddrNames(ms []api.Multiaddr) []string {
	out := []string{}
	for _, m := range ms {
		out = append(out, e.maddrName(m.Multiaddr))
	}
	return out
}

// ---- times ------------------------------------------------------------------

func (e *env) time(id int, field, class string) time.Time {
	var t time.Time
	switch class {
	case "zero":
		return time.Time{}
	case "unix0":
		t = time.Unix(0, 0)
	case "whole":
		t = e.whole
	case "subsec":
		t = e.sub
	default:
		panic("unknown time class " + class)
	}
	if e.coin(id, "tz/"+field) {
		return t.In(time.FixedZone("", 2*3600+1800))
	}
	return t.UTC()
}

func (e *env) timeClass(t time.Time) string {
	switch {
	case t.IsZero():
		return "zero"
	case t.Equal(time.Unix(0, 0)):
		return "unix0"
	case t.Equal(e.whole):
		return "whole"
	case t.Equal(e.sub):
		return "subsec"
	}
	return "?" + t.UTC().Format(time.RFC3339Nano)
}

// ---- numbers ----------------------------------------------------------------

func (e *env) u64Class(field, class string) uint64 {
	switch class {
	case "0":
		return 0
	case "typ":
		return 1 + e.u64("u64/"+field)%(1<<40)
	case "max":
		return math.MaxUint64
	}
	panic("unknown uint class " + class)
}

func (e *env) u64Name(field string, x uint64) string {
	for _, c := range []string{"0", "typ", "max"} {
		if e.u64Class(field, c) == x {
			return c
		}
	}
	return "?" + strconv.FormatUint(x, 10)
}

func (e *env) i64Class(field, class string) int64 {
	switch class {
	case "0":
		return 0
	case "typ":
		return 1600000000000000000 + int64(e.u64("i64/"+field)%1000000000000000000)
	case "max":
		return math.MaxInt64
	case "neg":
		return -1 - int64(e.u64("i64n/"+field)%1000000000000)
	}
	panic("unknown int class " + class)
}

func (e *env) i64Name(field string, x int64) string {
	for _, c := range []string{"0", "typ", "max", "neg"} {
		if e.i64Class(field, c) == x {
			return c
		}
	}
	return "?" + strconv.FormatInt(x, 10)
}

// ---- metadata ---------------------------------------------------------------

func (e *env) meta(class string) map[string]string {
	ka, kb := e.str("metakey-a", "unicode"), e.str("metakey-b", "ascii")
	vx, vy := e.str("metaval-x", "ascii"), e.str("metaval-y", "unicode")
	switch class {
	case "none":
		return nil
	case "empty":
		return map[string]string{}
	case "ax":
		return map[string]string{ka: vx}
	case "ex":
		return map[string]string{"": vx}
	case "ae":
		return map[string]string{ka: ""}
	case "two":
		return map[string]string{ka: vx, kb: vy}
	case "mk-inner":
		return map[string]string{"x-meta-y": vx}
	case "mk-start":
		return map[string]string{"meta-meta-a": vx}
	case "mk-word":
		return map[string]string{"meta": vx}
	case "mk-dash":
		return map[string]string{"meta-": vx}
	case "mk-collide":
		return map[string]string{"meta-a": vx, "a": vy}
	case "mk-long":
		return map[string]string{strings.Repeat("k", 1990) + e.str("metakey-long", "ascii"): vy}
	case "mk-special":
		return map[string]string{"%+ =&;#?/%41%zz" + e.str("metakey-sp", "unicode"): vx, "meta-%2B": vy}
	}
	panic("unknown metadata class " + class)
}

func (e *env) metaClass(m map[string]string) string {
	if m == nil {
		return "none"
	}
	for _, c := range []string{"empty", "ax", "ex", "ae", "two", "mk-inner", "mk-start", "mk-word", "mk-dash", "mk-collide", "mk-long", "mk-special"} {
		w := e.meta(c)
		if len(w) != len(m) {
			continue
		}
		same := true
		for k, v := range w {
			if v2, ok := m[k]; !ok || v2 != v {
				same = false
			}
		}
		if same {
			return c
		}
	}
	b, _ := json.Marshal(m)
	return "?" + string(b)
}

// ---- tracker status, pin type --------------------------------------------------

var statusByName = map[string]api.TrackerStatus{
	"undefined": api.TrackerStatusUndefined, "cluster_error": api.TrackerStatusClusterError,
	"pin_error": api.TrackerStatusPinError, "unpin_error": api.TrackerStatusUnpinError,
	"pinned": api.TrackerStatusPinned, "pinning": api.TrackerStatusPinning, "unpinning": api.TrackerStatusUnpinning,
	"unpinned": api.TrackerStatusUnpinned, "remote": api.TrackerStatusRemote, "pin_queued": api.TrackerStatusPinQueued,
	"unpin_queued": api.TrackerStatusUnpinQueued, "sharded": api.TrackerStatusSharded,
	"unexpectedly_unpinned": api.TrackerStatusUnexpectedlyUnpinned,
}

func statusName(st api.TrackerStatus) string {
	for n, s := range statusByName {
		if s == st {
			return n
		}
	}
	return "?" + strconv.Itoa(int(st))
}

var typeByName = map[string]api.PinType{"data": api.DataType, "meta": api.MetaType, "clusterdag": api.ClusterDAGType, "shard": api.ShardType}

func typeName(t api.PinType) string {
	for n, s := range typeByName {
		if s == t {
			return n
		}
	}
	return "?" + strconv.FormatUint(uint64(t), 10)
}

func modeName(m api.PinMode) string {
	switch m {
	case api.PinModeRecursive:
		return "recursive"
	case api.PinModeDirect:
		return "direct"
	}
	return "?" + strconv.Itoa(int(m))
}

func atoi(s string) int {
	n, err := strconv.Atoi(s)
	if err != nil {
		panic(err)
	}
	return n
}

// =============================================================================
// record kits: build (abstract -> concrete) and abstract (concrete -> abstract)
// =============================================================================

type kit struct {
	build    func(e *env, id int, v vals) interface{}
	fresh    func() interface{}
	abstract func(e *env, x interface{}) map[string]interface{}
}

var kits = map[string]kit{
	"Pin": {
		build: func(e *env, id int, v vals) interface{} {
			p := &api.Pin{}
			p.Cid = e.cid("cid", v.s("cid"))
			p.Type = typeByName[v.s("type")]
			p.MaxDepth = api.PinDepth(atoi(v.s("depth")))
			if v.s("mode") == "direct" {
				p.Mode = api.PinModeDirect
			}
			p.ReplicationFactorMin = atoi(v.s("rmin"))
			p.ReplicationFactorMax = atoi(v.s("rmax"))
			p.Name = e.str("name", v.s("name"))
			p.ShardSize = e.u64Class("shard", v.s("shard"))
			p.Allocations = e.peers(id, "allocs", v.l("allocs"))
			p.UserAllocations = e.peers(id, "ualloc", v.l("ualloc"))
			p.ExpireAt = e.time(id, "expire", v.s("expire"))
			p.Metadata = e.meta(v.s("meta"))
			p.PinUpdate = e.cid("update", v.s("update"))
			p.Origins = e.maddrs(id, "origins", v.l("origins"))
			if r := v.s("ref"); r != "nil" {
				c := e.cid("ref", r)
				p.Reference = &c
			}
			return p
		},
		fresh:    func() interface{} { return &api.Pin{} },
		abstract: func(e *env, x interface{}) map[string]interface{} { return e.absPin(x.(*api.Pin)) },
	},
	"PinInfo": {
		build: func(e *env, id int, v vals) interface{} {
			return &api.PinInfo{Cid: e.cid("cid", v.s("cid")), Name: e.str("name", v.s("name")), Peer: e.names.Peer(v.s("peer")),
				PinInfoShort: api.PinInfoShort{PeerName: e.str("peername", v.s("peername")), Status: statusByName[v.s("status")],
					TS: e.time(id, "ts", v.s("ts")), Error: e.str("error", v.s("error"))}}
		},
		fresh: func() interface{} { return &api.PinInfo{} },
		abstract: func(e *env, x interface{}) map[string]interface{} {
			p := x.(*api.PinInfo)
			return map[string]interface{}{"cid": e.cidClass("cid", p.Cid, "undef"), "name": e.strClass("name", p.Name),
				"peer": e.peerNames([]peer.ID{p.Peer})[0], "peername": e.strClass("peername", p.PeerName),
				"status": statusName(p.Status), "ts": e.timeClass(p.TS), "error": e.strClass("error", p.Error)}
		},
	},
	"GlobalPinInfo": {
		build: func(e *env, id int, v vals) interface{} {
			g := &api.GlobalPinInfo{Cid: e.cid("cid", v.s("cid")), Name: e.str("name", v.s("name"))}
			pm := v.l("pm")
			if len(pm) > 0 || e.coin(id, "nil/pm") {
				g.PeerMap = map[string]*api.PinInfoShort{}
			}
			for _, pn := range pm {
				g.PeerMap[peer.Encode(e.names.Peer(pn))] = &api.PinInfoShort{PeerName: e.str("peername", v.s("peername")),
					Status: statusByName[v.s("status")], TS: e.time(id, "ts/"+pn, v.s("ts")), Error: e.str("error", v.s("error"))}
			}
			return g
		},
		fresh: func() interface{} { return &api.GlobalPinInfo{} },
		abstract: func(e *env, x interface{}) map[string]interface{} {
			g := x.(*api.GlobalPinInfo)
			out := map[string]interface{}{"cid": e.cidClass("cid", g.Cid, "undef"), "name": e.strClass("name", g.Name)}
			pm := []string{}
			agree := func(field, val string) {
				if old, ok := out[field]; ok && old != val {
					out[field] = "?mixed:" + old.(string) + "/" + val
					return
				}
				out[field] = val
			}
			for k, s := range g.PeerMap {
				p, err := peer.Decode(k)
				if err != nil {
					pm = append(pm, "?"+k)
				} else {
					pm = append(pm, e.names.PeerName(p))
				}
				if s == nil {
					agree("status", "?nil-entry")
					continue
				}
				agree("peername", e.strClass("peername", s.PeerName))
				agree("status", statusName(s.Status))
				agree("ts", e.timeClass(s.TS))
				agree("error", e.strClass("error", s.Error))
			}
			sort.Strings(pm)
			out["pm"] = pm
			for _, f := range []string{"peername", "status", "ts", "error"} {
				if _, ok := out[f]; !ok {
					out[f] = "n/a"
				}
			}
			return out
		},
	},
	"ID": {
		build: func(e *env, id int, v vals) interface{} {
			x := &api.ID{ID: e.names.Peer(v.s("id")), Addresses: e.apiAddrs(id, "addrs", v.l("addrs")),
				ClusterPeers: e.peers(id, "cpeers", v.l("cpeers")), ClusterPeersAddresses: e.apiAddrs(id, "cpaddrs", v.l("cpaddrs")),
				Version: e.str("version", v.s("version")), Commit: e.str("commit", v.s("commit")),
				RPCProtocolVersion: protocol.ID(e.str("rpcproto", v.s("rpcproto"))), Error: e.str("error", v.s("error")),
				Peername: e.str("peername", v.s("peername"))}
			switch v.s("ipfs") {
			case "up":
				x.IPFS = &api.IPFSID{ID: e.names.Peer("pipfs"), Addresses: e.apiAddrs(id, "ipfsaddrs", []string{"a1", "a2"})}
			case "up-noaddrs":
				x.IPFS = &api.IPFSID{ID: e.names.Peer("pipfs"), Addresses: e.apiAddrs(id, "ipfsaddrs", nil)}
			case "down":
				x.IPFS = &api.IPFSID{Error: e.str("ipfserr", "unicode")}
			}
			return x
		},
		fresh: func() interface{} { return &api.ID{} },
		abstract: func(e *env, x interface{}) map[string]interface{} {
			d := x.(*api.ID)
			ipfs := "nil"
			if d.IPFS != nil {
				an := e.apiAddrNames(d.IPFS.Addresses)
				switch {
				case d.IPFS.ID == e.names.Peer("pipfs") && len(an) == 2 && an[0] == "a1" && an[1] == "a2" && d.IPFS.Error == "":
					ipfs = "up"
				case d.IPFS.ID == e.names.Peer("pipfs") && len(an) == 0 && d.IPFS.Error == "":
					ipfs = "up-noaddrs"
				case d.IPFS.ID == "" && len(an) == 0 && d.IPFS.Error == e.str("ipfserr", "unicode"):
					ipfs = "down"
				default:
					ipfs = fmt.Sprintf("?id=%q addrs=%v err=%q", string(d.IPFS.ID), an, d.IPFS.Error)
				}
			}
			return map[string]interface{}{"id": e.peerNames([]peer.ID{d.ID})[0], "addrs": e.apiAddrNames(d.Addresses),
				"cpeers": e.peerNames(d.ClusterPeers), "cpaddrs": e.apiAddrNames(d.ClusterPeersAddresses),
				"version": e.strClass("version", d.Version), "commit": e.strClass("commit", d.Commit),
				"rpcproto": e.strClass("rpcproto", string(d.RPCProtocolVersion)), "error": e.strClass("error", d.Error),
				"ipfs": ipfs, "peername": e.strClass("peername", d.Peername)}
		},
	},
	"Metric": {
		build:    func(e *env, id int, v vals) interface{} { m := e.metric(v); return &m },
		fresh:    func() interface{} { return &api.Metric{} },
		abstract: func(e *env, x interface{}) map[string]interface{} { return e.absMetric(*x.(*api.Metric)) },
	},
	"Alert": {
		build: func(e *env, id int, v vals) interface{} {
			return &api.Alert{Metric: e.metric(v), TriggeredAt: e.time(id, "trig", v.s("trig"))}
		},
		fresh: func() interface{} { return &api.Alert{} },
		abstract: func(e *env, x interface{}) map[string]interface{} {
			a := x.(*api.Alert)
			out := e.absMetric(a.Metric)
			out["trig"] = e.timeClass(a.TriggeredAt)
			return out
		},
	},
	"AddedOutput": {
		build: func(e *env, id int, v vals) interface{} {
			return &api.AddedOutput{Name: e.str("name", v.s("name")), Cid: e.cid("cid", v.s("cid")),
				Bytes: e.u64Class("bytes", v.s("bytes")), Size: e.u64Class("size", v.s("size"))}
		},
		fresh: func() interface{} { return &api.AddedOutput{} },
		abstract: func(e *env, x interface{}) map[string]interface{} {
			a := x.(*api.AddedOutput)
			return map[string]interface{}{"name": e.strClass("name", a.Name), "cid": e.cidClass("cid", a.Cid, "undef"),
				"bytes": e.u64Name("bytes", a.Bytes), "size": e.u64Name("size", a.Size)}
		},
	},
	"RepoGC": {
		build: func(e *env, id int, v vals) interface{} {
			g := &api.RepoGC{Peer: e.names.Peer(v.s("peer")), Peername: e.str("peername", v.s("peername")), Error: e.str("error", v.s("error"))}
			ks := v.l("keys")
			if len(ks) > 0 || e.coin(id, "nil/keys") {
				g.Keys = []api.IPFSRepoGC{}
			}
			for _, k := range ks {
				if k == "e" {
					g.Keys = append(g.Keys, api.IPFSRepoGC{Error: e.str("gcerr", "unicode")})
				} else {
					g.Keys = append(g.Keys, api.IPFSRepoGC{Key: e.cid("gckey", k)})
				}
			}
			return g
		},
		fresh: func() interface{} { return &api.RepoGC{} },
		abstract: func(e *env, x interface{}) map[string]interface{} {
			g := x.(*api.RepoGC)
			ks := []string{}
			for _, k := range g.Keys {
				switch {
				case !k.Key.Defined() && k.Error == e.str("gcerr", "unicode"):
					ks = append(ks, "e")
				case k.Key.Defined() && k.Error == "" && k.Key.KeyString() == e.cid("gckey", "k0").KeyString():
					ks = append(ks, "k0")
				case k.Key.Defined() && k.Error == "" && k.Key.KeyString() == e.cid("gckey", "k1").KeyString():
					ks = append(ks, "k1")
				default:
					ks = append(ks, fmt.Sprintf("?key=%s err=%q", k.Key, k.Error))
				}
			}
			return map[string]interface{}{"peer": e.peerNames([]peer.ID{g.Peer})[0], "peername": e.strClass("peername", g.Peername),
				"keys": ks, "error": e.strClass("error", g.Error)}
		},
	},
}

func (e *env) metric(v vals) api.Metric {
	return api.Metric{Name: e.str("name", v.s("name")), Peer: e.names.Peer(v.s("peer")), Value: e.str("value", v.s("value")),
		Expire: e.i64Class("expire", v.s("expire")), Valid: v.s("valid") == "true", ReceivedAt: e.i64Class("received", v.s("received"))}
}

func (e *env) absMetric(m api.Metric) map[string]interface{} {
	return map[string]interface{}{"name": e.strClass("name", m.Name), "peer": e.peerNames([]peer.ID{m.Peer})[0],
		"value": e.strClass("value", m.Value), "expire": e.i64Name("expire", m.Expire), "valid": strconv.FormatBool(m.Valid),
		"received": e.i64Name("received", m.ReceivedAt)}
}

func (e *env) absPin(p *api.Pin) map[string]interface{} {
	ref := "nil"
	if p.Reference != nil {
		ref = e.cidClass("ref", *p.Reference, "undef")
	}
	return map[string]interface{}{
		"cid": e.cidClass("cid", p.Cid, "undef"), "type": typeName(p.Type), "depth": strconv.Itoa(int(p.MaxDepth)),
		"mode": modeName(p.Mode), "rmin": strconv.Itoa(p.ReplicationFactorMin), "rmax": strconv.Itoa(p.ReplicationFactorMax),
		"name": e.strClass("name", p.Name), "shard": e.u64Name("shard", p.ShardSize),
		"allocs": e.peerNames(p.Allocations), "ualloc": e.peerNames(p.UserAllocations),
		"expire": e.timeClass(p.ExpireAt), "meta": e.metaClass(p.Metadata), "update": e.cidClass("update", p.PinUpdate, "none"),
		"origins": e.maddrNames(p.Origins), "ref": ref,
	}
}
