package rig

import (
	"context"
	"fmt"
	"io/ioutil"
	"os"
	"time"

	ipfscluster "github.com/ipfs/ipfs-cluster"
	"github.com/ipfs/ipfs-cluster/allocator/ascendalloc"
	"github.com/ipfs/ipfs-cluster/allocator/descendalloc"

	logging "github.com/ipfs/go-log/v2"
	libp2p "github.com/libp2p/go-libp2p"
	host "github.com/libp2p/go-libp2p-core/host"
	peer "github.com/libp2p/go-libp2p-core/peer"
	rpc "github.com/libp2p/go-libp2p-gorpc"
)

// Quiet silences the repository's loggers (allocation errors etc. are
// expected by the thousands in enumerated runs).
func Quiet() {
	logging.SetAllLoggers(logging.LevelFatal)
	for _, n := range []string{"cluster", "restapi", "ipfsproxy", "ipfshttp", "pintracker", "optracker", "monitor",
		"raft", "crdt", "consensus", "libp2p-raft", "adder", "shardingdags", "singledags", "pubsubmon", "p2p-gorpc",
		"dsstate", "config", "service", "pstoremgr", "diskinfo", "numpininfo", "allocator", "apitypes", "observations"} {
		logging.SetLogLevel(n, "fatal")
	}
}

// Opts configures NewRig.
type Opts struct {
	Shared       *SharedState // nil: a fresh one
	Descending   bool         // descendalloc instead of ascendalloc
	Follower     bool
	NoRepin      bool
	RplMin       int
	RplMax       int
	InformerName string
	InformerTTL  time.Duration
	PingInterval time.Duration
	Tracker      ipfscluster.PinTracker   // nil: FakeTracker
	IPFS         ipfscluster.IPFSConnector // nil: FakeIPFS
	Monitor      ipfscluster.PeerMonitor   // nil: FakeMonitor
	Host         host.Host                 // nil: fresh loopback host
	Tweak        func(cfg *ipfscluster.Config)
	NeverReady   bool // the consensus never becomes ready; NewRig then does not wait for Ready()
}

// Rig is one real Cluster with its fake surroundings.
type Rig struct {
	Cluster  *ipfscluster.Cluster
	Host     host.Host
	ID       peer.ID
	Cons     *FakeConsensus
	Shared   *SharedState
	Mon      *FakeMonitor
	IPFS     *FakeIPFS
	Tracker  *FakeTracker
	Informer *FakeInformer
	API      *FakeAPI
	Cfg      *ipfscluster.Config
	dir      string
}

// NewHost creates a loopback libp2p host.
func NewHost() (host.Host, error) {
	return libp2p.New(context.Background(), libp2p.ListenAddrStrings("/ip4/127.0.0.1/tcp/0"))
}

// NewRig builds a real Cluster through ipfscluster.NewCluster.
func NewRig(o Opts) (*Rig, error) {
	ctx := context.Background()
	r := &Rig{}
	var err error
	r.Host = o.Host
	if r.Host == nil {
		r.Host, err = NewHost()
		if err != nil {
			return nil, err
		}
	}
	r.ID = r.Host.ID()
	r.Shared = o.Shared
	if r.Shared == nil {
		r.Shared = NewSharedState()
		r.Shared.SetPeers([]peer.ID{r.ID})
	}
	r.Cons = &FakeConsensus{ID: r.ID, S: r.Shared, NeverReady: o.NeverReady}
	r.dir, err = ioutil.TempDir("", "verif-rig-")
	if err != nil {
		return nil, err
	}
	cfg := &ipfscluster.Config{}
	if err := cfg.Default(); err != nil {
		return nil, err
	}
	cfg.SetBaseDir(r.dir)
	cfg.Peername = "rig-" + r.ID.Pretty()[len(r.ID.Pretty())-6:]
	cfg.MDNSInterval = 0
	cfg.DisableRepinning = o.NoRepin
	cfg.FollowerMode = o.Follower
	cfg.LeaveOnShutdown = false
	cfg.StateSyncInterval = time.Hour
	cfg.PinRecoverInterval = time.Hour
	cfg.PeerWatchInterval = time.Hour
	cfg.MonitorPingInterval = time.Hour
	if o.PingInterval > 0 {
		cfg.MonitorPingInterval = o.PingInterval
	}
	if o.RplMin != 0 {
		cfg.ReplicationFactorMin = o.RplMin
		cfg.ReplicationFactorMax = o.RplMax
	}
	if o.Tweak != nil {
		o.Tweak(cfg)
	}
	r.Cfg = cfg
	r.API = &FakeAPI{}
	var mon ipfscluster.PeerMonitor = o.Monitor
	if mon == nil {
		r.Mon = NewFakeMonitor()
		mon = r.Mon
	}
	var ipfs ipfscluster.IPFSConnector = o.IPFS
	if ipfs == nil {
		r.IPFS = NewFakeIPFS()
		ipfs = r.IPFS
	}
	var tr ipfscluster.PinTracker = o.Tracker
	if tr == nil {
		r.Tracker = &FakeTracker{ID: r.ID}
		tr = r.Tracker
	}
	name := o.InformerName
	if name == "" {
		name = "freespace"
	}
	r.Informer = &FakeInformer{MetricName: name, Value: "100", TTL: o.InformerTTL}
	var alloc ipfscluster.PinAllocator
	if o.Descending {
		alloc = descendalloc.NewAllocator()
	} else {
		alloc = ascendalloc.NewAllocator()
	}
	cl, err := ipfscluster.NewCluster(ctx, r.Host, nil, cfg, r.Shared.Store, r.Cons,
		[]ipfscluster.API{r.API}, ipfs, tr, mon, alloc, []ipfscluster.Informer{r.Informer}, &FakeTracer{})
	if err != nil {
		os.RemoveAll(r.dir)
		return nil, err
	}
	r.Cluster = cl
	if o.NeverReady {
		return r, nil
	}
	select {
	case <-cl.Ready():
	case <-time.After(20 * time.Second):
		return nil, fmt.Errorf("cluster not ready")
	}
	return r, nil
}

// RPC returns the cluster's RPC client (as handed to the fake API component).
func (r *Rig) RPC() *rpc.Client { return r.API.RPC() }

// Close shuts everything down and removes the temp dir.
func (r *Rig) Close() {
	if r.Cluster != nil {
		ctx, cancel := context.WithTimeout(context.Background(), 20*time.Second)
		r.Cluster.Shutdown(ctx)
		cancel()
	}
	if r.Host != nil {
		r.Host.Close()
	}
	os.RemoveAll(r.dir)
}
