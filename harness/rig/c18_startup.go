package rig

import (
	"context"
	"errors"
	"io/ioutil"
	"os"
	"sync/atomic"
	"time"

	ipfscluster "github.com/ipfs/ipfs-cluster"
	"github.com/ipfs/ipfs-cluster/allocator/ascendalloc"

	peer "github.com/libp2p/go-libp2p-core/peer"
)

// FlakyPeersConsensus (C18 lifecycle runs) is a FakeConsensus that is ready at
// once but whose first FailPeers calls of Peers() fail: Cluster.ready() then
// takes its "consensus ready, Peers() error" branch.
type FlakyPeersConsensus struct {
	*FakeConsensus
	FailPeers  int32 // Peers() calls that still fail
	PeersCalls int32 // Peers() calls received
}

var _ ipfscluster.Consensus = (*FlakyPeersConsensus)(nil)

// Peers fails while FailPeers > 0, then answers like FakeConsensus.
func (c *FlakyPeersConsensus) Peers(ctx context.Context) ([]peer.ID, error) {
	atomic.AddInt32(&c.PeersCalls, 1)
	if atomic.AddInt32(&c.FailPeers, -1) >= 0 {
		return nil, errors.New("scripted failure: no leader right after becoming ready")
	}
	return c.FakeConsensus.Peers(ctx)
}

// NewRigStartup (C18 lifecycle runs) builds a real Cluster like NewRig around
// the consensus component returned by wrap and does NOT wait for Ready(): the
// caller observes the start-up (Ready(), Done()) itself. The Rig must be
// released with CloseStartup.
func NewRigStartup(wrap func(*FakeConsensus) ipfscluster.Consensus) (*Rig, error) {
	ctx := context.Background()
	r := &Rig{}
	var err error
	r.Host, err = NewHost()
	if err != nil {
		return nil, err
	}
	r.ID = r.Host.ID()
	r.Shared = NewSharedState()
	r.Shared.SetPeers([]peer.ID{r.ID})
	r.Cons = &FakeConsensus{ID: r.ID, S: r.Shared}
	r.dir, err = ioutil.TempDir("", "verif-rig-")
	if err != nil {
		r.Host.Close()
		return nil, err
	}
	cfg := &ipfscluster.Config{}
	if err := cfg.Default(); err != nil {
		r.Host.Close()
		return nil, err
	}
	cfg.SetBaseDir(r.dir)
	cfg.Peername = "rig-" + r.ID.Pretty()[len(r.ID.Pretty())-6:]
	cfg.MDNSInterval = 0
	cfg.LeaveOnShutdown = false
	cfg.StateSyncInterval = time.Hour
	cfg.PinRecoverInterval = time.Hour
	cfg.PeerWatchInterval = time.Hour
	cfg.MonitorPingInterval = time.Hour
	r.Cfg = cfg
	r.API = &FakeAPI{}
	r.Mon = NewFakeMonitor()
	r.IPFS = NewFakeIPFS()
	r.Tracker = &FakeTracker{ID: r.ID}
	r.Informer = &FakeInformer{MetricName: "freespace", Value: "100"}
	cl, err := ipfscluster.NewCluster(ctx, r.Host, nil, cfg, r.Shared.Store, wrap(r.Cons),
		[]ipfscluster.API{r.API}, r.IPFS, r.Tracker, r.Mon, ascendalloc.NewAllocator(),
		[]ipfscluster.Informer{r.Informer}, &FakeTracer{})
	if err != nil {
		r.Host.Close()
		os.RemoveAll(r.dir)
		return nil, err
	}
	r.Cluster = cl
	return r, nil
}

// CloseStartup closes the host and removes the temp dir; it never calls
// Cluster.Shutdown (after a start-up that got stuck that call would block).
func (r *Rig) CloseStartup() {
	if r.Host != nil {
		r.Host.Close()
	}
	os.RemoveAll(r.dir)
}
