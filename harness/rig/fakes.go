// Package rig builds real ipfs-cluster objects (Cluster, REST API, trackers)
// surrounded by harness-owned fake components. The fakes are deliberately
// dumb recorders: every decision that a property talks about is taken by the
// real code, the fakes only provide the environment the script asks for and
// record what the real code asked them to do.
package rig

import (
	"context"
	"errors"
	"fmt"
	"sync"
	"time"

	ipfscluster "github.com/ipfs/ipfs-cluster"
	"github.com/ipfs/ipfs-cluster/api"
	"github.com/ipfs/ipfs-cluster/state"
	"github.com/ipfs/ipfs-cluster/state/dsstate"

	cid "github.com/ipfs/go-cid"
	ds "github.com/ipfs/go-datastore"
	dssync "github.com/ipfs/go-datastore/sync"
	peer "github.com/libp2p/go-libp2p-core/peer"
	rpc "github.com/libp2p/go-libp2p-gorpc"
)

// Base gives every fake SetClient/Shutdown.
type Base struct {
	mu     sync.Mutex
	Client *rpc.Client
	Down   bool
}

// SetClient stores the cluster's RPC client.
func (b *Base) SetClient(c *rpc.Client) { b.mu.Lock(); b.Client = c; b.mu.Unlock() }

// Shutdown marks the component as shut down.
func (b *Base) Shutdown(context.Context) error { b.mu.Lock(); b.Down = true; b.mu.Unlock(); return nil }

// RPC returns the stored client.
func (b *Base) RPC() *rpc.Client { b.mu.Lock(); defer b.mu.Unlock(); return b.Client }

// ---------------------------------------------------------------------------

// LogCall is one LogPin/LogUnpin received by the fake consensus.
type LogCall struct {
	By   peer.ID
	Kind string // "pin" | "unpin"
	Pin  *api.Pin
	Err  error
}

// SharedState is the single shared pinset behind one or several FakeConsensus.
type SharedState struct {
	mu    sync.Mutex
	Store ds.Datastore
	State state.State
	Calls []LogCall
	Peers []peer.ID
	// FailLog makes LogPin/LogUnpin fail (nothing stored) when it returns an error.
	FailLog func(kind string, p *api.Pin) error
	// AfterLog, when set, is called (outside the lock) after a pin/unpin was stored:
	// this is where a real consensus component hands the change to the pin trackers.
	AfterLog func(kind string, p *api.Pin)
}

// NewSharedState creates an empty pinset on an in-memory datastore.
func NewSharedState() *SharedState {
	store := dssync.MutexWrap(ds.NewMapDatastore())
	st, err := dsstate.New(store, "", dsstate.DefaultHandle())
	if err != nil {
		panic(err)
	}
	return &SharedState{Store: store, State: st}
}

// Reset empties pinset and call log.
func (s *SharedState) Reset() {
	s.mu.Lock()
	defer s.mu.Unlock()
	ctx := context.Background()
	pins, _ := s.State.List(ctx)
	for _, p := range pins {
		s.State.Rm(ctx, p.Cid)
	}
	s.Calls = nil
}

// TakeCalls returns and clears the call log.
func (s *SharedState) TakeCalls() []LogCall {
	s.mu.Lock()
	defer s.mu.Unlock()
	c := s.Calls
	s.Calls = nil
	return c
}

// SetPeers sets the peerset every attached consensus reports.
func (s *SharedState) SetPeers(ps []peer.ID) {
	s.mu.Lock()
	s.Peers = append([]peer.ID{}, ps...)
	s.mu.Unlock()
}

// Pins lists the pinset.
func (s *SharedState) Pins() []*api.Pin {
	pins, _ := s.State.List(context.Background())
	return pins
}

// FakeConsensus implements ipfscluster.Consensus over a SharedState.
type FakeConsensus struct {
	Base
	ID      peer.ID
	S       *SharedState
	Trusted func(peer.ID) bool
	PeerOps []string
	// NeverReady makes Ready() return a channel that is never closed (consensus that cannot bootstrap).
	NeverReady bool
}

var _ ipfscluster.Consensus = (*FakeConsensus)(nil)

// Ready is immediately ready.
func (c *FakeConsensus) Ready(context.Context) <-chan struct{} {
	ch := make(chan struct{})
	if !c.NeverReady {
		close(ch)
	}
	return ch
}

func (c *FakeConsensus) log(kind string, p *api.Pin) error {
	err := c.logLocked(kind, p)
	if err == nil && c.S.AfterLog != nil {
		cp := *p
		c.S.AfterLog(kind, &cp)
	}
	return err
}

func (c *FakeConsensus) logLocked(kind string, p *api.Pin) error {
	s := c.S
	s.mu.Lock()
	defer s.mu.Unlock()
	cp := *p
	cp.Allocations = append([]peer.ID(nil), p.Allocations...)
	call := LogCall{By: c.ID, Kind: kind, Pin: &cp}
	if s.FailLog != nil {
		if err := s.FailLog(kind, p); err != nil {
			call.Err = err
			s.Calls = append(s.Calls, call)
			return err
		}
	}
	var err error
	if kind == "pin" {
		err = s.State.Add(context.Background(), p)
	} else {
		err = s.State.Rm(context.Background(), p.Cid)
	}
	call.Err = err
	s.Calls = append(s.Calls, call)
	return err
}

// LogPin stores the pin.
func (c *FakeConsensus) LogPin(_ context.Context, p *api.Pin) error { return c.log("pin", p) }

// LogUnpin removes the pin.
func (c *FakeConsensus) LogUnpin(_ context.Context, p *api.Pin) error { return c.log("unpin", p) }

// AddPeer records.
func (c *FakeConsensus) AddPeer(_ context.Context, p peer.ID) error {
	c.S.mu.Lock()
	defer c.S.mu.Unlock()
	c.PeerOps = append(c.PeerOps, "add:"+p.Pretty())
	for _, q := range c.S.Peers {
		if q == p {
			return nil
		}
	}
	c.S.Peers = append(c.S.Peers, p)
	return nil
}

// RmPeer records and removes.
func (c *FakeConsensus) RmPeer(_ context.Context, p peer.ID) error {
	c.S.mu.Lock()
	defer c.S.mu.Unlock()
	c.PeerOps = append(c.PeerOps, "rm:"+p.Pretty())
	out := c.S.Peers[:0:0]
	for _, q := range c.S.Peers {
		if q != p {
			out = append(out, q)
		}
	}
	c.S.Peers = out
	return nil
}

// State returns the shared state.
func (c *FakeConsensus) State(context.Context) (state.ReadOnly, error) { return c.S.State, nil }

// Leader is always this peer.
func (c *FakeConsensus) Leader(context.Context) (peer.ID, error) { return c.ID, nil }

// WaitForSync returns at once.
func (c *FakeConsensus) WaitForSync(context.Context) error { return nil }

// Clean does nothing.
func (c *FakeConsensus) Clean(context.Context) error { return nil }

// Peers returns the scripted peerset.
func (c *FakeConsensus) Peers(context.Context) ([]peer.ID, error) {
	c.S.mu.Lock()
	defer c.S.mu.Unlock()
	return append([]peer.ID{}, c.S.Peers...), nil
}

// IsTrustedPeer trusts everyone unless Trusted is set.
func (c *FakeConsensus) IsTrustedPeer(_ context.Context, p peer.ID) bool {
	if c.Trusted != nil {
		return c.Trusted(p)
	}
	return true
}

// Trust does nothing.
func (c *FakeConsensus) Trust(context.Context, peer.ID) error { return nil }

// Distrust does nothing.
func (c *FakeConsensus) Distrust(context.Context, peer.ID) error { return nil }

// ---------------------------------------------------------------------------

// PublishCall records one PublishMetric/LogMetric.
type PublishCall struct {
	At     time.Time
	Metric api.Metric
	Kind   string
}

// FakeMonitor implements ipfscluster.PeerMonitor with scripted metrics.
type FakeMonitor struct {
	Base
	mu       sync.Mutex
	Metrics  map[string][]*api.Metric // by metric name
	AlertCh  chan *api.Alert
	Calls    []PublishCall
	PubError func(m *api.Metric) error
}

var _ ipfscluster.PeerMonitor = (*FakeMonitor)(nil)

// NewFakeMonitor creates an empty monitor.
func NewFakeMonitor() *FakeMonitor {
	return &FakeMonitor{Metrics: map[string][]*api.Metric{}, AlertCh: make(chan *api.Alert, 64)}
}

// Set replaces the metrics of one name.
func (m *FakeMonitor) Set(name string, ms []*api.Metric) {
	m.mu.Lock()
	m.Metrics[name] = ms
	m.mu.Unlock()
}

// LogMetric records.
func (m *FakeMonitor) LogMetric(_ context.Context, mt *api.Metric) error {
	m.mu.Lock()
	m.Calls = append(m.Calls, PublishCall{At: time.Now(), Metric: *mt, Kind: "log"})
	m.mu.Unlock()
	return nil
}

// PublishMetric records.
func (m *FakeMonitor) PublishMetric(_ context.Context, mt *api.Metric) error {
	m.mu.Lock()
	defer m.mu.Unlock()
	m.Calls = append(m.Calls, PublishCall{At: time.Now(), Metric: *mt, Kind: "publish"})
	if m.PubError != nil {
		return m.PubError(mt)
	}
	return nil
}

// TakeCalls returns and clears the recorded publish calls.
func (m *FakeMonitor) TakeCalls() []PublishCall {
	m.mu.Lock()
	defer m.mu.Unlock()
	c := m.Calls
	m.Calls = nil
	return c
}

// LatestMetrics returns the scripted metrics.
func (m *FakeMonitor) LatestMetrics(_ context.Context, name string) []*api.Metric {
	m.mu.Lock()
	defer m.mu.Unlock()
	out := make([]*api.Metric, 0, len(m.Metrics[name]))
	for _, x := range m.Metrics[name] {
		cp := *x
		out = append(out, &cp)
	}
	return out
}

// MetricNames lists the scripted names.
func (m *FakeMonitor) MetricNames(context.Context) []string {
	m.mu.Lock()
	defer m.mu.Unlock()
	var out []string
	for k := range m.Metrics {
		out = append(out, k)
	}
	return out
}

// Alerts returns the channel the script feeds.
func (m *FakeMonitor) Alerts() <-chan *api.Alert { return m.AlertCh }

// ---------------------------------------------------------------------------

// FakeInformer returns a fixed metric.
type FakeInformer struct {
	Base
	MetricName string
	Value      string
	TTL        time.Duration
	Calls      int
}

var _ ipfscluster.Informer = (*FakeInformer)(nil)

// Name returns the metric name.
func (f *FakeInformer) Name() string { f.mu.Lock(); defer f.mu.Unlock(); return f.MetricName }

// SetName changes the metric name (each enumerated case uses a fresh name, so
// metrics logged for earlier cases are invisible to later ones).
func (f *FakeInformer) SetName(n string) { f.mu.Lock(); f.MetricName = n; f.mu.Unlock() }

// GetMetric returns a valid metric with the configured TTL.
func (f *FakeInformer) GetMetric(context.Context) *api.Metric {
	f.mu.Lock()
	f.Calls++
	m := &api.Metric{Name: f.MetricName, Value: f.Value, Valid: true}
	f.mu.Unlock()
	ttl := f.TTL
	if ttl == 0 {
		ttl = time.Hour
	}
	m.SetTTL(ttl)
	return m
}

// ---------------------------------------------------------------------------

// TrackCall is one Track/Untrack received by the fake tracker.
type TrackCall struct {
	Kind string
	Pin  *api.Pin
	Cid  cid.Cid
}

// FakeTracker records Track/Untrack and answers scripted statuses.
type FakeTracker struct {
	Base
	ID       peer.ID
	mu       sync.Mutex
	Calls    []TrackCall
	StatusOf func(c cid.Cid) *api.PinInfo
	All      func(f api.TrackerStatus) []*api.PinInfo
}

var _ ipfscluster.PinTracker = (*FakeTracker)(nil)

// Track records.
func (t *FakeTracker) Track(_ context.Context, p *api.Pin) error {
	t.mu.Lock()
	cp := *p
	t.Calls = append(t.Calls, TrackCall{Kind: "track", Pin: &cp, Cid: p.Cid})
	t.mu.Unlock()
	return nil
}

// Untrack records.
func (t *FakeTracker) Untrack(_ context.Context, c cid.Cid) error {
	t.mu.Lock()
	t.Calls = append(t.Calls, TrackCall{Kind: "untrack", Cid: c})
	t.mu.Unlock()
	return nil
}

// TakeCalls returns and clears.
func (t *FakeTracker) TakeCalls() []TrackCall {
	t.mu.Lock()
	defer t.mu.Unlock()
	c := t.Calls
	t.Calls = nil
	return c
}

// StatusAll answers from All.
func (t *FakeTracker) StatusAll(_ context.Context, f api.TrackerStatus) []*api.PinInfo {
	if t.All != nil {
		return t.All(f)
	}
	return nil
}

// Status answers from StatusOf.
func (t *FakeTracker) Status(_ context.Context, c cid.Cid) *api.PinInfo {
	if t.StatusOf != nil {
		return t.StatusOf(c)
	}
	return &api.PinInfo{Cid: c, Peer: t.ID, PinInfoShort: api.PinInfoShort{Status: api.TrackerStatusUnpinned, TS: time.Now()}}
}

// RecoverAll does nothing.
func (t *FakeTracker) RecoverAll(context.Context) ([]*api.PinInfo, error) { return nil, nil }

// Recover returns the status.
func (t *FakeTracker) Recover(ctx context.Context, c cid.Cid) (*api.PinInfo, error) {
	return t.Status(ctx, c), nil
}

// ---------------------------------------------------------------------------

// FakeIPFS is a minimal in-memory IPFSConnector.
type FakeIPFS struct {
	Base
	mu       sync.Mutex
	PinsMap  map[string]api.IPFSPinStatus
	Paths    map[string]cid.Cid
	Blocks   map[string][]byte
	PinErr   func(p *api.Pin) error
	UnpinErr func(c cid.Cid) error
}

var _ ipfscluster.IPFSConnector = (*FakeIPFS)(nil)

// NewFakeIPFS creates an empty connector.
func NewFakeIPFS() *FakeIPFS {
	return &FakeIPFS{PinsMap: map[string]api.IPFSPinStatus{}, Paths: map[string]cid.Cid{}, Blocks: map[string][]byte{}}
}

// ID returns a fixed identity.
func (f *FakeIPFS) ID(context.Context) (*api.IPFSID, error) { return &api.IPFSID{}, nil }

// Pin pins in memory.
func (f *FakeIPFS) Pin(_ context.Context, p *api.Pin) error {
	if f.PinErr != nil {
		if err := f.PinErr(p); err != nil {
			return err
		}
	}
	f.mu.Lock()
	defer f.mu.Unlock()
	if p.Mode == api.PinModeDirect {
		f.PinsMap[p.Cid.String()] = api.IPFSPinStatusDirect
	} else {
		f.PinsMap[p.Cid.String()] = api.IPFSPinStatusRecursive
	}
	return nil
}

// Unpin unpins in memory.
func (f *FakeIPFS) Unpin(_ context.Context, c cid.Cid) error {
	if f.UnpinErr != nil {
		if err := f.UnpinErr(c); err != nil {
			return err
		}
	}
	f.mu.Lock()
	defer f.mu.Unlock()
	delete(f.PinsMap, c.String())
	return nil
}

// PinLsCid reports the in-memory status.
func (f *FakeIPFS) PinLsCid(_ context.Context, p *api.Pin) (api.IPFSPinStatus, error) {
	f.mu.Lock()
	defer f.mu.Unlock()
	st, ok := f.PinsMap[p.Cid.String()]
	if !ok {
		return api.IPFSPinStatusUnpinned, nil
	}
	return st, nil
}

// PinLs lists.
func (f *FakeIPFS) PinLs(_ context.Context, typeFilter string) (map[string]api.IPFSPinStatus, error) {
	f.mu.Lock()
	defer f.mu.Unlock()
	out := map[string]api.IPFSPinStatus{}
	for k, v := range f.PinsMap {
		out[k] = v
	}
	return out, nil
}

// ConnectSwarms does nothing.
func (f *FakeIPFS) ConnectSwarms(context.Context) error { return nil }

// SwarmPeers returns none.
func (f *FakeIPFS) SwarmPeers(context.Context) ([]peer.ID, error) { return nil, nil }

// ConfigKey is unsupported.
func (f *FakeIPFS) ConfigKey(string) (interface{}, error) { return nil, errors.New("no config") }

// RepoStat returns zeroes.
func (f *FakeIPFS) RepoStat(context.Context) (*api.IPFSRepoStat, error) {
	return &api.IPFSRepoStat{RepoSize: 0, StorageMax: 1000}, nil
}

// RepoGC returns nothing collected.
func (f *FakeIPFS) RepoGC(context.Context) (*api.RepoGC, error) { return &api.RepoGC{}, nil }

// Resolve looks the path up in Paths.
func (f *FakeIPFS) Resolve(_ context.Context, path string) (cid.Cid, error) {
	f.mu.Lock()
	defer f.mu.Unlock()
	c, ok := f.Paths[path]
	if !ok {
		return cid.Undef, fmt.Errorf("cannot resolve %q", path)
	}
	return c, nil
}

// BlockPut stores a block.
func (f *FakeIPFS) BlockPut(_ context.Context, n *api.NodeWithMeta) error {
	f.mu.Lock()
	defer f.mu.Unlock()
	f.Blocks[n.Cid.String()] = n.Data
	return nil
}

// BlockGet returns a stored block.
func (f *FakeIPFS) BlockGet(_ context.Context, c cid.Cid) ([]byte, error) {
	f.mu.Lock()
	defer f.mu.Unlock()
	b, ok := f.Blocks[c.String()]
	if !ok {
		return nil, errors.New("block not found")
	}
	return b, nil
}

// ---------------------------------------------------------------------------

// FakeAPI only captures the RPC client (its handle on every endpoint).
type FakeAPI struct{ Base }

// FakeTracer is a no-op tracer.
type FakeTracer struct{ Base }
