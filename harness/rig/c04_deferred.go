package rig

import (
	"context"
	"sync"

	"github.com/ipfs/ipfs-cluster/api"
	"github.com/ipfs/ipfs-cluster/state"

	cid "github.com/ipfs/go-cid"
	peer "github.com/libp2p/go-libp2p-core/peer"
)

// DeferredState turns the shared pinset into the state of a consensus
// component that acknowledges before it commits (crdt batching, a raft
// follower lagging behind): while deferring, Add/Rm (what LogPin/LogUnpin of
// every attached FakeConsensus do) are queued and answered with success,
// reads show only what has been committed, Flush commits the queue in order.
type DeferredState struct {
	state.State
	mu    sync.Mutex
	on    bool
	queue []deferredOp
}

type deferredOp struct {
	add bool
	pin *api.Pin
	cid cid.Cid
}

// Add queues or stores.
func (d *DeferredState) Add(ctx context.Context, p *api.Pin) error {
	d.mu.Lock()
	if d.on {
		cp := *p
		cp.Allocations = append([]peer.ID(nil), p.Allocations...)
		d.queue = append(d.queue, deferredOp{add: true, pin: &cp})
		d.mu.Unlock()
		return nil
	}
	d.mu.Unlock()
	return d.State.Add(ctx, p)
}

// Rm queues or removes.
func (d *DeferredState) Rm(ctx context.Context, c cid.Cid) error {
	d.mu.Lock()
	if d.on {
		d.queue = append(d.queue, deferredOp{cid: c})
		d.mu.Unlock()
		return nil
	}
	d.mu.Unlock()
	return d.State.Rm(ctx, c)
}

// Defer switches the deferred mode on or off (off does not flush).
func (d *DeferredState) Defer(on bool) { d.mu.Lock(); d.on = on; d.mu.Unlock() }

// Pending returns the number of queued operations.
func (d *DeferredState) Pending() int { d.mu.Lock(); defer d.mu.Unlock(); return len(d.queue) }

// Drop forgets the queue.
func (d *DeferredState) Drop() { d.mu.Lock(); d.queue = nil; d.mu.Unlock() }

// Flush commits the queued operations in order.
func (d *DeferredState) Flush(ctx context.Context) error {
	d.mu.Lock()
	q := d.queue
	d.queue = nil
	d.mu.Unlock()
	for _, op := range q {
		var err error
		if op.add {
			err = d.State.Add(ctx, op.pin)
		} else {
			err = d.State.Rm(ctx, op.cid)
		}
		if err != nil {
			return err
		}
	}
	return nil
}

// Deferrable wraps the shared state (call it before any rig is attached) and
// returns the handle that switches the deferred mode. Until Defer(true) is
// called nothing changes for the users of the shared state.
func (s *SharedState) Deferrable() *DeferredState {
	s.mu.Lock()
	defer s.mu.Unlock()
	d := &DeferredState{State: s.State}
	s.State = d
	return d
}
