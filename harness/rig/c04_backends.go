package rig

// A real Cluster over a real crdt.Consensus (loopback libp2p host, gossipsub,
// DHT, in-memory datastore, batching on or off) with the harness fakes for
// IPFS / tracker / monitor / informer / API. Used by C04's "real backends"
// stage next to NewRaftPeer (real raft.Consensus).

import (
	"context"
	"fmt"
	"io/ioutil"
	"os"
	"time"

	ipfscluster "github.com/ipfs/ipfs-cluster"
	"github.com/ipfs/ipfs-cluster/allocator/ascendalloc"
	"github.com/ipfs/ipfs-cluster/consensus/crdt"
	"github.com/ipfs/ipfs-cluster/datastore/inmem"

	ds "github.com/ipfs/go-datastore"
	ipns "github.com/ipfs/go-ipns"
	libp2p "github.com/libp2p/go-libp2p"
	host "github.com/libp2p/go-libp2p-core/host"
	peer "github.com/libp2p/go-libp2p-core/peer"
	dht "github.com/libp2p/go-libp2p-kad-dht"
	dual "github.com/libp2p/go-libp2p-kad-dht/dual"
	pubsub "github.com/libp2p/go-libp2p-pubsub"
	record "github.com/libp2p/go-libp2p-record"
	routedhost "github.com/libp2p/go-libp2p/p2p/host/routed"
)

// CrdtOpts configures NewCrdtPeer.
type CrdtOpts struct {
	ClusterName  string
	MaxBatchSize int           // 0: batching off
	MaxBatchAge  time.Duration // 0: batching off
	RplMin       int
	RplMax       int
}

// CrdtPeer is one live peer.
type CrdtPeer struct {
	Cluster *ipfscluster.Cluster
	Cons    *crdt.Consensus
	Host    host.Host
	DHT     *dual.DHT
	ID      peer.ID
	Store   ds.Datastore
	Tracker *FakeTracker
	IPFS    *FakeIPFS
	Mon     *FakeMonitor
	API     *FakeAPI
	dir     string
}

// NewCrdtPeer starts a single-peer crdt cluster.
func NewCrdtPeer(o CrdtOpts) (*CrdtPeer, error) {
	ctx := context.Background()
	h, err := libp2p.New(ctx, libp2p.ListenAddrStrings("/ip4/127.0.0.1/tcp/0"))
	if err != nil {
		return nil, err
	}
	psub, err := pubsub.NewGossipSub(ctx, h, pubsub.WithMessageSigning(true), pubsub.WithStrictSignatureVerification(true))
	if err != nil {
		h.Close()
		return nil, err
	}
	idht, err := dual.New(ctx, h,
		dual.DHTOption(dht.NamespacedValidator("pk", record.PublicKeyValidator{})),
		dual.DHTOption(dht.NamespacedValidator("ipns", ipns.Validator{KeyBook: h.Peerstore()})),
	)
	if err != nil {
		h.Close()
		return nil, err
	}
	rh := routedhost.Wrap(h, idht)
	p := &CrdtPeer{Host: h, DHT: idht, ID: h.ID(), Store: inmem.New()}
	fail := func(err error) (*CrdtPeer, error) {
		idht.Close()
		h.Close()
		if p.dir != "" {
			os.RemoveAll(p.dir)
		}
		return nil, err
	}
	p.dir, err = ioutil.TempDir("", "verif-crdtpeer-")
	if err != nil {
		return fail(err)
	}
	ccfg := &crdt.Config{}
	ccfg.Default()
	ccfg.ClusterName = o.ClusterName
	if ccfg.ClusterName == "" {
		ccfg.ClusterName = "verif-c04-" + p.ID.Pretty()[len(p.ID.Pretty())-8:]
	}
	ccfg.TrustAll = true
	ccfg.Batching.MaxBatchSize = o.MaxBatchSize
	ccfg.Batching.MaxBatchAge = o.MaxBatchAge
	ccfg.RebroadcastInterval = time.Hour
	p.Cons, err = crdt.New(rh, idht, psub, ccfg, p.Store)
	if err != nil {
		return fail(err)
	}
	cfg := &ipfscluster.Config{}
	if err := cfg.Default(); err != nil {
		return fail(err)
	}
	cfg.SetBaseDir(p.dir)
	cfg.Peername = "crdt-" + p.ID.Pretty()[len(p.ID.Pretty())-6:]
	cfg.MDNSInterval = 0
	cfg.DisableRepinning = true
	cfg.LeaveOnShutdown = false
	cfg.StateSyncInterval = time.Hour
	cfg.PinRecoverInterval = time.Hour
	cfg.PeerWatchInterval = time.Hour
	cfg.MonitorPingInterval = time.Hour
	if o.RplMin != 0 {
		cfg.ReplicationFactorMin = o.RplMin
		cfg.ReplicationFactorMax = o.RplMax
	}
	p.API = &FakeAPI{}
	p.Mon = NewFakeMonitor()
	p.IPFS = NewFakeIPFS()
	p.Tracker = &FakeTracker{ID: p.ID}
	inf := &FakeInformer{MetricName: "freespace", Value: "100"}
	cl, err := ipfscluster.NewCluster(ctx, h, idht, cfg, p.Store, p.Cons, []ipfscluster.API{p.API}, p.IPFS, p.Tracker,
		p.Mon, ascendalloc.NewAllocator(), []ipfscluster.Informer{inf}, &FakeTracer{})
	if err != nil {
		return fail(err)
	}
	p.Cluster = cl
	select {
	case <-cl.Ready():
	case <-time.After(60 * time.Second):
		p.Close()
		return nil, fmt.Errorf("crdt cluster peer %s not ready after 60s", p.ID.Pretty())
	}
	return p, nil
}

// Close shuts the peer down.
func (p *CrdtPeer) Close() {
	if p.Cluster != nil {
		done := make(chan struct{})
		go func() {
			ctx, cancel := context.WithTimeout(context.Background(), 30*time.Second)
			defer cancel()
			p.Cluster.Shutdown(ctx)
			close(done)
		}()
		select {
		case <-done:
		case <-time.After(45 * time.Second):
		}
	}
	p.DHT.Close()
	p.Host.Close()
	os.RemoveAll(p.dir)
}
