package rig

import (
	"fmt"
	"sort"
	"time"

	"verifharness/hx"

	"github.com/ipfs/ipfs-cluster/api"

	cid "github.com/ipfs/go-cid"
	multiaddr "github.com/multiformats/go-multiaddr"
)

// Entry is the abstract pin record of spec/ClusterAPI.tla.
type Entry struct {
	Cid    string      `json:"cid"`
	Type   string      `json:"type"`
	Mode   string      `json:"mode"`
	Depth  int         `json:"depth"`
	Rmin   int         `json:"rmin"`
	Rmax   int         `json:"rmax"`
	Allocs []string    `json:"allocs"`
	Name   string      `json:"name"`
	Exp    string      `json:"exp"`
	Meta   [][2]string `json:"meta"`
	Orig   []string    `json:"orig"`
	Ua     []string    `json:"ua"`
	Upd    string      `json:"upd"`
	Ref    string      `json:"ref"`
}

// AbsOpts is the abstract PinOptions of a call.
type AbsOpts struct {
	Name string      `json:"name"`
	Mode string      `json:"mode"`
	Rmin int         `json:"rmin"`
	Rmax int         `json:"rmax"`
	Exp  string      `json:"exp"`
	Meta [][2]string `json:"meta"`
	Orig []string    `json:"orig"`
	Ua   []string    `json:"ua"`
	Upd  string      `json:"upd"`
}

// Proj converts between abstract records and api.Pin values.
type Proj struct {
	N    *hx.Names
	T0   time.Time
	orig map[string]multiaddr.Multiaddr
}

// NewProj creates a projection table; expiry classes are T0-1h (past), T0+1h (f1), T0+2h (f2).
func NewProj(n *hx.Names) *Proj {
	p := &Proj{N: n, T0: time.Now().Truncate(time.Second), orig: map[string]multiaddr.Multiaddr{}}
	for i, o := range []string{"o1", "o2", "o3"} {
		ma, err := multiaddr.NewMultiaddr(fmt.Sprintf("/ip4/10.0.0.%d/tcp/4001", i+1))
		if err != nil {
			panic(err)
		}
		p.orig[o] = ma
	}
	return p
}

// ExpTime maps an expiry class to a time.
func (p *Proj) ExpTime(class string) time.Time {
	switch class {
	case "past":
		return p.T0.Add(-time.Hour)
	case "f1":
		return p.T0.Add(time.Hour)
	case "f2":
		return p.T0.Add(2 * time.Hour)
	}
	return time.Time{}
}

// ExpClass maps a stored time back to its class.
func (p *Proj) ExpClass(t time.Time) string {
	if t.IsZero() || t.Unix() == 0 {
		return "none"
	}
	for _, c := range []string{"past", "f1", "f2"} {
		if p.ExpTime(c).Unix() == t.Unix() {
			return c
		}
	}
	return fmt.Sprintf("?%d", t.Unix())
}

func (p *Proj) cidOrUndef(name string) cid.Cid {
	if name == "" {
		return cid.Undef
	}
	return p.N.Cid(name)
}

// Options builds api.PinOptions from abstract options.
func (p *Proj) Options(o AbsOpts) api.PinOptions {
	po := api.PinOptions{ReplicationFactorMin: o.Rmin, ReplicationFactorMax: o.Rmax, Name: o.Name,
		ExpireAt: p.ExpTime(o.Exp), PinUpdate: p.cidOrUndef(o.Upd)}
	if o.Mode == "dir" {
		po.Mode = api.PinModeDirect
	} else {
		po.Mode = api.PinModeRecursive
	}
	if len(o.Meta) > 0 {
		po.Metadata = map[string]string{}
		for _, kv := range o.Meta {
			po.Metadata[kv[0]] = kv[1]
		}
	}
	for _, og := range o.Orig {
		po.Origins = append(po.Origins, p.orig[og])
	}
	if len(o.Ua) > 0 {
		po.UserAllocations = p.N.Peers(o.Ua)
	}
	return po
}

// Pin builds an api.Pin from an abstract record.
func (p *Proj) Pin(e Entry) *api.Pin {
	pin := &api.Pin{Cid: p.N.Cid(e.Cid), MaxDepth: api.PinDepth(e.Depth)}
	pin.PinOptions = p.Options(AbsOpts{Name: e.Name, Mode: e.Mode, Rmin: e.Rmin, Rmax: e.Rmax, Exp: e.Exp, Meta: e.Meta,
		Orig: e.Orig, Ua: e.Ua, Upd: e.Upd})
	switch e.Type {
	case "data":
		pin.Type = api.DataType
	case "meta":
		pin.Type = api.MetaType
	case "cdag":
		pin.Type = api.ClusterDAGType
	case "shard":
		pin.Type = api.ShardType
	default:
		pin.Type = api.BadType
	}
	pin.Allocations = p.N.Peers(e.Allocs)
	if e.Ref != "" {
		r := p.N.Cid(e.Ref)
		pin.Reference = &r
	}
	return pin
}

func nzs(s []string) []string {
	if s == nil {
		return []string{}
	}
	return s
}

// Entry projects an api.Pin field by field (no use of the code's own Equals helpers).
func (p *Proj) Entry(pin *api.Pin) Entry {
	e := Entry{Cid: p.N.CidName(pin.Cid), Depth: int(pin.MaxDepth), Rmin: pin.ReplicationFactorMin,
		Rmax: pin.ReplicationFactorMax, Name: pin.Name, Exp: p.ExpClass(pin.ExpireAt)}
	switch pin.Type {
	case api.DataType:
		e.Type = "data"
	case api.MetaType:
		e.Type = "meta"
	case api.ClusterDAGType:
		e.Type = "cdag"
	case api.ShardType:
		e.Type = "shard"
	default:
		e.Type = fmt.Sprintf("?%d", pin.Type)
	}
	if pin.Mode == api.PinModeDirect {
		e.Mode = "dir"
	} else {
		e.Mode = "rec"
	}
	e.Allocs = nzs(p.N.PeerNames(pin.Allocations))
	e.Meta = [][2]string{}
	keys := make([]string, 0, len(pin.Metadata))
	for k := range pin.Metadata {
		keys = append(keys, k)
	}
	sort.Strings(keys)
	for _, k := range keys {
		e.Meta = append(e.Meta, [2]string{k, pin.Metadata[k]})
	}
	e.Orig = []string{}
	for _, o := range pin.Origins {
		name := "?"
		if o != nil {
			name = "?" + o.String()
			for n, ma := range p.orig {
				if ma.Equal(o) {
					name = n
				}
			}
		}
		e.Orig = append(e.Orig, name)
	}
	sort.Strings(e.Orig)
	e.Ua = nzs(p.N.SortedPeerNames(pin.UserAllocations))
	if pin.PinUpdate != cid.Undef {
		e.Upd = p.N.CidName(pin.PinUpdate)
	}
	if pin.Reference != nil && *pin.Reference != cid.Undef {
		e.Ref = p.N.CidName(*pin.Reference)
	}
	return e
}

// Entries projects a pinset, sorted by abstract CID name.
func (p *Proj) Entries(pins []*api.Pin) []Entry {
	out := make([]Entry, 0, len(pins))
	for _, pin := range pins {
		out = append(out, p.Entry(pin))
	}
	sort.Slice(out, func(i, j int) bool { return out[i].Cid < out[j].Cid })
	return out
}
