package rig

import (
	"context"
	"sync"
	"time"

	"github.com/ipfs/ipfs-cluster/api"

	cid "github.com/ipfs/go-cid"
	"github.com/ipfs/ipfs-cluster/state"
)

// ListGate makes "all members look at the pinset at the same time" a
// deterministic schedule: while armed for k readers, every State.List call
// waits until k calls have arrived (or a deadline passes), then all proceed.
// It is how the C10 driver realises concurrent delivery of one alert to every
// survivor: each handler has read the same pre-repin pinset before any of
// them re-pins.
type ListGate struct {
	mu       sync.Mutex
	armed    bool
	want     int
	got      int
	ch       chan struct{}
	Timeouts int
	Deadline time.Duration
	total    int
}

// Count returns the number of calls that went through the gate so far (armed or not).
func (g *ListGate) Count() int {
	g.mu.Lock()
	defer g.mu.Unlock()
	return g.total
}

// Arm opens a round for k readers (k <= 0: not armed).
func (g *ListGate) Arm(k int) {
	g.mu.Lock()
	defer g.mu.Unlock()
	g.armed = k > 0
	g.want = k
	g.got = 0
	g.ch = make(chan struct{})
}

// Disarm lets everything pass.
func (g *ListGate) Disarm() {
	g.mu.Lock()
	defer g.mu.Unlock()
	if g.armed {
		close(g.ch)
	}
	g.armed = false
}

// Arrived returns how many readers arrived in the current round.
func (g *ListGate) Arrived() int {
	g.mu.Lock()
	defer g.mu.Unlock()
	return g.got
}

func (g *ListGate) arrive() {
	g.mu.Lock()
	g.total++
	if !g.armed {
		g.mu.Unlock()
		return
	}
	g.got++
	ch := g.ch
	if g.got >= g.want {
		g.armed = false
		close(ch)
		g.mu.Unlock()
		return
	}
	d := g.Deadline
	g.mu.Unlock()
	if d == 0 {
		d = 5 * time.Second
	}
	select {
	case <-ch:
	case <-time.After(d):
		g.mu.Lock()
		g.Timeouts++
		if g.armed && g.ch == ch {
			g.armed = false
			close(ch)
		}
		g.mu.Unlock()
	}
}

type gatedState struct {
	state.State
	g *ListGate
}

func (s *gatedState) List(ctx context.Context) ([]*api.Pin, error) {
	s.g.arrive()
	return s.State.List(ctx)
}

type getGatedState struct {
	state.State
	g *ListGate
}

func (s *getGatedState) Get(ctx context.Context, c cid.Cid) (*api.Pin, error) {
	s.g.arrive()
	return s.State.Get(ctx, c)
}

// GateGets wraps the shared state so that Get calls pass through a second gate
// (used to line up the PinGet of concurrent Unpin calls before any LogUnpin).
func (s *SharedState) GateGets() *ListGate {
	g := &ListGate{}
	s.mu.Lock()
	s.State = &getGatedState{State: s.State, g: g}
	s.mu.Unlock()
	return g
}

// GateLists wraps the shared state so that List calls pass through the gate.
// Call it before any rig is attached to the shared state.
func (s *SharedState) GateLists() *ListGate {
	g := &ListGate{}
	s.mu.Lock()
	s.State = &gatedState{State: s.State, g: g}
	s.mu.Unlock()
	return g
}
