package rig

import (
	"context"
	"fmt"
	"io/ioutil"
	"os"
	"time"

	ipfscluster "github.com/ipfs/ipfs-cluster"
	"github.com/ipfs/ipfs-cluster/allocator/ascendalloc"

	peer "github.com/libp2p/go-libp2p-core/peer"
)

// NewRigInformers (C09 cadence runs) builds a real Cluster like NewRig, but with
// several informers (Cluster.run starts one pushInformerMetrics loop per informer).
// Only the options the cadence runs need are honoured: Monitor, PingInterval.
func NewRigInformers(o Opts, informers []*FakeInformer) (*Rig, error) {
	if len(informers) == 0 {
		return nil, fmt.Errorf("no informers")
	}
	ctx := context.Background()
	r := &Rig{}
	var err error
	r.Host, err = NewHost()
	if err != nil {
		return nil, err
	}
	r.ID = r.Host.ID()
	r.Shared = NewSharedState()
	r.Shared.SetPeers([]peer.ID{r.ID})
	r.Cons = &FakeConsensus{ID: r.ID, S: r.Shared}
	r.dir, err = ioutil.TempDir("", "verif-rig-")
	if err != nil {
		return nil, err
	}
	cfg := &ipfscluster.Config{}
	if err := cfg.Default(); err != nil {
		return nil, err
	}
	cfg.SetBaseDir(r.dir)
	cfg.Peername = "rig-" + r.ID.Pretty()[len(r.ID.Pretty())-6:]
	cfg.MDNSInterval = 0
	cfg.LeaveOnShutdown = false
	cfg.StateSyncInterval = time.Hour
	cfg.PinRecoverInterval = time.Hour
	cfg.PeerWatchInterval = time.Hour
	cfg.MonitorPingInterval = time.Hour
	if o.PingInterval > 0 {
		cfg.MonitorPingInterval = o.PingInterval
	}
	r.Cfg = cfg
	r.API = &FakeAPI{}
	var mon ipfscluster.PeerMonitor = o.Monitor
	if mon == nil {
		r.Mon = NewFakeMonitor()
		mon = r.Mon
	}
	r.IPFS = NewFakeIPFS()
	r.Tracker = &FakeTracker{ID: r.ID}
	r.Informer = informers[0]
	infs := make([]ipfscluster.Informer, 0, len(informers))
	for _, i := range informers {
		infs = append(infs, i)
	}
	cl, err := ipfscluster.NewCluster(ctx, r.Host, nil, cfg, r.Shared.Store, r.Cons,
		[]ipfscluster.API{r.API}, r.IPFS, r.Tracker, mon, ascendalloc.NewAllocator(), infs, &FakeTracer{})
	if err != nil {
		os.RemoveAll(r.dir)
		return nil, err
	}
	select {
	case <-cl.Ready():
	case <-time.After(20 * time.Second):
		return nil, fmt.Errorf("cluster not ready")
	}
	r.Cluster = cl
	return r, nil
}
