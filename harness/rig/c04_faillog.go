package rig

import (
	"fmt"

	"github.com/ipfs/ipfs-cluster/api"

	cid "github.com/ipfs/go-cid"
)

// LogFault names one consensus operation that is to fail: Kind "pin" (LogPin)
// or "unpin" (LogUnpin) for the given CID.
type LogFault struct {
	Kind string
	Cid  cid.Cid
}

// FailOps makes LogPin/LogUnpin of every attached FakeConsensus fail (nothing
// stored, the call is still recorded with its error) for exactly the listed
// operations, until FailOps is called again; an empty list removes the fault.
// NthOnly > 0 restricts the fault to the n-th matching call (counted from this
// FailOps call). It only sets the existing FailLog hook, under the state lock.
func (s *SharedState) FailOps(faults []LogFault, nthOnly int) {
	s.mu.Lock()
	defer s.mu.Unlock()
	if len(faults) == 0 {
		s.FailLog = nil
		return
	}
	fs := append([]LogFault(nil), faults...)
	n := 0
	s.FailLog = func(kind string, p *api.Pin) error { // called with s.mu held
		for _, f := range fs {
			if f.Kind == kind && f.Cid.Equals(p.Cid) {
				n++
				if nthOnly > 0 && n != nthOnly {
					return nil
				}
				return fmt.Errorf("injected consensus failure: %s %s", kind, p.Cid)
			}
		}
		return nil
	}
}
