package rig

// A real Cluster with a real raft.Consensus (loopback libp2p host, on-disk
// raft data folder, in-memory pinset store as ipfs-cluster-service gives to
// raft) and the harness fakes for IPFS / tracker / monitor / informer / API.
// Used by C01 (seams 2 and 3) and C17.

import (
	"context"
	"errors"
	"fmt"
	"os"
	"path/filepath"
	"sync"
	"sync/atomic"
	"time"

	ipfscluster "github.com/ipfs/ipfs-cluster"
	"github.com/ipfs/ipfs-cluster/allocator/ascendalloc"
	"github.com/ipfs/ipfs-cluster/api"
	"github.com/ipfs/ipfs-cluster/consensus/raft"
	"github.com/ipfs/ipfs-cluster/datastore/inmem"

	ds "github.com/ipfs/go-datastore"
	libp2p "github.com/libp2p/go-libp2p"
	control "github.com/libp2p/go-libp2p-core/control"
	crypto "github.com/libp2p/go-libp2p-core/crypto"
	network "github.com/libp2p/go-libp2p-core/network"
	host "github.com/libp2p/go-libp2p-core/host"
	peer "github.com/libp2p/go-libp2p-core/peer"
	peerstore "github.com/libp2p/go-libp2p-core/peerstore"
	dual "github.com/libp2p/go-libp2p-kad-dht/dual"
	ma "github.com/multiformats/go-multiaddr"
)

// RaftOpts configures NewRaftPeer.
type RaftOpts struct {
	Key     crypto.PrivKey // identity (stable across restarts)
	Dir     string         // base dir (cluster + raft data); kept across restarts
	Staging bool           // start without bootstrapping (to be added to an existing peerset)
	Repin   bool           // leave re-pinning enabled
	// BeforeConsensus runs after the pinset store exists and before raft.NewConsensus
	// (start-up Restore happens inside NewConsensus).
	BeforeConsensus func(id peer.ID, store ds.Datastore)
	TweakRaft       func(cfg *raft.Config)
	PutDelay        time.Duration // > 0: every Put of the pinset store takes that long (slow state arrival)
	GateStore       bool          // writes of the pinset store block until RaftPeer.Gate.Release()
	NetSwitch       bool          // the host gets a connection gater the harness can close (RaftPeer.Net)
	FaultStore      bool          // RaftPeer.Fault.Arm() makes the next write of the pinset store fail once
	DefaultFolder   bool          // leave raft data_folder unset: the data lives in <BaseDir>/raft as after "init"
	NoWait          bool          // do not wait for Ready() of a non-staging peer
	NoAutoSnapshot  bool          // raft takes snapshots only on request (ForceSnapshot) and on shutdown
	TweakCluster    func(cfg *ipfscluster.Config)
	// NoCluster builds only host + raft.Consensus (C01 seam 3 child); the
	// consensus RPC client then points at a host-less server with the fake tracker.
	WaitReady time.Duration
}

// RaftPeer is one live peer.
type RaftPeer struct {
	Cluster *ipfscluster.Cluster
	Cons    *raft.Consensus
	Switch  *SwitchableConsensus
	Gate    *StoreGate
	Net     *NetSwitch
	Fault   *FaultSwitch
	// ShutdownReturned: Close() saw Cluster.Shutdown return (it did not have to abandon it)
	ShutdownReturned bool
	RaftCfg *raft.Config
	Host    host.Host
	DHT     *dual.DHT
	ID      peer.ID
	Store   ds.Datastore
	Tracker *FakeTracker
	IPFS    *FakeIPFS
	Mon     *FakeMonitor
	API     *FakeAPI
	Dir     string
}

// SwitchableConsensus is what the Cluster (hence its "Consensus" RPC service,
// the endpoint followers redirect to) gets as consensus component: the real
// raft.Consensus, whose LogPin/LogUnpin endpoint the harness can make refuse.
type SwitchableConsensus struct {
	*raft.Consensus
	fail int32
}

// FailRPC switches the refusal of LogPin/LogUnpin on or off.
func (s *SwitchableConsensus) FailRPC(on bool) {
	var v int32
	if on {
		v = 1
	}
	atomic.StoreInt32(&s.fail, v)
}

// LogPin refuses when switched, else delegates to the real component.
func (s *SwitchableConsensus) LogPin(ctx context.Context, p *api.Pin) error {
	if atomic.LoadInt32(&s.fail) == 1 {
		return errors.New("verif: Consensus RPC endpoint refusing")
	}
	return s.Consensus.LogPin(ctx, p)
}

// LogUnpin refuses when switched, else delegates to the real component.
func (s *SwitchableConsensus) LogUnpin(ctx context.Context, p *api.Pin) error {
	if atomic.LoadInt32(&s.fail) == 1 {
		return errors.New("verif: Consensus RPC endpoint refusing")
	}
	return s.Consensus.LogUnpin(ctx, p)
}

// slowStore delays every Put (a joiner whose state arrives slowly).
type slowStore struct {
	ds.Datastore
	delay time.Duration
}

func (s *slowStore) Put(k ds.Key, v []byte) error {
	time.Sleep(s.delay)
	return s.Datastore.Put(k, v)
}

// StoreGate holds every write of a pinset store until released.
type StoreGate struct {
	held     chan struct{} // closed when the first write is being held
	release  chan struct{}
	heldOnce sync.Once
	relOnce  sync.Once
}

// Held is closed as soon as one write is blocked.
func (g *StoreGate) Held() <-chan struct{} { return g.held }

// Release lets all held and future writes through.
func (g *StoreGate) Release() { g.relOnce.Do(func() { close(g.release) }) }

func (g *StoreGate) wait() {
	select {
	case <-g.release:
		return
	default:
	}
	g.heldOnce.Do(func() { close(g.held) })
	<-g.release
}

type gatedStore struct {
	ds.Datastore
	g *StoreGate
}

func (s *gatedStore) Put(k ds.Key, v []byte) error { s.g.wait(); return s.Datastore.Put(k, v) }
func (s *gatedStore) Delete(k ds.Key) error        { s.g.wait(); return s.Datastore.Delete(k) }

// FaultSwitch injects one datastore write error under dsstate.
type FaultSwitch struct{ armed int32 }

// Arm makes the next Put/Delete fail.
func (f *FaultSwitch) Arm() { atomic.StoreInt32(&f.armed, 1) }

// Disarm returns whether the fault was still pending (not reached).
func (f *FaultSwitch) Disarm() bool { return atomic.SwapInt32(&f.armed, 0) == 1 }

type faultyStore struct {
	ds.Datastore
	f *FaultSwitch
}

func (s *faultyStore) Put(k ds.Key, v []byte) error {
	if atomic.CompareAndSwapInt32(&s.f.armed, 1, 0) {
		return errors.New("verif: injected datastore write error")
	}
	return s.Datastore.Put(k, v)
}

func (s *faultyStore) Delete(k ds.Key) error {
	if atomic.CompareAndSwapInt32(&s.f.armed, 1, 0) {
		return errors.New("verif: injected datastore write error")
	}
	return s.Datastore.Delete(k)
}

// NetSwitch is a connection gater that can cut a host off from everybody.
type NetSwitch struct {
	blocked int32
	h       host.Host
}

// Block refuses every new connection and closes the open ones.
func (n *NetSwitch) Block() {
	atomic.StoreInt32(&n.blocked, 1)
	if n.h != nil {
		for _, c := range n.h.Network().Conns() {
			c.Close()
		}
	}
}

// Unblock lets connections through again.
func (n *NetSwitch) Unblock() { atomic.StoreInt32(&n.blocked, 0) }

func (n *NetSwitch) open() bool { return atomic.LoadInt32(&n.blocked) == 0 }

// InterceptPeerDial implements connmgr.ConnectionGater.
func (n *NetSwitch) InterceptPeerDial(peer.ID) bool { return n.open() }

// InterceptAddrDial implements connmgr.ConnectionGater.
func (n *NetSwitch) InterceptAddrDial(peer.ID, ma.Multiaddr) bool { return n.open() }

// InterceptAccept implements connmgr.ConnectionGater.
func (n *NetSwitch) InterceptAccept(network.ConnMultiaddrs) bool { return n.open() }

// InterceptSecured implements connmgr.ConnectionGater.
func (n *NetSwitch) InterceptSecured(network.Direction, peer.ID, network.ConnMultiaddrs) bool {
	return n.open()
}

// InterceptUpgraded implements connmgr.ConnectionGater.
func (n *NetSwitch) InterceptUpgraded(network.Conn) (bool, control.DisconnectReason) {
	return n.open(), 0
}

// NewKey creates an identity.
func NewKey() (crypto.PrivKey, peer.ID, error) {
	priv, pub, err := crypto.GenerateKeyPair(crypto.Ed25519, 0)
	if err != nil {
		return nil, "", err
	}
	id, err := peer.IDFromPublicKey(pub)
	return priv, id, err
}

// RaftConfig returns the raft configuration used by the harness: quick
// elections, and snapshots after every entry with no trailing logs, so that
// log truncation and InstallSnapshot really happen.
func RaftConfig(dir string) *raft.Config {
	cfg := &raft.Config{}
	cfg.Default()
	cfg.DataFolder = filepath.Join(dir, "raft")
	cfg.WaitForLeaderTimeout = 10 * time.Second
	cfg.NetworkTimeout = 5 * time.Second
	cfg.CommitRetries = 2
	cfg.CommitRetryDelay = 100 * time.Millisecond
	cfg.BackupsRotate = 2
	cfg.RaftConfig.HeartbeatTimeout = 600 * time.Millisecond
	cfg.RaftConfig.ElectionTimeout = 600 * time.Millisecond
	cfg.RaftConfig.LeaderLeaseTimeout = 400 * time.Millisecond
	cfg.RaftConfig.CommitTimeout = 40 * time.Millisecond
	cfg.RaftConfig.SnapshotInterval = 150 * time.Millisecond
	cfg.RaftConfig.SnapshotThreshold = 1
	cfg.RaftConfig.TrailingLogs = 0
	return cfg
}

// NewRaftPeer starts a peer.
func NewRaftPeer(o RaftOpts) (*RaftPeer, error) {
	ctx := context.Background()
	ipfscluster.ReadyTimeout = 120 * time.Second // loaded machine: never race the peer's own start-up watchdog
	hopts := []libp2p.Option{libp2p.Identity(o.Key), libp2p.ListenAddrStrings("/ip4/127.0.0.1/tcp/0")}
	var ns *NetSwitch
	if o.NetSwitch {
		ns = &NetSwitch{}
		hopts = append(hopts, libp2p.ConnectionGater(ns))
	}
	h, err := libp2p.New(ctx, hopts...)
	if err != nil {
		return nil, err
	}
	if ns != nil {
		ns.h = h
	}
	d, err := dual.New(ctx, h)
	if err != nil {
		h.Close()
		return nil, err
	}
	r := &RaftPeer{Host: h, DHT: d, ID: h.ID(), Dir: o.Dir, Store: inmem.New()}
	r.Net = ns
	if o.PutDelay > 0 {
		r.Store = &slowStore{Datastore: r.Store, delay: o.PutDelay}
	}
	if o.FaultStore {
		r.Fault = &FaultSwitch{}
		r.Store = &faultyStore{Datastore: r.Store, f: r.Fault}
	}
	if o.GateStore {
		r.Gate = &StoreGate{held: make(chan struct{}), release: make(chan struct{})}
		r.Store = &gatedStore{Datastore: r.Store, g: r.Gate}
	}
	fail := func(err error) (*RaftPeer, error) {
		if r.Cons != nil {
			sctx, cancel := context.WithTimeout(ctx, 20*time.Second)
			r.Cons.Shutdown(sctx)
			cancel()
		}
		d.Close()
		h.Close()
		return nil, err
	}
	if err := os.MkdirAll(o.Dir, 0700); err != nil {
		return fail(err)
	}
	r.RaftCfg = RaftConfig(o.Dir)
	if o.NoAutoSnapshot {
		r.RaftCfg.RaftConfig.SnapshotThreshold = 1 << 40
	}
	if o.DefaultFolder {
		r.RaftCfg.DataFolder = ""
		r.RaftCfg.SetBaseDir(o.Dir)
	}
	if o.TweakRaft != nil {
		o.TweakRaft(r.RaftCfg)
	}
	if o.BeforeConsensus != nil {
		o.BeforeConsensus(r.ID, r.Store)
	}
	r.Cons, err = raft.NewConsensus(h, r.RaftCfg, r.Store, o.Staging)
	if err != nil {
		return fail(err)
	}
	cfg := &ipfscluster.Config{}
	if err := cfg.Default(); err != nil {
		return fail(err)
	}
	cfg.SetBaseDir(o.Dir)
	cfg.Peername = "raft-" + r.ID.Pretty()[len(r.ID.Pretty())-6:]
	cfg.MDNSInterval = 0
	cfg.DisableRepinning = !o.Repin
	cfg.LeaveOnShutdown = false
	cfg.StateSyncInterval = time.Hour
	cfg.PinRecoverInterval = time.Hour
	cfg.PeerWatchInterval = 300 * time.Millisecond
	cfg.MonitorPingInterval = time.Hour
	cfg.ReplicationFactorMin = -1
	cfg.ReplicationFactorMax = -1
	if o.TweakCluster != nil {
		o.TweakCluster(cfg)
	}
	r.API = &FakeAPI{}
	r.Mon = NewFakeMonitor()
	r.IPFS = NewFakeIPFS()
	r.Tracker = &FakeTracker{ID: r.ID}
	inf := &FakeInformer{MetricName: "freespace", Value: "100"}
	r.Switch = &SwitchableConsensus{Consensus: r.Cons}
	cl, err := ipfscluster.NewCluster(ctx, h, d, cfg, r.Store, r.Switch, []ipfscluster.API{r.API}, r.IPFS, r.Tracker,
		r.Mon, ascendalloc.NewAllocator(), []ipfscluster.Informer{inf}, &FakeTracer{})
	if err != nil {
		return fail(err)
	}
	r.Cluster = cl
	if !o.Staging && !o.NoWait {
		w := o.WaitReady
		if w == 0 {
			w = 40 * time.Second
		}
		select {
		case <-cl.Ready():
		case <-time.After(w):
			r.Close()
			return nil, fmt.Errorf("cluster peer %s not ready after %s", r.ID.Pretty(), w)
		}
	}
	return r, nil
}

// Addrs returns the full multiaddresses of the peer.
func (r *RaftPeer) Addrs() []ma.Multiaddr {
	out := []ma.Multiaddr{}
	for _, a := range r.Host.Addrs() {
		m, err := ma.NewMultiaddr(fmt.Sprintf("%s/p2p/%s", a, r.ID.Pretty()))
		if err == nil {
			out = append(out, m)
		}
	}
	return out
}

// Know tells this peer's host where another peer listens (harness-level
// address book; replaces mDNS / DHT discovery on loopback).
func (r *RaftPeer) Know(o *RaftPeer) {
	if o == nil || o.ID == r.ID {
		return
	}
	r.Host.Peerstore().ClearAddrs(o.ID)
	r.Host.Peerstore().AddAddrs(o.ID, o.Host.Addrs(), peerstore.PermanentAddrTTL)
}

// Close shuts the peer down gracefully (Cluster.Shutdown: snapshot on
// shutdown) and closes the host. The directory is kept.
func (r *RaftPeer) Close() error {
	var err error
	if r.Cluster != nil {
		// Cluster.Shutdown can block for ever (when ready() timed out it calls
		// Shutdown from the goroutine Shutdown waits for): never wait unboundedly.
		done := make(chan error, 1)
		go func() {
			ctx, cancel := context.WithTimeout(context.Background(), 40*time.Second)
			defer cancel()
			done <- r.Cluster.Shutdown(ctx)
		}()
		select {
		case err = <-done:
			r.ShutdownReturned = true
		case <-time.After(60 * time.Second):
			err = fmt.Errorf("Cluster.Shutdown of %s did not return within 60s", r.ID.Pretty())
			if r.Cons != nil {
				sctx, cancel := context.WithTimeout(context.Background(), 30*time.Second)
				r.Cons.Shutdown(sctx)
				cancel()
			}
		}
	}
	r.DHT.Close()
	r.Host.Close()
	return err
}
