package rig

import (
	"errors"
	"sync"

	"github.com/ipfs/ipfs-cluster/state/dsstate"

	ds "github.com/ipfs/go-datastore"
	dssync "github.com/ipfs/go-datastore/sync"
)

// ErrInjectedRead is what a failing datastore read returns (it is not ds.ErrNotFound).
var ErrInjectedRead = errors.New("verif: injected datastore read failure")

// FaultDatastore is the datastore under the REAL dsstate of a shared pinset:
// Get of chosen keys fails with an error that is not "not found" (a disk /
// badger read error). Keys are chosen by tag: Tag(name) names the key of the
// next Put (the driver tags a CID's key while it loads the initial pinset), so
// the harness never has to know how dsstate derives keys. Query (what
// State.List uses) is never failed.
type FaultDatastore struct {
	ds.Datastore
	mu      sync.Mutex
	nextTag string
	tags    map[string]string // key -> tag
	failing map[string]bool   // tag -> Get fails
	Failed  int               // number of Gets that were failed
}

// Tag names the key of the next Put.
func (f *FaultDatastore) Tag(name string) { f.mu.Lock(); f.nextTag = name; f.mu.Unlock() }

// FailGets makes Get fail for the keys with these tags (replaces the previous set).
func (f *FaultDatastore) FailGets(tags []string) {
	f.mu.Lock()
	f.failing = map[string]bool{}
	for _, t := range tags {
		f.failing[t] = true
	}
	f.mu.Unlock()
}

// ClearTags forgets all tags and faults.
func (f *FaultDatastore) ClearTags() {
	f.mu.Lock()
	f.tags, f.failing, f.nextTag = map[string]string{}, map[string]bool{}, ""
	f.mu.Unlock()
}

// Put stores and tags.
func (f *FaultDatastore) Put(k ds.Key, v []byte) error {
	f.mu.Lock()
	if f.nextTag != "" {
		f.tags[k.String()] = f.nextTag
		f.nextTag = ""
	}
	f.mu.Unlock()
	return f.Datastore.Put(k, v)
}

// Get fails for the chosen keys.
func (f *FaultDatastore) Get(k ds.Key) ([]byte, error) {
	f.mu.Lock()
	fail := f.failing[f.tags[k.String()]] && f.tags[k.String()] != ""
	if fail {
		f.Failed++
	}
	f.mu.Unlock()
	if fail {
		return nil, ErrInjectedRead
	}
	return f.Datastore.Get(k)
}

// NewFaultySharedState is NewSharedState with the real dsstate sitting on a FaultDatastore.
func NewFaultySharedState() (*SharedState, *FaultDatastore) {
	fd := &FaultDatastore{Datastore: dssync.MutexWrap(ds.NewMapDatastore()), tags: map[string]string{}, failing: map[string]bool{}}
	st, err := dsstate.New(fd, "", dsstate.DefaultHandle())
	if err != nil {
		panic(err)
	}
	return &SharedState{Store: fd, State: st}, fd
}
