// C03 driver: executes allocation cases on a real Cluster (real allocate /
// obtainAllocations / SortNumeric / ascendalloc / descendalloc, real
// pubsubmon.Monitor + metrics.Store doing the health filtering) and records
// (input, output) pairs for spec/AllocatorTrace.tla.
package c03

import (
	"context"
	"encoding/json"
	"fmt"
	"math"
	"math/rand"
	"os"
	"sort"
	"strconv"
	"testing"
	"time"

	"verifharness/hx"
	"verifharness/rig"

	"github.com/ipfs/ipfs-cluster/api"
	"github.com/ipfs/ipfs-cluster/monitor/pubsubmon"

	peer "github.com/libp2p/go-libp2p-core/peer"
	pubsub "github.com/libp2p/go-libp2p-pubsub"
)

type caseIn struct {
	ID         int               `json:"id"`
	Path       string            `json:"path"` // pin | blockalloc | remove
	MS         map[string]string `json:"ms"`
	BadKind    map[string]string `json:"badkind"`
	Cur        []string          `json:"cur"`
	Existing   bool              `json:"existing"`
	BL         []string          `json:"bl"`
	Prio       []string          `json:"prio"`
	Rmin       int               `json:"rmin"`
	Rmax       int               `json:"rmax"`
	UseDefault bool              `json:"usedefault"`
	Strat      string            `json:"strat"`
	Nontrivial bool              `json:"nontrivial"`
}

type specIn struct {
	MS    map[string]string `json:"ms"`
	Cur   []string          `json:"cur"`
	BL    []string          `json:"bl"`
	Prio  []string          `json:"prio"`
	Rmin  int               `json:"rmin"`
	Rmax  int               `json:"rmax"`
	Strat string            `json:"strat"`
}

type specOut struct {
	OK      bool     `json:"ok"`
	Allocs  []string `json:"allocs"`
	Changed bool     `json:"changed"`
	Err     string   `json:"err,omitempty"`
}

type rec struct {
	ID   int     `json:"id"`
	Path string  `json:"path"`
	In   specIn  `json:"in"`
	Out  specOut `json:"out"`
}

type env struct {
	r     *rig.Rig
	mon   *pubsubmon.Monitor
	names *hx.Names
	rng   *rand.Rand
	n     int
}

func newEnv(desc bool, seed int64) (*env, error) {
	ctx := context.Background()
	h, err := rig.NewHost()
	if err != nil {
		return nil, err
	}
	ps, err := pubsub.NewGossipSub(ctx, h)
	if err != nil {
		return nil, err
	}
	shared := rig.NewSharedState()
	cons := &rig.FakeConsensus{ID: h.ID(), S: shared}
	cfg := &pubsubmon.Config{}
	cfg.Default()
	cfg.CheckInterval = time.Hour
	mon, err := pubsubmon.New(ctx, cfg, ps, cons.Peers)
	if err != nil {
		return nil, err
	}
	r, err := rig.NewRig(rig.Opts{Host: h, Shared: shared, Descending: desc, Monitor: mon, RplMin: 2, RplMax: 3})
	if err != nil {
		return nil, err
	}
	e := &env{r: r, mon: mon, names: hx.NewNames(seed), rng: rand.New(rand.NewSource(seed))}
	e.names.SetPeer("p1", r.ID)
	return e, nil
}

func (e *env) pinsJSON() string {
	pins := e.r.Shared.Pins()
	sort.Slice(pins, func(i, j int) bool { return pins[i].Cid.String() < pins[j].Cid.String() })
	b, _ := json.Marshal(pins)
	return string(b)
}

func (e *env) run(c *caseIn) (*rec, error) {
	ctx := context.Background()
	e.n++
	name := fmt.Sprintf("m%d", e.n)
	e.r.Informer.SetName(name)
	// three increasing numeric values, extremes included now and then
	vals := []uint64{uint64(e.rng.Intn(1000)), 0, 0}
	vals[1] = vals[0] + 1 + uint64(e.rng.Intn(1000))
	vals[2] = vals[1] + 1 + uint64(e.rng.Intn(1000))
	if e.rng.Intn(4) == 0 {
		vals[0] = 0
	}
	if e.rng.Intn(4) == 0 {
		vals[2] = math.MaxUint64
	}
	nonnum := []string{"abc", "-1", "1.5", "", "0x10", " 7"}
	var members []peer.ID
	peersSorted := make([]string, 0, len(c.MS))
	for p := range c.MS {
		peersSorted = append(peersSorted, p)
	}
	sort.Strings(peersSorted)
	for _, p := range peersSorted {
		st := c.MS[p]
		pid := e.names.Peer(p)
		member := true
		m := &api.Metric{Name: name, Peer: pid, Valid: true}
		m.SetTTL(time.Hour)
		log := true
		switch st {
		case "v0", "v1", "v2":
			m.Value = strconv.FormatUint(vals[int(st[1]-'0')], 10)
		case "nonnum":
			m.Value = nonnum[e.rng.Intn(len(nonnum))]
		case "bad":
			switch c.BadKind[p] {
			case "expired":
				m.Value = "1"
				m.Expire = time.Now().Add(-time.Hour).UnixNano()
			case "invalid":
				m.Value = "1"
				m.Valid = false
			case "nonmember":
				m.Value = "1"
				member = false
			default: // absent
				log = false
			}
		default:
			return nil, fmt.Errorf("unknown metric state %q", st)
		}
		if p == "p1" {
			member = true // the local peer is always a member
			if st == "bad" && c.BadKind[p] == "nonmember" {
				log = false
			}
		}
		if log {
			// "currently have a valid unexpired metric" is about the LATEST metric received: half of the
			// time an older metric of the opposite health precedes it (healthy-then-bad, bad-then-healthy)
			if e.rng.Intn(2) == 0 {
				prev := &api.Metric{Name: name, Peer: pid, Valid: true, Value: "5"}
				if st == "bad" {
					prev.SetTTL(2 * time.Hour)
				} else {
					prev.Expire = time.Now().Add(-2 * time.Hour).UnixNano()
					if e.rng.Intn(2) == 0 {
						prev.Valid = false
						prev.SetTTL(2 * time.Hour)
					}
				}
				if err := e.mon.LogMetric(ctx, prev); err != nil {
					return nil, err
				}
			}
			if err := e.mon.LogMetric(ctx, m); err != nil {
				return nil, err
			}
		}
		if member {
			members = append(members, pid)
		}
	}
	e.r.Shared.SetPeers(members)
	e.r.Shared.Reset()
	ci := e.names.Cid(fmt.Sprintf("c%d", 1+e.n%7))
	if c.Existing {
		oldOpts := api.PinOptions{ReplicationFactorMin: c.Rmin, ReplicationFactorMax: c.Rmax, Name: "old"}
		// half of the eligible existing pins differ from the request in ONE replication factor only (same name,
		// nothing else): the factors of the request decide, the "options unchanged, re-submit what there is"
		// shortcut of Cluster.pin() must not apply
		// (path "pin" only: PeerRemove re-allocates with the factors of the STORED pin)
		if c.Path == "pin" && !c.UseDefault && len(c.Prio) == 0 && c.Rmin >= 1 && c.Rmax >= c.Rmin {
			switch c.ID % 4 {
			case 1:
				if c.Rmin > 1 {
					oldOpts.Name = "new"
					oldOpts.ReplicationFactorMin = c.Rmin - 1
				}
			case 3:
				oldOpts.Name = "new"
				oldOpts.ReplicationFactorMax = c.Rmax + 1
			}
		}
		old := api.PinWithOpts(ci, oldOpts)
		old.Allocations = e.names.Peers(c.Cur)
		if err := e.r.Shared.State.Add(ctx, old); err != nil {
			return nil, err
		}
	}
	before := e.pinsJSON()
	out := specOut{Allocs: []string{}}
	opts := api.PinOptions{ReplicationFactorMin: c.Rmin, ReplicationFactorMax: c.Rmax, Name: "new",
		UserAllocations: e.names.Peers(c.Prio)}
	if c.UseDefault {
		opts.ReplicationFactorMin, opts.ReplicationFactorMax = 0, 0
	}
	switch c.Path {
	case "pin":
		res, err := e.r.Cluster.Pin(ctx, ci, opts)
		out.OK = err == nil
		if err != nil {
			out.Err = err.Error()
		} else {
			stored, gerr := e.r.Shared.State.Get(ctx, ci)
			if gerr != nil {
				return nil, fmt.Errorf("pin succeeded but nothing stored: %v", gerr)
			}
			out.Allocs = e.names.PeerNames(stored.Allocations)
			if fmt.Sprint(e.names.PeerNames(res.Allocations)) != fmt.Sprint(out.Allocs) {
				out.Err = "returned allocations differ from stored ones"
				out.Allocs = append(out.Allocs, "returned-differs")
			}
		}
	case "blockalloc":
		var allocs []peer.ID
		in := api.PinWithOpts(ci, opts)
		err := e.r.RPC().CallContext(ctx, "", "Cluster", "BlockAllocate", in, &allocs)
		out.OK = err == nil
		if err != nil {
			out.Err = err.Error()
		} else {
			out.Allocs = e.names.PeerNames(allocs)
		}
	case "remove":
		e.r.Shared.TakeCalls()
		err := e.r.Cluster.PeerRemove(ctx, e.names.Peer(c.BL[0]))
		if err != nil {
			return nil, fmt.Errorf("PeerRemove: %v", err)
		}
		calls := e.r.Shared.TakeCalls()
		for _, k := range calls {
			if k.Kind == "pin" && k.Pin.Cid.Equals(ci) {
				out.OK = true
				out.Allocs = e.names.PeerNames(k.Pin.Allocations)
			}
			if k.Kind == "unpin" {
				out.Err = "unpin issued during vacate"
				out.Allocs = append(out.Allocs, "unpinned")
			}
		}
	default:
		return nil, fmt.Errorf("unknown path %q", c.Path)
	}
	out.Changed = e.pinsJSON() != before
	nz := func(s []string) []string {
		if s == nil {
			return []string{}
		}
		return s
	}
	return &rec{ID: c.ID, Path: c.Path, In: specIn{MS: c.MS, Cur: nz(c.Cur), BL: nz(c.BL), Prio: nz(c.Prio), Rmin: c.Rmin, Rmax: c.Rmax, Strat: c.Strat}, Out: out}, nil
}

func TestDriver(t *testing.T) {
	rig.Quiet()
	res := hx.NewResult()
	defer res.Write()
	cases, err := hx.LoadCases()
	if err != nil {
		t.Fatal(err)
	}
	envs := map[string]*env{}
	defer func() {
		for _, e := range envs {
			e.r.Close()
		}
	}()
	outf, err := os.Create(os.Getenv("VERIF_TRACE"))
	if err != nil {
		t.Fatal(err)
	}
	defer outf.Close()
	w := json.NewEncoder(outf)
	for _, raw := range cases {
		var c caseIn
		if err := json.Unmarshal(raw, &c); err != nil {
			t.Fatal(err)
		}
		e := envs[c.Strat]
		if e == nil || e.n > 20000 {
			if e != nil {
				e.r.Close()
			}
			e, err = newEnv(c.Strat == "desc", hx.Seed())
			if err != nil {
				res.Infra("cannot build rig: %v", err)
				return
			}
			envs[c.Strat] = e
		}
		r, err := e.run(&c)
		if err != nil {
			res.Infra("case %d: %v", c.ID, err)
			return
		}
		w.Encode(r)
		res.Case(map[string]interface{}{"path": c.Path, "in": r.In, "out": r.Out}, c.Nontrivial)
	}
}
