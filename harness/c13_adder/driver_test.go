// C13 drivers.
//
// TestReplay (R): scripted block streams are fed through Add/Finalize of the
// real single.DAGService / sharding.DAGService against the recording rig.
// TestAdder (V): the real adder.Adder (FromFiles / FromMultipart) imports
// generated file trees; a recording wrapper around the DAG service logs the
// block stream, the rig logs what reached the daemons and the cluster.
// Both write {in, out} records; spec/AdderTrace.tla decides the verdicts.
package c13

import (
	"bytes"
	"context"
	"crypto/sha256"
	"encoding/binary"
	"encoding/hex"
	"encoding/json"
	"errors"
	"fmt"
	"io/ioutil"
	"math/rand"
	"mime/multipart"
	"os"
	"sort"
	"strings"
	"testing"
	"time"

	"verifharness/hx"

	"github.com/ipfs/ipfs-cluster/adder"
	"github.com/ipfs/ipfs-cluster/adder/sharding"
	"github.com/ipfs/ipfs-cluster/adder/single"
	"github.com/ipfs/ipfs-cluster/api"

	blocks "github.com/ipfs/go-block-format"
	cid "github.com/ipfs/go-cid"
	chunker "github.com/ipfs/go-ipfs-chunker"
	files "github.com/ipfs/go-ipfs-files"
	ipld "github.com/ipfs/go-ipld-format"
	merkledag "github.com/ipfs/go-merkledag"
	"github.com/ipfs/go-unixfs/importer/balanced"
	ihelper "github.com/ipfs/go-unixfs/importer/helpers"
	"github.com/ipfs/go-unixfs/importer/trickle"
	uio "github.com/ipfs/go-unixfs/io"
	multihash "github.com/multiformats/go-multihash"
)

// ---------------------------------------------------------------------------
// case formats (written by tools/props/c13.py)

type blockSpec struct {
	Kind  string `json:"kind"` // raw | proto
	Size  int    `json:"size"` // raw: exact byte size (>= 2); proto: bytes of payload
	Links []int  `json:"links"`
}

type limitSpec struct {
	Abs   int64 `json:"abs"`   // > 0: absolute shard size
	K     int   `json:"k"`     // else: sum of the sizes of the first K stream blocks ...
	Delta int64 `json:"delta"` // ... plus Delta
}

type fileSpec struct {
	Path string `json:"path"`
	Size int    `json:"size"`
	Seed int64  `json:"seed"`
}

type caseIn struct {
	ID     int    `json:"id"`
	Mode   string `json:"mode"` // R | V
	Class  string `json:"class"`
	Shard  bool   `json:"shard"`
	Limit  limitSpec
	Rmin   int    `json:"rmin"`
	Rmax   int    `json:"rmax"`
	Local  bool   `json:"local"`
	Name   string `json:"name"`
	Script script `json:"script"`
	// R
	Blocks []blockSpec `json:"blocks"`
	Stream []int       `json:"stream"`
	Root   int         `json:"root"`
	// V
	Tree      []fileSpec `json:"tree"`
	Top       string     `json:"top"` // dir | file
	Via       string     `json:"via"` // files | multipart
	Wrap      bool       `json:"wrap"`
	Chunker   string     `json:"chunker"`
	Layout    string     `json:"layout"`
	RawLeaves bool       `json:"rawleaves"`
	CidV      int        `json:"cidv"`
	Hash      string     `json:"hash"`
	Flip      bool       `json:"flip"` // also run with sharding flipped and compare roots
	// R: very long stream; the record is judged by the property predicates only (Conforms costs TLC O(n^2))
	NoConf bool `json:"partial"`
}

func (c *caseIn) UnmarshalJSON(b []byte) error {
	type alias caseIn
	aux := struct {
		*alias
		Limit limitSpec `json:"limit"`
	}{alias: (*alias)(c)}
	if err := json.Unmarshal(b, &aux); err != nil {
		return err
	}
	c.Limit = aux.Limit
	return nil
}

type blkOut struct {
	ID    string   `json:"id"`
	Size  int      `json:"size"`
	Links []string `json:"links"`
}

type specIn struct {
	Blk       []blkOut            `json:"blk"`
	Stream    []int               `json:"stream"`
	Root      string              `json:"root"`
	Shard     bool                `json:"shard"`
	ShardSize int64               `json:"shardSize"`
	MaxLinks  int                 `json:"maxLinks"`
	Rmin      int                 `json:"rmin"`
	Rmax      int                 `json:"rmax"`
	Local     bool                `json:"local"`
	Name      string              `json:"name"`
	Alloc     []allocRes          `json:"alloc"`
	Out       map[string][]string `json:"out"`
	PinRes    []bool              `json:"pinres"`
}

type record struct {
	ID    int     `json:"id"`
	Mode  string  `json:"mode"`
	Class string  `json:"class"`
	In    *specIn `json:"in"`
	Out   *obs    `json:"out"`
	Err   string  `json:"err,omitempty"`
	// V: blocks whose DAGService.Add returned an error although the adder went on (diagnostic, for the key)
	AddErrs []string `json:"adderrs,omitempty"`
	Layout  string   `json:"layout,omitempty"`
	// the block stream / allocation calls were not observable: property predicates only
	Partial bool `json:"partial"`
}

func (e *env) specIn(c *caseIn, shardSize int64) *specIn {
	e.mu.Lock()
	defer e.mu.Unlock()
	return &specIn{Shard: c.Shard, ShardSize: shardSize, MaxLinks: sharding.MaxLinks, Rmin: c.Rmin, Rmax: c.Rmax,
		Local: c.Local, Name: c.Name, Alloc: e.sc.Alloc, Out: e.sc.Out, PinRes: e.sc.PinRes,
		Blk: []blkOut{}, Stream: []int{}}
}

func newDAGService(e *env, c *caseIn, shardSize int64) adder.ClusterDAGService {
	opts := api.PinOptions{ReplicationFactorMin: c.Rmin, ReplicationFactorMax: c.Rmax, Name: c.Name,
		ShardSize: uint64(shardSize)}
	if c.Shard {
		return sharding.New(e.client, opts, nil)
	}
	return single.New(e.client, opts, c.Local)
}

// ---------------------------------------------------------------------------
// R: scripted streams

func payload(caseID, k, size int) []byte {
	b := make([]byte, size)
	r := rand.New(rand.NewSource(int64(caseID)*1000003 + int64(k)))
	r.Read(b)
	// the first bytes make the content unique per block of the case
	var hdr [4]byte
	binary.BigEndian.PutUint32(hdr[:], uint32(k))
	if size >= 4 {
		copy(b, hdr[:])
	} else {
		copy(b, hdr[4-size:])
	}
	return b
}

func buildNodes(c *caseIn) ([]ipld.Node, error) {
	nodes := make([]ipld.Node, len(c.Blocks))
	for i, bs := range c.Blocks {
		switch bs.Kind {
		case "raw":
			if bs.Size < 2 {
				return nil, fmt.Errorf("raw block of size %d", bs.Size)
			}
			nodes[i] = merkledag.NewRawNode(payload(c.ID, i+1, bs.Size))
		case "proto":
			pn := merkledag.NodeWithData(payload(c.ID, i+1, bs.Size+4))
			for j, l := range bs.Links {
				if l < 1 || l > i {
					return nil, fmt.Errorf("block %d links forward", i+1)
				}
				if err := pn.AddNodeLink(fmt.Sprintf("l%d", j), nodes[l-1]); err != nil {
					return nil, err
				}
			}
			nodes[i] = pn
		default:
			return nil, fmt.Errorf("unknown block kind %q", bs.Kind)
		}
	}
	return nodes, nil
}

func runReplay(e *env, c *caseIn) (*record, error) {
	ctx, cancel := context.WithTimeout(context.Background(), 5*time.Minute)
	defer cancel()
	nodes, err := buildNodes(c)
	if err != nil {
		return nil, err
	}
	data := map[string]string{}
	blk := make([]blkOut, len(nodes))
	for i, n := range nodes {
		data[n.Cid().String()] = fmt.Sprintf("b%d", i+1)
	}
	if len(data) != len(nodes) {
		return nil, errors.New("generated blocks are not distinct")
	}
	for i, n := range nodes {
		ls := []string{}
		for _, l := range n.Links() {
			ls = append(ls, data[l.Cid.String()])
		}
		blk[i] = blkOut{ID: fmt.Sprintf("b%d", i+1), Size: len(n.RawData()), Links: ls}
	}
	shardSize := c.Limit.Abs
	if shardSize <= 0 {
		for i := 0; i < c.Limit.K && i < len(c.Stream); i++ {
			shardSize += int64(blk[c.Stream[i]-1].Size)
		}
		shardSize += c.Limit.Delta
		if shardSize < 1 {
			shardSize = 1
		}
	}
	e.reset(c.Script)
	in := e.specIn(c, shardSize)
	in.Blk = blk
	in.Stream = c.Stream
	in.Root = blk[c.Root-1].ID
	dgs := newDAGService(e, c, shardSize)
	ok := true
	var errStr string
	var root cid.Cid
	for _, k := range c.Stream {
		if err := dgs.Add(ctx, nodes[k-1]); err != nil {
			ok = false
			errStr = err.Error()
			break
		}
	}
	if ok {
		root, err = dgs.Finalize(ctx, nodes[c.Root-1].Cid())
		if err != nil {
			ok = false
			errStr = err.Error()
		}
	}
	if ctx.Err() != nil {
		return nil, fmt.Errorf("case %d timed out", c.ID)
	}
	o := e.observe(data)
	o.OK = ok
	if ok {
		o.Root = data[root.String()]
		if o.Root == "" {
			o.Root = "?" + root.String()
		}
	}
	return &record{ID: c.ID, Mode: "R", Class: c.Class, In: in, Out: o, Err: errStr, Partial: c.NoConf}, nil
}

// ---------------------------------------------------------------------------
// V: the real adder over generated trees

// recDAG records the block stream handed to the real DAG service.
type recDAG struct {
	adder.ClusterDAGService
	names  map[string]string
	blk    []blkOut
	pend   [][]string // links as CIDs, named at the end (children may be named later)
	stream []int
	index  map[string]int
	root   string
	// blocks whose Add returned an error to the caller (the importer)
	addErrs []string
	// the caller went on calling after an Add error (the transcription of FromFiles - Add until the
	// first error - does not describe such a caller; only the property predicates are evaluated)
	wentOn bool
}

func newRecDAG(inner adder.ClusterDAGService) *recDAG {
	return &recDAG{ClusterDAGService: inner, names: map[string]string{}, index: map[string]int{}}
}

func (r *recDAG) note(n ipld.Node) {
	c := n.Cid().String()
	k, ok := r.index[c]
	if !ok {
		k = len(r.blk) + 1
		r.index[c] = k
		r.names[c] = fmt.Sprintf("b%d", k)
		ls := []string{}
		for _, l := range n.Links() {
			ls = append(ls, l.Cid.String())
		}
		r.blk = append(r.blk, blkOut{ID: r.names[c], Size: len(n.RawData())})
		r.pend = append(r.pend, ls)
	}
	r.stream = append(r.stream, k)
}

func (r *recDAG) Add(ctx context.Context, n ipld.Node) error {
	if len(r.addErrs) > 0 {
		r.wentOn = true
	}
	r.note(n)
	err := r.ClusterDAGService.Add(ctx, n)
	if err != nil {
		r.addErrs = append(r.addErrs, r.names[n.Cid().String()])
	}
	return err
}

func (r *recDAG) AddMany(ctx context.Context, ns []ipld.Node) error {
	for _, n := range ns {
		if err := r.Add(ctx, n); err != nil {
			return err
		}
	}
	return nil
}

func (r *recDAG) Finalize(ctx context.Context, root cid.Cid) (cid.Cid, error) {
	if len(r.addErrs) > 0 {
		r.wentOn = true
	}
	r.root = root.String()
	return r.ClusterDAGService.Finalize(ctx, root)
}

func (r *recDAG) finish() {
	for i := range r.blk {
		ls := []string{}
		for _, c := range r.pend[i] {
			n, ok := r.names[c]
			if !ok {
				n = "?" + c
			}
			ls = append(ls, n)
		}
		r.blk[i].Links = ls
	}
}

func fileBytes(f fileSpec) []byte {
	b := make([]byte, f.Size)
	rand.New(rand.NewSource(f.Seed)).Read(b)
	return b
}

// tree -> files.Directory (entries in generation order, like a multipart upload)
type tnode struct {
	name  string
	data  []byte
	dir   bool
	kids  []*tnode
	index map[string]*tnode
}

func buildTree(fs []fileSpec) *tnode {
	root := &tnode{dir: true, index: map[string]*tnode{}}
	for _, f := range fs {
		parts := strings.Split(f.Path, "/")
		cur := root
		for i, p := range parts {
			last := i == len(parts)-1
			nx, ok := cur.index[p]
			if !ok {
				nx = &tnode{name: p, dir: !last, index: map[string]*tnode{}}
				cur.index[p] = nx
				cur.kids = append(cur.kids, nx)
			}
			if last {
				nx.data = fileBytes(f)
			}
			cur = nx
		}
	}
	return root
}

func (t *tnode) toFiles() files.Node {
	if !t.dir {
		return files.NewBytesFile(t.data)
	}
	es := make([]files.DirEntry, 0, len(t.kids))
	for _, k := range t.kids {
		es = append(es, files.FileEntry(k.name, k.toFiles()))
	}
	return files.NewSliceDirectory(es)
}

// mapDAG serves the blocks that reached the daemons.
type mapDAG struct {
	blocks map[string][]byte
}

func (m *mapDAG) Get(ctx context.Context, c cid.Cid) (ipld.Node, error) {
	b, ok := m.blocks[c.String()]
	if !ok {
		return nil, ipld.ErrNotFound
	}
	blk, err := blocks.NewBlockWithCid(b, c)
	if err != nil {
		return nil, err
	}
	return ipld.Decode(blk)
}
func (m *mapDAG) GetMany(ctx context.Context, cs []cid.Cid) <-chan *ipld.NodeOption {
	out := make(chan *ipld.NodeOption, len(cs))
	for _, c := range cs {
		n, err := m.Get(ctx, c)
		out <- &ipld.NodeOption{Node: n, Err: err}
	}
	close(out)
	return out
}
func (m *mapDAG) Add(ctx context.Context, n ipld.Node) error {
	m.blocks[n.Cid().String()] = n.RawData()
	return nil
}
func (m *mapDAG) AddMany(ctx context.Context, ns []ipld.Node) error {
	for _, n := range ns {
		m.Add(ctx, n)
	}
	return nil
}
func (m *mapDAG) Remove(context.Context, cid.Cid) error       { return nil }
func (m *mapDAG) RemoveMany(context.Context, []cid.Cid) error { return nil }

func cidBuilder(c *caseIn) (cid.Builder, error) {
	prefix, err := merkledag.PrefixForCidVersion(c.CidV)
	if err != nil {
		return nil, err
	}
	code, ok := multihash.Names[strings.ToLower(c.Hash)]
	if !ok {
		return nil, fmt.Errorf("hash %q", c.Hash)
	}
	prefix.MhType = code
	prefix.MhLength = -1
	return &prefix, nil
}

// refRoot computes the root with the upstream importer libraries (go-ipfs-chunker,
// go-unixfs/importer, go-unixfs/io directories), independently of adder/ipfsadd.
func refRoot(c *caseIn, t *tnode) (string, error) {
	ctx := context.Background()
	ds := &mapDAG{blocks: map[string][]byte{}}
	cb, err := cidBuilder(c)
	if err != nil {
		return "", err
	}
	var imp func(n *tnode) (ipld.Node, error)
	imp = func(n *tnode) (ipld.Node, error) {
		if !n.dir {
			spl, err := chunker.FromString(bytes.NewReader(n.data), c.Chunker)
			if err != nil {
				return nil, err
			}
			p := ihelper.DagBuilderParams{Dagserv: ds, RawLeaves: c.RawLeaves, Maxlinks: ihelper.DefaultLinksPerBlock,
				CidBuilder: cb}
			db, err := p.New(spl)
			if err != nil {
				return nil, err
			}
			if c.Layout == "trickle" {
				return trickle.Layout(db)
			}
			return balanced.Layout(db)
		}
		d := uio.NewDirectory(ds)
		d.SetCidBuilder(cb)
		for _, k := range n.kids {
			kn, err := imp(k)
			if err != nil {
				return nil, err
			}
			if err := d.AddChild(ctx, k.name, kn); err != nil {
				return nil, err
			}
		}
		return d.GetNode()
	}
	top := t
	if c.Top == "file" {
		if c.Wrap {
			top = &tnode{dir: true, kids: []*tnode{t.kids[0]}}
		} else {
			top = t.kids[0]
		}
	} else if c.Wrap {
		top = &tnode{dir: true, kids: []*tnode{{name: "tree", dir: true, kids: t.kids}}}
	}
	n, err := imp(top)
	if err != nil {
		return "", err
	}
	return n.Cid().String(), nil
}

// readBack reads every file of the tree from the delivered blocks.
func readBack(c *caseIn, t *tnode, root cid.Cid, delivered map[string][]byte) []fileSum {
	ctx := context.Background()
	ds := &mapDAG{blocks: delivered}
	var out []fileSum
	prefix := []string{}
	if c.Top == "dir" && c.Wrap {
		prefix = []string{"tree"}
	}
	rootIsFile := c.Top == "file" && !c.Wrap
	var walk func(n *tnode, path []string)
	walk = func(n *tnode, path []string) {
		if n.dir {
			for _, k := range n.kids {
				walk(k, append(append([]string{}, path...), k.name))
			}
			return
		}
		sum := sha256.Sum256(n.data)
		fs := fileSum{Path: strings.Join(path, "/"), ShaIn: hex.EncodeToString(sum[:])}
		got, err := func() ([]byte, error) {
			cur, err := ds.Get(ctx, root)
			if err != nil {
				return nil, err
			}
			if !rootIsFile {
				for _, p := range append(append([]string{}, prefix...), path...) {
					d, err := uio.NewDirectoryFromNode(ds, cur)
					if err != nil {
						return nil, err
					}
					cur, err = d.Find(ctx, p)
					if err != nil {
						return nil, err
					}
				}
			}
			dr, err := uio.NewDagReader(ctx, cur, ds)
			if err != nil {
				return nil, err
			}
			return ioutil.ReadAll(dr)
		}()
		if err != nil {
			fs.ShaOut = "error: " + err.Error()
		} else {
			s2 := sha256.Sum256(got)
			fs.ShaOut = hex.EncodeToString(s2[:])
		}
		out = append(out, fs)
	}
	if c.Top == "file" {
		walk(t.kids[0], []string{t.kids[0].name})
	} else {
		walk(t, nil)
	}
	sort.Slice(out, func(i, j int) bool { return out[i].Path < out[j].Path })
	return out
}

func addParams(c *caseIn, shard bool, shardSize int64) *api.AddParams {
	p := api.DefaultAddParams()
	p.Shard = shard
	p.ShardSize = uint64(shardSize)
	p.ReplicationFactorMin = c.Rmin
	p.ReplicationFactorMax = c.Rmax
	p.Name = c.Name
	p.Local = c.Local
	p.Wrap = c.Wrap
	p.Chunker = c.Chunker
	p.Layout = c.Layout
	p.RawLeaves = c.RawLeaves
	p.CidVersion = c.CidV
	p.HashFun = c.Hash
	return p
}

func topDir(c *caseIn, t *tnode) files.Directory {
	if c.Top == "file" {
		k := t.kids[0]
		return files.NewSliceDirectory([]files.DirEntry{files.FileEntry(k.name, k.toFiles())})
	}
	return files.NewSliceDirectory([]files.DirEntry{files.FileEntry("tree", t.toFiles())})
}

func doAdd(e *env, c *caseIn, t *tnode, shard bool, shardSize int64, sc script) (*recDAG, cid.Cid, error) {
	ctx, cancel := context.WithTimeout(context.Background(), 5*time.Minute)
	defer cancel()
	e.reset(sc)
	params := addParams(c, shard, shardSize)
	// as adderutils.AddMultipartHTTPHandler does: the DAG service is built from params.PinOptions
	rd := newRecDAG(nil)
	if shard {
		rd.ClusterDAGService = sharding.New(e.client, params.PinOptions, nil)
	} else {
		rd.ClusterDAGService = single.New(e.client, params.PinOptions, params.Local)
	}
	a := adder.New(rd, params, nil)
	dir := topDir(c, t)
	var root cid.Cid
	var err error
	done := make(chan struct{})
	go func() {
		defer close(done)
		if c.Via == "multipart" {
			mfr := files.NewMultiFileReader(dir, true)
			root, err = a.FromMultipart(ctx, multipart.NewReader(mfr, mfr.Boundary()))
		} else {
			root, err = a.FromFiles(ctx, dir)
		}
	}()
	// the importer hands context.TODO() to DAGService.Add, so the deadline has to be enforced here
	select {
	case <-done:
	case <-time.After(6 * time.Minute):
		return rd, cid.Undef, fmt.Errorf("timeout: the add did not return")
	}
	rd.finish()
	if ctx.Err() != nil && err != nil {
		return rd, root, fmt.Errorf("timeout: %v", err)
	}
	return rd, root, err
}

func runAdder(e *env, c *caseIn) (*record, error) {
	if len(c.Tree) == 0 {
		return nil, errors.New("empty tree")
	}
	t := buildTree(c.Tree)
	shardSize := c.Limit.Abs
	if shardSize <= 0 {
		shardSize = int64(api.DefaultShardSize)
	}
	var other string
	if c.Flip {
		_, r2, err := doAdd(e, c, t, !c.Shard, shardSize, script{Alloc: []allocRes{{OK: true, Peers: []string{"p1"}}}})
		if err == nil {
			other = r2.String()
		}
	}
	rd, root, err := doAdd(e, c, t, c.Shard, shardSize, c.Script)
	if err != nil && strings.HasPrefix(err.Error(), "timeout") {
		return nil, err
	}
	in := e.specIn(c, shardSize)
	in.Blk = rd.blk
	in.Stream = rd.stream
	in.Root = "?none"
	if rd.root != "" {
		in.Root = rd.names[rd.root]
		if in.Root == "" {
			in.Root = "?" + rd.root
		}
	}
	o := e.observe(rd.names)
	o.OK = err == nil
	rec := &record{ID: c.ID, Mode: "V", Class: c.Class, In: in, Out: o, AddErrs: rd.addErrs, Layout: c.Layout,
		Partial: rd.wentOn}
	if rec.Layout == "" {
		rec.Layout = "balanced"
	}
	if err != nil {
		rec.Err = err.Error()
		return rec, nil
	}
	o.Root = rd.names[root.String()]
	if o.Root == "" {
		o.Root = "?" + root.String()
	}
	e.mu.Lock()
	delivered := map[string][]byte{}
	for c := range e.deliv {
		delivered[c] = e.bytes[c]
	}
	e.mu.Unlock()
	o.Content.RootCid = root.String()
	o.Content.Files = readBack(c, t, root, delivered)
	o.Content.Other = other
	ref, rerr := refRoot(c, t)
	if rerr != nil {
		return nil, fmt.Errorf("reference importer failed on case %d: %v", c.ID, rerr)
	}
	o.Content.RefRoot = ref
	return rec, nil
}

// ---------------------------------------------------------------------------

func nontrivial(r *record) bool {
	// more than one shard, an indirect shard, a fault that fired, or more than one file
	pins, faults := 0, 0
	for _, ev := range r.Out.Evs {
		switch ev["t"] {
		case "pin":
			pins++
			if ok, _ := ev["ok"].(bool); !ok {
				faults++
			}
		case "put":
			for _, x := range ev["res"].([]map[string]interface{}) {
				if x["r"] != "ok" {
					faults++
				}
			}
		case "alloc":
			if ok, _ := ev["ok"].(bool); !ok {
				faults++
			}
		}
	}
	return pins > 3 || faults > 0 || len(r.Out.Content.Files) > 1
}

func runCases(res *hx.Result, mode string, fn func(c *caseIn) (*record, error)) {
	cases, err := hx.LoadCases()
	if err != nil {
		res.Infra("loading cases: %v", err)
		return
	}
	tracePath := os.Getenv("VERIF_TRACE")
	if tracePath == "" {
		tracePath = os.DevNull
	}
	f, err := os.Create(tracePath)
	if err != nil {
		res.Infra("trace file: %v", err)
		return
	}
	defer f.Close()
	enc := json.NewEncoder(f)
	n := 0
	for _, raw := range cases {
		var c caseIn
		if err := json.Unmarshal(raw, &c); err != nil {
			res.Infra("bad case: %v", err)
			return
		}
		if c.Mode != mode {
			continue
		}
		rec, err := fn(&c)
		if err != nil {
			res.Infra("case %d: %v", c.ID, err)
			return
		}
		if err := enc.Encode(rec); err != nil {
			res.Infra("writing record: %v", err)
			return
		}
		n++
		cc := c
		cc.ID = 0
		sample := map[string]interface{}{"case": hx.Hash(cc), "mode": mode, "class": c.Class, "shard": c.Shard,
			"blocks": len(rec.In.Blk), "events": len(rec.Out.Evs), "ok": rec.Out.OK, "script": c.Script}
		res.Case(sample, nontrivial(rec))
	}
	res.Set("records_"+mode, n)
}

func runAll(t *testing.T, mode string) {
	quiet()
	res := hx.NewResult()
	defer res.Write()
	e, err := newEnv()
	if err != nil {
		res.Infra("rig: %v", err)
		return
	}
	defer e.close()
	runCases(res, mode, func(c *caseIn) (*record, error) {
		if mode == "R" {
			return runReplay(e, c)
		}
		return runAdder(e, c)
	})
}

func TestReplay(t *testing.T) { runAll(t, "R") }
func TestAdder(t *testing.T)  { runAll(t, "V") }
