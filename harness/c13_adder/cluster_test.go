// TestCluster (composition): Cluster.AddFile on a real Cluster (real
// BlockAllocate / allocate, real Cluster.Pin -> setupPin / checkPinType, pins
// read back from the consensus log), with a recording IPFSConnector. Inputs
// are CAR uploads of tiny blocks (the indirect-shard boundary, end to end) and
// small generated trees. The block stream is not observable here, so these
// records are checked against the property predicates only (partial = true).
package c13

import (
	"bytes"
	"context"
	"fmt"
	"mime/multipart"
	"sync"
	"testing"
	"time"

	"verifharness/hx"
	"verifharness/rig"

	"github.com/ipfs/ipfs-cluster/adder/sharding"
	"github.com/ipfs/ipfs-cluster/api"

	cid "github.com/ipfs/go-cid"
	peer "github.com/libp2p/go-libp2p-core/peer"
	files "github.com/ipfs/go-ipfs-files"
	merkledag "github.com/ipfs/go-merkledag"
	car "github.com/ipld/go-car"
	carutil "github.com/ipld/go-car/util"
)

type recIPFS struct {
	*rig.FakeIPFS
	mu   sync.Mutex
	puts []*api.NodeWithMeta
}

func (r *recIPFS) BlockPut(ctx context.Context, n *api.NodeWithMeta) error {
	r.mu.Lock()
	r.puts = append(r.puts, &api.NodeWithMeta{Cid: n.Cid, Data: append([]byte{}, n.Data...)})
	r.mu.Unlock()
	return r.FakeIPFS.BlockPut(ctx, n)
}

func carOf(caseID, n int) ([]byte, error) {
	var buf bytes.Buffer
	var first cid.Cid
	nodes := make([]*merkledag.RawNode, n)
	for i := 0; i < n; i++ {
		nodes[i] = merkledag.NewRawNode(payload(caseID, i+1, 3))
	}
	first = nodes[0].Cid()
	if err := car.WriteHeader(&car.CarHeader{Roots: []cid.Cid{first}, Version: 1}, &buf); err != nil {
		return nil, err
	}
	for _, nd := range nodes {
		if err := carutil.LdWrite(&buf, nd.Cid().Bytes(), nd.RawData()); err != nil {
			return nil, err
		}
	}
	return buf.Bytes(), nil
}

func runCluster(r *rig.Rig, ipfs *recIPFS, c *caseIn) (*record, error) {
	r.Shared.Reset()
	ipfs.mu.Lock()
	ipfs.puts = nil
	ipfs.mu.Unlock()
	shardSize := c.Limit.Abs
	if shardSize <= 0 {
		shardSize = int64(api.DefaultShardSize)
	}
	params := addParams(c, c.Shard, shardSize)
	var dir files.Directory
	var t *tnode
	if len(c.Blocks) > 0 { // CAR upload of len(c.Blocks) tiny blocks
		b, err := carOf(c.ID, len(c.Blocks))
		if err != nil {
			return nil, err
		}
		params.Format = "car"
		params.Wrap = false
		dir = files.NewSliceDirectory([]files.DirEntry{files.FileEntry("blocks.car", files.NewBytesFile(b))})
	} else {
		t = buildTree(c.Tree)
		dir = topDir(c, t)
	}
	addOnce := func(d files.Directory) (cid.Cid, error) {
		mfr := files.NewMultiFileReader(d, true)
		done := make(chan struct{})
		var root cid.Cid
		var err error
		go func() {
			root, err = r.Cluster.AddFile(multipart.NewReader(mfr, mfr.Boundary()), params)
			close(done)
		}()
		select {
		case <-done:
		case <-time.After(5 * time.Minute):
			return root, fmt.Errorf("Cluster.AddFile timed out")
		}
		return root, err
	}
	root, err := addOnce(dir)
	if err != nil {
		// no fault is scripted in this mode: a refused add is not a statement violation, but it is
		// not the behaviour this driver is built to observe either
		return nil, fmt.Errorf("case %d: Cluster.AddFile failed without any scripted fault: %v", c.ID, err)
	}
	// project onto the specification's vocabulary through the same code as the other drivers
	e := &env{pnames: map[peer.ID]string{r.ID: "p1"}}
	e.reset(script{Alloc: []allocRes{{OK: true, Peers: []string{"p1"}}}})
	data := map[string]string{}
	index := map[string]int{}
	in := &specIn{Shard: c.Shard, ShardSize: shardSize, MaxLinks: sharding.MaxLinks, Rmin: c.Rmin, Rmax: c.Rmax,
		Local: c.Local, Name: c.Name, Alloc: e.sc.Alloc, Out: e.sc.Out, PinRes: e.sc.PinRes,
		Blk: []blkOut{}, Stream: []int{}}
	ipfs.mu.Lock()
	puts := ipfs.puts
	ipfs.mu.Unlock()
	for _, p := range puts {
		cs := p.Cid.String()
		e.bytes[cs] = p.Data
		e.deliv[cs] = true
		e.raw = append(e.raw, rawEv{kind: "put", dest: "p1", cid: cs, res: "ok"})
		if p.Cid.Type() == cid.DagCBOR {
			continue
		}
		if _, seen := data[cs]; !seen {
			data[cs] = fmt.Sprintf("b%d", len(in.Blk)+1)
			index[cs] = len(in.Blk) + 1
			in.Blk = append(in.Blk, blkOut{ID: data[cs], Size: len(p.Data)})
		}
		in.Stream = append(in.Stream, index[cs])
	}
	nm := &namer{e: e, data: data, memo: map[string]string{}}
	for i := range in.Blk {
		for cs, name := range data {
			if name == in.Blk[i].ID {
				ls, _, _ := nm.decode(cs)
				if ls == nil {
					ls = []string{}
				}
				in.Blk[i].Links = ls
			}
		}
	}
	for _, call := range r.Shared.TakeCalls() {
		if call.Kind != "pin" {
			continue
		}
		p := call.Pin
		ref := "nil"
		if p.Reference != nil {
			ref = "undef"
			if p.Reference.Defined() {
				ref = p.Reference.String()
			}
		}
		allocs := []string{}
		for _, a := range p.Allocations {
			n, ok := e.pnames[a]
			if !ok {
				n = "?" + a.Pretty()
			}
			allocs = append(allocs, n)
		}
		e.raw = append(e.raw, rawEv{kind: "pin", ok: call.Err == nil, pin: &pinRec{Cid: p.Cid.String(),
			Type: pinTypeName(p.Type), Depth: int(p.MaxDepth), Ref: ref, Allocs: allocs, Name: p.Name,
			Rmin: p.ReplicationFactorMin, Rmax: p.ReplicationFactorMax, Ssize: int64(p.ShardSize)}})
	}
	if c.Flip {
		// the same content again: every pin now exists, so Cluster.pin runs its re-pin checks
		// (checkPinType) on what the adder emits; the pins must be accepted as they are
		var dir2 files.Directory
		if t == nil {
			b, _ := carOf(c.ID, len(c.Blocks))
			dir2 = files.NewSliceDirectory([]files.DirEntry{files.FileEntry("blocks.car", files.NewBytesFile(b))})
		} else {
			dir2 = topDir(c, buildTree(c.Tree))
		}
		root2, err := addOnce(dir2)
		if err != nil {
			return nil, fmt.Errorf("case %d: adding the same content a second time failed: %v", c.ID, err)
		}
		if !root2.Equals(root) {
			return nil, fmt.Errorf("case %d: second add of the same content returned another root", c.ID)
		}
		for _, call := range r.Shared.TakeCalls() {
			if call.Err != nil {
				return nil, fmt.Errorf("case %d: consensus refused a pin on re-add: %v", c.ID, call.Err)
			}
		}
	}
	in.Root = data[root.String()]
	if in.Root == "" {
		in.Root = "?" + root.String()
	}
	o := e.observe(data)
	o.OK = true
	o.Root = in.Root
	rec := &record{ID: c.ID, Mode: "C", Class: c.Class, In: in, Out: o, Partial: true}
	if t != nil {
		o.Content.RootCid = root.String()
		o.Content.Files = readBack(c, t, root, e.bytes)
		ref, rerr := refRoot(c, t)
		if rerr != nil {
			return nil, rerr
		}
		o.Content.RefRoot = ref
	}
	return rec, nil
}

func TestCluster(t *testing.T) {
	rig.Quiet()
	quiet()
	res := hx.NewResult()
	defer res.Write()
	ipfs := &recIPFS{FakeIPFS: rig.NewFakeIPFS()}
	r, err := rig.NewRig(rig.Opts{RplMin: 1, RplMax: 1, IPFS: ipfs})
	if err != nil {
		res.Infra("rig: %v", err)
		return
	}
	defer r.Close()
	m := &api.Metric{Name: "freespace", Peer: r.ID, Value: "100", Valid: true}
	m.SetTTL(24 * time.Hour)
	r.Mon.Set("freespace", []*api.Metric{m})
	runCases(res, "C", func(c *caseIn) (*record, error) { return runCluster(r, ipfs, c) })
}
