// C13 rig: three loopback libp2p hosts. p1 is the cluster peer running the
// adder (its rpc server offers Cluster.BlockAllocate, Cluster.Pin and the local
// IPFSConnector.BlockPut), p2 and p3 are remote destinations offering
// IPFSConnector.BlockPut. Every RPC the adder makes is recorded; allocation
// results, per-destination put outcomes and pin outcomes follow a script.
package c13

import (
	"context"
	"encoding/json"
	"errors"
	"fmt"
	"sort"
	"strconv"
	"strings"
	"sync"
	"time"

	"github.com/ipfs/ipfs-cluster/api"

	blocks "github.com/ipfs/go-block-format"
	cid "github.com/ipfs/go-cid"
	cbor "github.com/ipfs/go-ipld-cbor"
	ipld "github.com/ipfs/go-ipld-format"
	logging "github.com/ipfs/go-log/v2"
	libp2p "github.com/libp2p/go-libp2p"
	host "github.com/libp2p/go-libp2p-core/host"
	peer "github.com/libp2p/go-libp2p-core/peer"
	peerstore "github.com/libp2p/go-libp2p-core/peerstore"
	protocol "github.com/libp2p/go-libp2p-core/protocol"
	rpc "github.com/libp2p/go-libp2p-gorpc"
)

var destOrder = []string{"p1", "p2", "p3"}

type allocRes struct {
	OK    bool     `json:"ok"`
	Peers []string `json:"peers"`
}

type script struct {
	Alloc  []allocRes          `json:"alloc"`
	Out    map[string][]string `json:"out"`
	PinRes []bool              `json:"pinres"`
}

type pinRec struct {
	Cid    string   `json:"cid"`
	Type   string   `json:"type"`
	Depth  int      `json:"depth"`
	Ref    string   `json:"ref"`
	Allocs []string `json:"allocs"`
	Name   string   `json:"name"`
	Rmin   int      `json:"rmin"`
	Rmax   int      `json:"rmax"`
	Ssize  int64    `json:"ssize"`
}

type rawEv struct {
	kind  string // alloc | put | pin
	dest  string
	cid   string // "" when the call was refused before its arguments were read
	res   string
	ok    bool
	peers []string
	rmin  int
	rmax  int
	pin   *pinRec // cid / ref still concrete
}

type env struct {
	hosts  []host.Host
	pids   map[string]peer.ID
	pnames map[peer.ID]string
	client *rpc.Client

	mu     sync.Mutex
	sc     script
	nalloc int
	npin   int
	cnt    map[string]int
	raw    []rawEv
	bytes  map[string][]byte // cid -> bytes as sent
	deliv  map[string]bool   // cid -> stored by at least one daemon
	perDst map[string]map[string]bool
}

func quiet() {
	logging.SetAllLoggers(logging.LevelFatal)
	for _, n := range []string{"adder", "shardingdags", "singledags", "p2p-gorpc", "coreunix", "apitypes", "rpcutil"} {
		logging.SetLogLevel(n, "fatal")
	}
}

type clusterSvc struct{ e *env }
type ipfsSvc struct {
	e    *env
	name string
}

func (c *clusterSvc) BlockAllocate(ctx context.Context, in *api.Pin, out *[]peer.ID) error {
	e := c.e
	e.mu.Lock()
	defer e.mu.Unlock()
	e.nalloc++
	if len(e.sc.Alloc) == 0 {
		return errors.New("harness: empty allocation script")
	}
	a := e.sc.Alloc[len(e.sc.Alloc)-1]
	if e.nalloc <= len(e.sc.Alloc) {
		a = e.sc.Alloc[e.nalloc-1]
	}
	e.raw = append(e.raw, rawEv{kind: "alloc", ok: a.OK, peers: append([]string{}, a.Peers...),
		rmin: in.ReplicationFactorMin, rmax: in.ReplicationFactorMax})
	if !a.OK {
		return errors.New("scripted: not enough peers to allocate")
	}
	ps := make([]peer.ID, 0, len(a.Peers))
	for _, n := range a.Peers {
		ps = append(ps, e.pids[n])
	}
	*out = ps
	return nil
}

func pinTypeName(t api.PinType) string {
	switch t {
	case api.DataType:
		return "data"
	case api.ShardType:
		return "shard"
	case api.ClusterDAGType:
		return "cdag"
	case api.MetaType:
		return "meta"
	}
	return fmt.Sprintf("type%d", int(t))
}

func (c *clusterSvc) Pin(ctx context.Context, in *api.Pin, out *api.Pin) error {
	e := c.e
	e.mu.Lock()
	defer e.mu.Unlock()
	e.npin++
	ok := true
	if e.npin <= len(e.sc.PinRes) {
		ok = e.sc.PinRes[e.npin-1]
	}
	ref := "nil"
	if in.Reference != nil {
		if in.Reference.Defined() {
			ref = in.Reference.String()
		} else {
			ref = "undef"
		}
	}
	allocs := []string{}
	for _, p := range in.Allocations {
		n, known := e.pnames[p]
		if !known {
			n = "?" + p.Pretty()
		}
		allocs = append(allocs, n)
	}
	e.raw = append(e.raw, rawEv{kind: "pin", ok: ok, pin: &pinRec{Cid: in.Cid.String(), Type: pinTypeName(in.Type),
		Depth: int(in.MaxDepth), Ref: ref, Allocs: allocs, Name: in.Name, Rmin: in.ReplicationFactorMin,
		Rmax: in.ReplicationFactorMax, Ssize: int64(in.ShardSize)}})
	if !ok {
		return errors.New("scripted: pin refused")
	}
	*out = *in
	return nil
}

// outcome of the next BlockPut arriving at dest (call index cnt+1).
func (e *env) nextOutcome(dest string) string {
	k := e.cnt[dest] + 1
	s := e.sc.Out[dest]
	if k <= len(s) {
		return s[k-1]
	}
	return "ok"
}

// authorize runs in the remote server before the arguments are read: an "rpc"
// outcome is realised as an authorization error (an RPC-level error for the client).
func (e *env) authorize(dest string) bool {
	e.mu.Lock()
	defer e.mu.Unlock()
	if e.nextOutcome(dest) != "rpc" {
		return true
	}
	e.cnt[dest]++
	e.raw = append(e.raw, rawEv{kind: "put", dest: dest, res: "rpc"})
	return false
}

func (s *ipfsSvc) BlockPut(ctx context.Context, in *api.NodeWithMeta, out *struct{}) error {
	e := s.e
	e.mu.Lock()
	defer e.mu.Unlock()
	r := e.nextOutcome(s.name)
	e.cnt[s.name]++
	c := in.Cid.String()
	if _, ok := e.bytes[c]; !ok {
		e.bytes[c] = append([]byte{}, in.Data...)
	}
	if r == "rpc" { // only possible for the local peer: cannot be realised, treat as a script problem
		r = "app"
	}
	e.raw = append(e.raw, rawEv{kind: "put", dest: s.name, cid: c, res: r})
	if r != "ok" {
		return errors.New("scripted: ipfs block/put failed")
	}
	e.deliv[c] = true
	if e.perDst[s.name] == nil {
		e.perDst[s.name] = map[string]bool{}
	}
	e.perDst[s.name][c] = true
	return nil
}

var protoSeq int

func newEnv() (*env, error) {
	ctx := context.Background()
	e := &env{pids: map[string]peer.ID{}, pnames: map[peer.ID]string{}}
	for i := 0; i < 3; i++ {
		h, err := libp2p.New(ctx, libp2p.ListenAddrStrings("/ip4/127.0.0.1/tcp/0"))
		if err != nil {
			return nil, err
		}
		e.hosts = append(e.hosts, h)
		e.pids[destOrder[i]] = h.ID()
		e.pnames[h.ID()] = destOrder[i]
	}
	proto := protocol.ID("/verif/c13/rpc")
	s1 := rpc.NewServer(e.hosts[0], proto)
	if err := s1.RegisterName("Cluster", &clusterSvc{e}); err != nil {
		return nil, err
	}
	if err := s1.RegisterName("IPFSConnector", &ipfsSvc{e, "p1"}); err != nil {
		return nil, err
	}
	for i := 1; i < 3; i++ {
		name := destOrder[i]
		srv := rpc.NewServer(e.hosts[i], proto, rpc.WithAuthorizeFunc(func(pid peer.ID, svc, method string) bool {
			if svc == "IPFSConnector" && method == "BlockPut" {
				return e.authorize(name)
			}
			return true
		}))
		if err := srv.RegisterName("IPFSConnector", &ipfsSvc{e, name}); err != nil {
			return nil, err
		}
		e.hosts[0].Peerstore().AddAddrs(e.hosts[i].ID(), e.hosts[i].Addrs(), peerstore.PermanentAddrTTL)
	}
	e.client = rpc.NewClientWithServer(e.hosts[0], proto, s1)
	// warm the connections up so that the first scripted call does not pay the dial
	for i := 1; i < 3; i++ {
		cctx, cancel := context.WithTimeout(ctx, 20*time.Second)
		err := e.hosts[0].Connect(cctx, peer.AddrInfo{ID: e.hosts[i].ID(), Addrs: e.hosts[i].Addrs()})
		cancel()
		if err != nil {
			return nil, err
		}
	}
	e.reset(script{})
	return e, nil
}

func (e *env) close() {
	for _, h := range e.hosts {
		h.Close()
	}
}

func (e *env) reset(sc script) {
	e.mu.Lock()
	defer e.mu.Unlock()
	if sc.Out == nil {
		sc.Out = map[string][]string{}
	}
	for _, d := range destOrder {
		if sc.Out[d] == nil {
			sc.Out[d] = []string{}
		}
	}
	if sc.PinRes == nil {
		sc.PinRes = []bool{}
	}
	e.sc = sc
	e.nalloc, e.npin = 0, 0
	e.cnt = map[string]int{}
	e.raw = nil
	e.bytes = map[string][]byte{}
	e.deliv = map[string]bool{}
	e.perDst = map[string]map[string]bool{}
}

// ---------------------------------------------------------------------------
// projection of a recorded run onto the specification's vocabulary

type namer struct {
	e    *env
	data map[string]string // cid -> "b<k>"
	memo map[string]string
}

// cborLinks decodes a metadata node (map "0".."n-1" -> cid) into its ordered links.
func cborLinks(b []byte) ([]cid.Cid, bool) {
	var m map[string]cid.Cid
	if err := cbor.DecodeInto(b, &m); err != nil {
		return nil, false
	}
	keys := make([]int, 0, len(m))
	for k := range m {
		n, err := strconv.Atoi(k)
		if err != nil {
			return nil, false
		}
		keys = append(keys, n)
	}
	sort.Ints(keys)
	out := make([]cid.Cid, 0, len(keys))
	for _, k := range keys {
		out = append(out, m[strconv.Itoa(k)])
	}
	return out, true
}

func (n *namer) name(c string) string {
	if c == "" {
		return "?"
	}
	if s, ok := n.data[c]; ok {
		return s
	}
	if s, ok := n.memo[c]; ok {
		return s
	}
	n.memo[c] = "?" + c // cycle guard
	res := "?" + c
	if b, ok := n.e.bytes[c]; ok {
		if pc, err := cid.Decode(c); err == nil && pc.Type() == cid.DagCBOR {
			if links, ok := cborLinks(b); ok {
				parts := make([]string, 0, len(links))
				for _, l := range links {
					parts = append(parts, n.name(l.String()))
				}
				res = "(" + strings.Join(parts, ",") + ")"
			}
		}
	}
	n.memo[c] = res
	return res
}

// links of a delivered block, decoded from the delivered bytes ("?corrupt" when
// the bytes do not hash to the CID they were stored under).
func (n *namer) decode(c string) ([]string, int, bool) {
	b := n.e.bytes[c]
	pc, err := cid.Decode(c)
	if err != nil {
		return nil, 0, false
	}
	chk, err := pc.Prefix().Sum(b)
	if err != nil || !chk.Equals(pc) {
		return nil, len(b), false
	}
	if pc.Type() == cid.DagCBOR {
		if links, ok := cborLinks(b); ok {
			out := make([]string, 0, len(links))
			for _, l := range links {
				out = append(out, n.name(l.String()))
			}
			return out, len(b), true
		}
	}
	blk, err := blocks.NewBlockWithCid(b, pc)
	if err != nil {
		return nil, len(b), false
	}
	nd, err := ipld.Decode(blk)
	if err != nil {
		return nil, len(b), false
	}
	out := []string{}
	for _, l := range nd.Links() {
		out = append(out, n.name(l.Cid.String()))
	}
	return out, len(b), true
}

type obs struct {
	OK      bool                              `json:"ok"`
	Root    string                            `json:"root"`
	Evs     []map[string]interface{}          `json:"evs"`
	Graph   map[string]map[string]interface{} `json:"graph"`
	Content content                           `json:"content"`
}

type fileSum struct {
	Path   string `json:"path"`
	ShaIn  string `json:"shain"`
	ShaOut string `json:"shaout"`
}

type content struct {
	Files   []fileSum `json:"files"`
	RootCid string    `json:"rootcid"`
	RefRoot string    `json:"refroot"`
	Other   string    `json:"other"`
}

// observe turns the raw log into the event sequence of the specification.
// Concurrent puts of one BlockAdder.Add are one "put" event (results listed in
// destination order); a new group starts when the block changes, a destination
// repeats, or any other event intervenes.
func (e *env) observe(data map[string]string) *obs {
	e.mu.Lock()
	defer e.mu.Unlock()
	nm := &namer{e: e, data: data, memo: map[string]string{}}
	o := &obs{Evs: []map[string]interface{}{}, Graph: map[string]map[string]interface{}{},
		Content: content{Files: []fileSum{}}}
	type grp struct {
		cid string
		res map[string]string
	}
	var g *grp
	flush := func() {
		if g == nil {
			return
		}
		res := []map[string]interface{}{}
		for _, d := range destOrder {
			if r, ok := g.res[d]; ok {
				res = append(res, map[string]interface{}{"d": d, "r": r})
			}
		}
		o.Evs = append(o.Evs, map[string]interface{}{"t": "put", "blk": nm.name(g.cid), "res": res})
		g = nil
	}
	for _, r := range e.raw {
		switch r.kind {
		case "put":
			if g != nil {
				_, dup := g.res[r.dest]
				if dup || (r.cid != "" && g.cid != "" && r.cid != g.cid) {
					flush()
				}
			}
			if g == nil {
				g = &grp{res: map[string]string{}}
			}
			if r.cid != "" {
				g.cid = r.cid
			}
			g.res[r.dest] = r.res
		case "alloc":
			flush()
			o.Evs = append(o.Evs, map[string]interface{}{"t": "alloc", "ok": r.ok, "peers": r.peers,
				"rmin": r.rmin, "rmax": r.rmax})
		case "pin":
			flush()
			p := *r.pin
			p.Cid = nm.name(p.Cid)
			if p.Ref != "nil" && p.Ref != "undef" {
				p.Ref = nm.name(p.Ref)
			}
			var pm map[string]interface{}
			b, _ := json.Marshal(p)
			json.Unmarshal(b, &pm)
			o.Evs = append(o.Evs, map[string]interface{}{"t": "pin", "ok": r.ok, "pin": pm})
		}
	}
	flush()
	// a placeholder entry keeps the JSON object non-empty (it names no block)
	o.Graph["_"] = map[string]interface{}{"links": []string{}, "size": 0}
	for c := range e.deliv {
		links, size, ok := nm.decode(c)
		id := nm.name(c)
		if !ok {
			links = []string{"?corrupt"}
		}
		o.Graph[id] = map[string]interface{}{"links": links, "size": size}
	}
	return o
}
