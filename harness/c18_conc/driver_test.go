// C18 driver. Two kinds of executions of the real code:
//   - gated: interleavings that TLC found for spec/Concurrency.tla are forced
//     through the verifGate hooks (Alerts vs alertsHandler, informer GetMetric
//     vs Shutdown);
//   - free-running under the race detector: concurrent callers on the tracker,
//     the metrics store/monitor, the alert list and the informers.
//
// Results are recorded as NDJSON and judged by TLC (spec/ConcurrencyObs.tla);
// race reports, panics and deadlocks are picked up by the orchestrator.
package c18

import (
	"context"
	"encoding/json"
	"fmt"
	"math/rand"
	"os"
	"sync"
	"sync/atomic"
	"testing"
	"time"

	"verifharness/hx"
	"verifharness/rig"

	ipfscluster "github.com/ipfs/ipfs-cluster"
	"github.com/ipfs/ipfs-cluster/api"
	"github.com/ipfs/ipfs-cluster/informer/disk"
	"github.com/ipfs/ipfs-cluster/informer/numpin"
	"github.com/ipfs/ipfs-cluster/monitor/metrics"
	"github.com/ipfs/ipfs-cluster/monitor/pubsubmon"
	"github.com/ipfs/ipfs-cluster/pintracker/stateless"
	"github.com/ipfs/ipfs-cluster/state"
	"github.com/ipfs/ipfs-cluster/state/dsstate"

	ds "github.com/ipfs/go-datastore"
	dssync "github.com/ipfs/go-datastore/sync"
	peer "github.com/libp2p/go-libp2p-core/peer"
	rpc "github.com/libp2p/go-libp2p-gorpc"
	pubsub "github.com/libp2p/go-libp2p-pubsub"
)

// ---------------------------------------------------------------- gates
type gates struct {
	mu      sync.Mutex
	hold    map[string]bool
	arrived map[string]chan struct{}
	release map[string]chan struct{}
}

func newGates() *gates {
	return &gates{hold: map[string]bool{}, arrived: map[string]chan struct{}{}, release: map[string]chan struct{}{}}
}

// Hold makes the next goroutine reaching point block until Release.
func (g *gates) Hold(point string) {
	g.mu.Lock()
	g.hold[point] = true
	g.arrived[point] = make(chan struct{}, 1)
	g.release[point] = make(chan struct{})
	g.mu.Unlock()
}

func (g *gates) fn(point string) {
	g.mu.Lock()
	if !g.hold[point] {
		g.mu.Unlock()
		return
	}
	g.hold[point] = false // one shot
	a, r := g.arrived[point], g.release[point]
	g.mu.Unlock()
	a <- struct{}{}
	select {
	case <-r:
	case <-time.After(20 * time.Second):
	}
}

func (g *gates) WaitArrived(point string, d time.Duration) bool {
	g.mu.Lock()
	a := g.arrived[point]
	g.mu.Unlock()
	select {
	case <-a:
		return true
	case <-time.After(d):
		return false
	}
}

func (g *gates) Release(point string) {
	g.mu.Lock()
	r := g.release[point]
	g.mu.Unlock()
	if r != nil {
		close(r)
	}
}

// ---------------------------------------------------------------- records
type rec struct {
	Kind        string   `json:"kind"` // alerts | informer | tracker | metrics
	Scenario    string   `json:"scenario"`
	Out         []int    `json:"out"`   // alerts: returned list as alert numbers (0 = empty entry)
	Sent        int      `json:"sent"`  // alerts delivered before the call returned
	SentAtStart int      `json:"sent0"` // alerts delivered (and appended) before the call started
	Panic       string   `json:"panic"`
	Result      string   `json:"result"`
	Notes       []string `json:"notes"`
	// lifecycle: what was observed (1 = yes): Done() closed within the deadline, a later Shutdown() returned
	Done  int `json:"done"`
	Later int `json:"later"`
	// publish: metric names of the configured informers / metric names published within the deadline
	Want []string `json:"want"`
	Seen []string `json:"seen"`
	// check: one FailedMetric() call on window version Ver of run Run; T0/T1 = tickets of the run's global
	// order taken before / after the call; Failed = its answer
	Run    string `json:"run"`
	Ver    int    `json:"ver"`
	T0     int64  `json:"t0"`
	T1     int64  `json:"t1"`
	Failed int    `json:"failed"`
}

// mark writes the scenario in progress next to the trace (a crash in a goroutine of a
// library cannot be recovered; the orchestrator attributes it to this scenario).
func mark(s string) {
	os.WriteFile(os.Getenv("VERIF_TRACE")+".current", []byte(s), 0644)
}

type recorder struct {
	mu  sync.Mutex
	enc *json.Encoder
	n   int
}

func (r *recorder) put(x *rec) {
	if x.Out == nil {
		x.Out = []int{}
	}
	if x.Notes == nil {
		x.Notes = []string{}
	}
	if x.Want == nil {
		x.Want = []string{}
	}
	if x.Seen == nil {
		x.Seen = []string{}
	}
	r.mu.Lock()
	r.enc.Encode(x)
	r.n++
	r.mu.Unlock()
}

func alertN(a api.Alert) int {
	var n int
	fmt.Sscanf(a.Value, "%d", &n)
	return n
}

func mkAlert(p peer.ID, n int) *api.Alert {
	return &api.Alert{Metric: api.Metric{Name: "verif-metric", Peer: p, Value: fmt.Sprint(n), Valid: true}, TriggeredAt: time.Now()}
}

func callAlerts(c *ipfscluster.Cluster) (out []int, pan string) {
	defer func() {
		if r := recover(); r != nil {
			pan = fmt.Sprint(r)
		}
	}()
	for _, a := range c.Alerts() {
		out = append(out, alertN(a))
	}
	return
}

// pollPanic is set when a polling Alerts() call itself panicked (a panic inside
// Alerts() leaves alertsMux locked for good, so nothing may touch that cluster again).
var pollPanic string

// waitAppended waits until Alerts() (ungated) shows n as newest alert.
func waitAppended(c *ipfscluster.Cluster, n int, d time.Duration) bool {
	deadline := time.Now().Add(d)
	for time.Now().Before(deadline) {
		out, pan := callAlerts(c)
		if pan != "" {
			pollPanic = pan
			return false
		}
		if len(out) > 0 && out[0] == n {
			return true
		}
		time.Sleep(time.Millisecond)
	}
	return false
}

// ---------------------------------------------------------------- gated: alerts
// scenario "append-in-gap": reader sizes its result, an alert is appended, reader copies.
// scenario "reset-in-gap": the list holds maxAlerts+1 entries, reader sizes, the next alert resets it.
func gatedAlerts(t *testing.T, res *hx.Result, out *recorder, scenario string, prefill int) {
	mark("alerts-gated:" + scenario)
	g := newGates()
	ipfscluster.VerifGate = g.fn
	r, err := rig.NewRig(rig.Opts{NoRepin: false})
	if err != nil {
		res.Infra("rig: %v", err)
		return
	}
	leak := false // after a panic under alertsMux the mutex stays locked: the cluster cannot be shut down
	defer func() {
		ipfscluster.VerifGate = nil
		if !leak {
			r.Close()
		}
	}()
	p := r.ID
	for i := 1; i <= prefill; i++ {
		r.Mon.AlertCh <- mkAlert(p, i)
	}
	pollPanic = ""
	if prefill > 0 && !waitAppended(r.Cluster, prefill, 10*time.Second) {
		if pollPanic != "" {
			leak = true
			out.put(&rec{Kind: "alerts", Scenario: scenario + ":prefill-poll", Panic: pollPanic, Sent: prefill})
			res.Case(map[string]interface{}{"kind": "alerts-gated", "scenario": scenario, "prefill": prefill}, true)
			return
		}
		res.Infra("alerts: prefill of %d not appended", prefill)
		return
	}
	x := &rec{Kind: "alerts", Scenario: scenario, SentAtStart: prefill}
	g.Hold("alerts.sized")
	done := make(chan struct{})
	go func() {
		x.Out, x.Panic = callAlerts(r.Cluster)
		close(done)
	}()
	if !g.WaitArrived("alerts.sized", 5*time.Second) {
		res.Infra("alerts: reader never reached the gate (hook missing?)")
		return
	}
	// the writer: deliver one more alert; it completes unless the reader holds the lock
	g.Hold("alerts.append")
	r.Mon.AlertCh <- mkAlert(p, prefill+1)
	if !g.WaitArrived("alerts.append", 5*time.Second) {
		res.Infra("alerts: handler never reached the gate")
		return
	}
	g.Release("alerts.append")
	time.Sleep(150 * time.Millisecond) // let the append happen if it can
	g.Release("alerts.sized")
	select {
	case <-done:
	case <-time.After(10 * time.Second):
		x.Panic = "deadlock: Alerts() did not return"
	}
	if x.Panic != "" {
		leak = true
	} else {
		waitAppended(r.Cluster, prefill+1, 5*time.Second)
	}
	x.Sent = prefill + 1
	out.put(x)
	res.Case(map[string]interface{}{"kind": "alerts-gated", "scenario": scenario, "prefill": prefill}, true)
}

// ---------------------------------------------------------------- gated: informers
type ipfsSvc struct{}

func (ipfsSvc) RepoStat(ctx context.Context, in struct{}, out *api.IPFSRepoStat) error {
	*out = api.IPFSRepoStat{RepoSize: 10, StorageMax: 100}
	return nil
}
func (ipfsSvc) PinLs(ctx context.Context, in string, out *map[string]api.IPFSPinStatus) error {
	*out = map[string]api.IPFSPinStatus{}
	return nil
}

func localClient() *rpc.Client {
	s := rpc.NewServer(nil, "verif")
	s.RegisterName("IPFSConnector", ipfsSvc{})
	return rpc.NewClientWithServer(nil, "verif", s)
}

type informer interface {
	SetClient(*rpc.Client)
	Shutdown(context.Context) error
	GetMetric(context.Context) *api.Metric
}

func gatedInformer(res *hx.Result, out *recorder, name string, mk func() informer, setGate func(func(string))) {
	mark("informer-gated:" + name)
	g := newGates()
	setGate(g.fn)
	defer setGate(nil)
	inf := mk()
	inf.SetClient(localClient())
	x := &rec{Kind: "informer", Scenario: name + ":shutdown-between-check-and-use"}
	g.Hold("inf.checked")
	done := make(chan struct{})
	go func() {
		defer close(done)
		defer func() {
			if r := recover(); r != nil {
				x.Panic = fmt.Sprint(r)
			}
		}()
		m := inf.GetMetric(context.Background())
		if m == nil {
			x.Result = "nil"
		} else if m.Valid {
			x.Result = "metric"
		} else {
			x.Result = "invalid"
		}
	}()
	if !g.WaitArrived("inf.checked", 5*time.Second) {
		res.Infra("informer %s: GetMetric never reached the gate", name)
		return
	}
	inf.Shutdown(context.Background())
	g.Release("inf.checked")
	select {
	case <-done:
	case <-time.After(10 * time.Second):
		x.Panic = "deadlock: GetMetric did not return"
	}
	out.put(x)
	res.Case(map[string]interface{}{"kind": "informer-gated", "informer": name}, true)
}

// ---------------------------------------------------------------- lifecycle: start-up that fails
// Cluster.ready() shuts the peer down when start-up fails; the peer must then really stop (Done() closed) and
// a later Shutdown() call must return. Only the two observations are recorded, TLC judges them (StopsOk).
//   ready-timeout : the consensus never becomes ready, ready() gives up after ReadyTimeout
//   peers-error   : the consensus is ready, the consensus.Peers() call that follows fails
func lifecycle(res *hx.Result, out *recorder, scenario string, mk func() (*rig.Rig, func() bool, error)) {
	mark("lifecycle:" + scenario)
	r, reached, err := mk()
	if err != nil {
		res.Infra("rig: %v", err)
		return
	}
	x := &rec{Kind: "lifecycle", Scenario: scenario}
	select {
	case <-r.Cluster.Done():
		x.Done = 1
		x.Result = "done"
	case <-r.Cluster.Ready():
		res.Infra("lifecycle %s: the peer became ready, the failing start-up was not constructed", scenario)
		r.Close()
		return
	case <-time.After(10 * time.Second):
		x.Result = "the peer gave up starting but never finished shutting down (Done() not closed after 10s)"
	}
	if !reached() {
		res.Infra("lifecycle %s: the start-up did not take the scripted branch", scenario)
		r.CloseStartup()
		return
	}
	if x.Done == 1 {
		fin := make(chan struct{})
		go func() { r.Cluster.Shutdown(context.Background()); close(fin) }()
		select {
		case <-fin:
			x.Later = 1
		case <-time.After(10 * time.Second):
			x.Result = "Shutdown() called after the failed start-up never returned"
		}
	}
	r.CloseStartup()
	out.put(x)
	res.Case(map[string]interface{}{"kind": "lifecycle", "scenario": scenario}, true)
}

func lifecycleReadyTimeout(res *hx.Result, out *recorder) {
	old := ipfscluster.ReadyTimeout
	ipfscluster.ReadyTimeout = 300 * time.Millisecond
	defer func() { ipfscluster.ReadyTimeout = old }()
	lifecycle(res, out, "ready-timeout", func() (*rig.Rig, func() bool, error) {
		r, err := rig.NewRig(rig.Opts{NeverReady: true})
		return r, func() bool { return true }, err
	})
}

func lifecyclePeersError(res *hx.Result, out *recorder) {
	var fc *rig.FlakyPeersConsensus
	lifecycle(res, out, "peers-error", func() (*rig.Rig, func() bool, error) {
		r, err := rig.NewRigStartup(func(c *rig.FakeConsensus) ipfscluster.Consensus {
			fc = &rig.FlakyPeersConsensus{FakeConsensus: c, FailPeers: 1}
			return fc
		})
		return r, func() bool { return atomic.LoadInt32(&fc.PeersCalls) >= 1 }, err
	})
}

// ---------------------------------------------------------------- start-up fan-out: one push loop per informer
// A Cluster configured with n informers: Cluster.run() starts one pushInformerMetrics goroutine per informer and
// each publishes at once. Recorded: the configured metric names and the names published within the deadline.
func fanoutInformers(res *hx.Result, out *recorder, n int) {
	mark(fmt.Sprintf("fanout:%d-informers", n))
	var infs []*rig.FakeInformer
	x := &rec{Kind: "publish", Scenario: fmt.Sprintf("%d-informers", n)}
	for i := 1; i <= n; i++ {
		name := fmt.Sprintf("verif-inf-%d", i)
		infs = append(infs, &rig.FakeInformer{MetricName: name, Value: fmt.Sprint(i)})
		x.Want = append(x.Want, name)
	}
	r, err := rig.NewRigInformers(rig.Opts{}, infs)
	if err != nil {
		res.Infra("rig: %v", err)
		return
	}
	defer r.Close()
	seen := map[string]bool{}
	deadline := time.Now().Add(10 * time.Second)
	for {
		for _, c := range r.Mon.TakeCalls() {
			if c.Kind == "publish" && !seen[c.Metric.Name] {
				seen[c.Metric.Name] = true
				x.Seen = append(x.Seen, c.Metric.Name)
			}
		}
		all := true
		for _, w := range x.Want {
			all = all && seen[w]
		}
		if all || time.Now().After(deadline) {
			break
		}
		time.Sleep(5 * time.Millisecond)
	}
	out.put(x)
	res.Case(map[string]interface{}{"kind": "fanout", "informers": n}, true)
}

// ---------------------------------------------------------------- failure checks on an unchanged window
// The accrual path of Checker.failed(): >= 6 "ping" metrics of a peer in the window, the latest expired. For each
// window version (a round of regularly spaced metrics; the driver adds no metric while checks run): a silence long enough for the peer to count as
// failed, 3 checks in a row, 4 goroutines x 25 concurrent checks, 2 checks in a row. Every FailedMetric() call is
// recorded with its position in the global order and its answer; TLC judges them (Unstable).
func accrualChecks(res *hx.Result, out *recorder, seed int64, n0 int) {
	mark(fmt.Sprintf("accrual-checks:%d", n0))
	names := hx.NewNames(seed)
	pid := names.Peer("silent")
	store := metrics.NewStore()
	checker := metrics.NewChecker(context.Background(), store, 3.0)
	run := fmt.Sprintf("s%d-n%d", seed, n0)
	var ticket int64
	var maxGap time.Duration
	last := time.Time{}
	add := func(i int) {
		m := &api.Metric{Name: "ping", Peer: pid, Value: "1", Valid: true}
		m.SetTTL(time.Millisecond)
		store.Add(m)
		now := time.Now()
		if !last.IsZero() && now.Sub(last) > maxGap {
			maxGap = now.Sub(last)
		}
		last = now
	}
	var pmu sync.Mutex
	panicked := ""
	check := func(ver int) (failed bool) {
		defer func() {
			if r := recover(); r != nil {
				pmu.Lock()
				panicked = fmt.Sprint(r)
				pmu.Unlock()
			}
		}()
		t0 := atomic.AddInt64(&ticket, 1)
		f := checker.FailedMetric("ping", pid)
		t1 := atomic.AddInt64(&ticket, 1)
		x := &rec{Kind: "check", Scenario: "accrual", Run: run, Ver: ver, T0: t0, T1: t1}
		if f {
			x.Failed = 1
		}
		out.put(x)
		return f
	}
	for ver := 1; ver <= 3; ver++ {
		// version 1: n0 metrics; later versions: 26 more, which push the long silence out of the window (capacity 25)
		n := n0
		if ver > 1 {
			n = metrics.DefaultWindowCap + 1
		}
		last = time.Time{}
		for i := 0; i < n; i++ {
			add(i)
			time.Sleep(time.Duration(1+i%3) * time.Millisecond)
		}
		// silent for >= 20x the longest gap between two metrics: far beyond any threshold of the detector
		silence := 20 * maxGap
		if silence < 300*time.Millisecond {
			silence = 300 * time.Millisecond
		}
		if silence > 6*time.Second {
			res.Infra("accrual: metrics could not be fed regularly (gap of %v)", maxGap)
			return
		}
		time.Sleep(silence)
		nfailed := 0
		for i := 0; i < 3; i++ {
			if check(ver) {
				nfailed++
			}
		}
		var wg sync.WaitGroup
		var nf int64
		for g := 0; g < 4; g++ {
			wg.Add(1)
			go func() {
				defer wg.Done()
				for i := 0; i < 25; i++ {
					if check(ver) {
						atomic.AddInt64(&nf, 1)
					}
				}
			}()
		}
		wg.Wait()
		for i := 0; i < 2; i++ {
			if check(ver) {
				nfailed++
			}
		}
		res.Count(105)
		if nfailed+int(nf) == 0 {
			res.Infra("accrual: a peer silent for %v (longest gap before: %v) was not reported failed by any of 105 checks: "+
				"the situation was not constructed", silence, maxGap)
			return
		}
	}
	// CheckPeers (alerts, then removal of the peer's metrics) from several goroutines: observed by the race detector only
	stop := make(chan struct{})
	go func() {
		for {
			select {
			case <-checker.Alerts():
			case <-stop:
				return
			}
		}
	}()
	var wg sync.WaitGroup
	for g := 0; g < 4; g++ {
		wg.Add(1)
		go func() {
			defer wg.Done()
			defer func() {
				if r := recover(); r != nil {
					pmu.Lock()
					panicked = fmt.Sprint(r)
					pmu.Unlock()
				}
			}()
			for i := 0; i < 10; i++ {
				checker.CheckPeers([]peer.ID{pid})
				checker.FailedMetric("ping", pid)
			}
		}()
	}
	wg.Wait()
	close(stop)
	res.Count(80)
	pmu.Lock()
	out.put(&rec{Kind: "metrics", Scenario: "accrual-checks", Panic: panicked, Result: "done"})
	pmu.Unlock()
	res.Case(map[string]interface{}{"kind": "accrual-checks", "metrics": n0, "seed": seed}, true)
}

// ---------------------------------------------------------------- free-running: alerts
func stressAlerts(res *hx.Result, out *recorder, rng *rand.Rand, total int) {
	mark("alerts-free")
	r, err := rig.NewRig(rig.Opts{})
	if err != nil {
		res.Infra("rig: %v", err)
		return
	}
	var sent int64
	var mu sync.Mutex
	panicked := false
	defer func() {
		mu.Lock()
		p := panicked
		mu.Unlock()
		if !p { // a panic inside Alerts() leaves alertsMux locked: Shutdown would hang
			r.Close()
		}
	}()
	stop := make(chan struct{})
	var wg sync.WaitGroup
	for k := 0; k < 3; k++ {
		wg.Add(1)
		go func() {
			defer wg.Done()
			for {
				select {
				case <-stop:
					return
				default:
				}
				mu.Lock()
				s0 := int(sent)
				mu.Unlock()
				o, pan := callAlerts(r.Cluster)
				mu.Lock()
				s1 := int(sent)
				if pan != "" {
					panicked = true
				}
				mu.Unlock()
				out.put(&rec{Kind: "alerts", Scenario: "free", Out: o, Panic: pan, SentAtStart: 0, Sent: s1, Notes: []string{fmt.Sprint(s0)}})
				res.Count(1)
				if pan != "" {
					return
				}
			}
		}()
	}
	for i := 1; i <= total; i++ {
		mu.Lock()
		sent = int64(i)
		mu.Unlock()
		r.Mon.AlertCh <- mkAlert(r.ID, i)
		if i%97 == 0 {
			time.Sleep(time.Millisecond)
		}
	}
	mu.Lock()
	p := panicked
	mu.Unlock()
	if !p {
		pollPanic = ""
		waitAppended(r.Cluster, total, 10*time.Second)
		if pollPanic != "" {
			mu.Lock()
			panicked = true
			mu.Unlock()
			out.put(&rec{Kind: "alerts", Scenario: "free:final-poll", Panic: pollPanic, Sent: total})
		}
	}
	close(stop)
	wg.Wait()
	res.Case(map[string]interface{}{"kind": "alerts-free", "alerts": total}, true)
}

// ---------------------------------------------------------------- free-running: informers
func stressInformer(res *hx.Result, out *recorder, name string, mk func() informer) {
	mark("informer-free:" + name)
	for round := 0; round < 50; round++ {
		inf := mk()
		inf.SetClient(localClient())
		var wg sync.WaitGroup
		x := &rec{Kind: "informer", Scenario: name + ":free"}
		var mu sync.Mutex
		for k := 0; k < 4; k++ {
			wg.Add(1)
			go func() {
				defer wg.Done()
				defer func() {
					if r := recover(); r != nil {
						mu.Lock()
						x.Panic = fmt.Sprint(r)
						mu.Unlock()
					}
				}()
				for i := 0; i < 20; i++ {
					inf.GetMetric(context.Background())
				}
			}()
		}
		wg.Add(1)
		go func() {
			defer wg.Done()
			time.Sleep(time.Duration(round%5) * 50 * time.Microsecond)
			inf.Shutdown(context.Background())
		}()
		wg.Wait()
		x.Result = "done"
		out.put(x)
		res.Count(1)
	}
	res.Case(map[string]interface{}{"kind": "informer-free", "informer": name, "rounds": 50}, true)
}

// ---------------------------------------------------------------- free-running: tracker
type freeDaemon struct {
	mu   sync.Mutex
	pins map[string]api.IPFSPinStatus
	rng  *rand.Rand
	// calls in flight per CID: the operation table allows one live (uncancelled) operation per CID,
	// so two uncancelled calls for the same CID at the same time mean the table was torn
	active map[string][]context.Context
	torn   []string
}

func (d *freeDaemon) enter(ctx context.Context, c string, kind string) {
	d.mu.Lock()
	defer d.mu.Unlock()
	if d.active == nil {
		d.active = map[string][]context.Context{}
	}
	live := 0
	for _, x := range d.active[c] {
		if x.Err() == nil {
			live++
		}
	}
	if live > 0 && ctx.Err() == nil && len(d.torn) < 5 {
		d.torn = append(d.torn, fmt.Sprintf("%s call for a CID started while %d other uncancelled call(s) for the same CID were in flight", kind, live))
	}
	d.active[c] = append(d.active[c], ctx)
}

func (d *freeDaemon) leave(ctx context.Context, c string) {
	d.mu.Lock()
	defer d.mu.Unlock()
	l := d.active[c]
	for i, x := range l {
		if x == ctx {
			d.active[c] = append(l[:i:i], l[i+1:]...)
			break
		}
	}
}

func (d *freeDaemon) jitter() {
	d.mu.Lock()
	n := d.rng.Intn(300)
	d.mu.Unlock()
	time.Sleep(time.Duration(n) * time.Microsecond)
}
func (d *freeDaemon) Pin(ctx context.Context, in *api.Pin, out *struct{}) error {
	d.enter(ctx, in.Cid.String(), "pin")
	defer d.leave(ctx, in.Cid.String())
	d.jitter()
	if ctx.Err() != nil {
		return ctx.Err()
	}
	d.mu.Lock()
	defer d.mu.Unlock()
	if d.rng.Intn(10) == 0 {
		return fmt.Errorf("scripted failure")
	}
	if in.MaxDepth == 0 {
		if d.pins[in.Cid.String()] == api.IPFSPinStatusRecursive {
			return fmt.Errorf("already pinned recursively")
		}
		d.pins[in.Cid.String()] = api.IPFSPinStatusDirect
	} else {
		d.pins[in.Cid.String()] = api.IPFSPinStatusRecursive
	}
	return nil
}
func (d *freeDaemon) Unpin(ctx context.Context, in *api.Pin, out *struct{}) error {
	d.enter(ctx, in.Cid.String(), "unpin")
	defer d.leave(ctx, in.Cid.String())
	d.jitter()
	if ctx.Err() != nil {
		return ctx.Err()
	}
	d.mu.Lock()
	defer d.mu.Unlock()
	delete(d.pins, in.Cid.String())
	return nil
}
func (d *freeDaemon) PinLsCid(ctx context.Context, in *api.Pin, out *api.IPFSPinStatus) error {
	d.mu.Lock()
	defer d.mu.Unlock()
	st, ok := d.pins[in.Cid.String()]
	want := api.IPFSPinStatusRecursive
	if in.MaxDepth == 0 {
		want = api.IPFSPinStatusDirect
	}
	if ok && st == want {
		*out = st
	} else {
		*out = api.IPFSPinStatusUnpinned
	}
	return nil
}
func (d *freeDaemon) PinLs(ctx context.Context, in string, out *map[string]api.IPFSPinStatus) error {
	d.mu.Lock()
	defer d.mu.Unlock()
	m := map[string]api.IPFSPinStatus{}
	for k, v := range d.pins {
		if (in == "recursive" && v == api.IPFSPinStatusRecursive) || (in == "direct" && v == api.IPFSPinStatusDirect) || in == "all" {
			m[k] = v
		}
	}
	*out = m
	return nil
}

var validStatus = map[string]bool{"cluster_error": true, "pin_error": true, "unpin_error": true, "pinned": true, "pinning": true,
	"unpinning": true, "unpinned": true, "remote": true, "pin_queued": true, "unpin_queued": true, "sharded": true,
	"unexpectedly_unpinned": true}

func stressTracker(res *hx.Result, out *recorder, seed int64, withShutdown bool) {
	mark(fmt.Sprintf("tracker-free:shutdown=%v", withShutdown))
	names := hx.NewNames(seed)
	self, other := names.Peer("self"), names.Peer("other")
	store := dssync.MutexWrap(ds.NewMapDatastore())
	st, _ := dsstate.New(store, "", dsstate.DefaultHandle())
	cfg := &stateless.Config{}
	cfg.Default()
	cfg.ConcurrentPins = 3
	cfg.MaxPinQueueSize = 4
	tr := stateless.New(cfg, self, "self", func(ctx context.Context) (state.ReadOnly, error) { return st, nil })
	d := &freeDaemon{pins: map[string]api.IPFSPinStatus{}, rng: rand.New(rand.NewSource(seed))}
	srv := rpc.NewServer(nil, "verif")
	srv.RegisterName("IPFSConnector", d)
	tr.SetClient(rpc.NewClientWithServer(nil, "verif", srv))
	ctx := context.Background()
	x := &rec{Kind: "tracker", Scenario: "free"}
	if withShutdown {
		x.Scenario = "free+shutdown"
	}
	var xmu sync.Mutex
	note := func(s string) {
		xmu.Lock()
		if len(x.Notes) < 10 {
			x.Notes = append(x.Notes, s)
		}
		xmu.Unlock()
	}
	var wg sync.WaitGroup
	var stMu sync.Mutex // the harness applies (state change, instruction) pairs atomically per CID like consensus does
	for w := 0; w < 6; w++ {
		wg.Add(1)
		go func(w int) {
			defer wg.Done()
			defer func() {
				if r := recover(); r != nil {
					xmu.Lock()
					x.Panic = fmt.Sprint(r)
					xmu.Unlock()
				}
			}()
			rng := rand.New(rand.NewSource(seed*100 + int64(w)))
			for i := 0; i < 150; i++ {
				c := names.Cid(fmt.Sprintf("c%d", 1+rng.Intn(4)))
				switch rng.Intn(7) {
				case 0, 1:
					p := api.PinWithOpts(c, api.PinOptions{ReplicationFactorMin: 1, ReplicationFactorMax: 1})
					p.Allocations = []peer.ID{self}
					if rng.Intn(4) == 0 {
						p.Allocations = []peer.ID{other}
					}
					// consensus applies entries one at a time but hands each to the tracker on its own
					// goroutine (raft LogOp.ApplyTo): tracker calls for one CID may overlap
					stMu.Lock()
					st.Add(ctx, p)
					stMu.Unlock()
					tr.Track(ctx, p)
				case 2:
					stMu.Lock()
					st.Rm(ctx, c)
					stMu.Unlock()
					tr.Untrack(ctx, c)
				case 3:
					pi := tr.Status(ctx, c)
					if pi == nil || !validStatus[pi.Status.String()] {
						note("bad status " + fmt.Sprint(pi))
					}
				case 4:
					seen := map[string]bool{}
					for _, pi := range tr.StatusAll(ctx, api.TrackerStatusUndefined) {
						if seen[pi.Cid.String()] {
							note("duplicate cid in StatusAll")
						}
						seen[pi.Cid.String()] = true
						if !validStatus[pi.Status.String()] {
							note("bad status in StatusAll: " + pi.Status.String())
						}
					}
				case 5:
					tr.Recover(ctx, c)
				case 6:
					tr.RecoverAll(ctx)
				}
			}
		}(w)
	}
	if withShutdown {
		wg.Add(1)
		go func() {
			defer wg.Done()
			time.Sleep(3 * time.Millisecond)
			tr.Shutdown(ctx)
		}()
	}
	fin := make(chan struct{})
	go func() { wg.Wait(); close(fin) }()
	select {
	case <-fin:
		x.Result = "done"
	case <-time.After(60 * time.Second):
		x.Panic = "deadlock: tracker callers did not finish in 60s"
	}
	if !withShutdown {
		tr.Shutdown(ctx)
	}
	d.mu.Lock()
	for _, tn := range d.torn {
		note("operation table torn: " + tn)
	}
	d.mu.Unlock()
	out.put(x)
	res.Count(900)
	res.Case(map[string]interface{}{"kind": "tracker-free", "shutdown": withShutdown, "seed": seed}, true)
}

// ---------------------------------------------------------------- free-running: metrics
func stressMetrics(res *hx.Result, out *recorder, seed int64) {
	mark("metrics-free")
	ctx := context.Background()
	h, err := rig.NewHost()
	if err != nil {
		res.Infra("host: %v", err)
		return
	}
	defer h.Close()
	ps, err := pubsub.NewGossipSub(ctx, h)
	if err != nil {
		res.Infra("pubsub: %v", err)
		return
	}
	names := hx.NewNames(seed)
	peers := []peer.ID{h.ID(), names.Peer("p2"), names.Peer("p3")}
	cfg := &pubsubmon.Config{}
	cfg.Default()
	cfg.CheckInterval = 5 * time.Millisecond
	mon, err := pubsubmon.New(ctx, cfg, ps, func(context.Context) ([]peer.ID, error) { return peers, nil })
	if err != nil {
		res.Infra("pubsubmon: %v", err)
		return
	}
	mon.SetClient(localClient())
	x := &rec{Kind: "metrics", Scenario: "free"}
	var xmu sync.Mutex
	var wg sync.WaitGroup
	for w := 0; w < 4; w++ {
		wg.Add(1)
		go func(w int) {
			defer wg.Done()
			defer func() {
				if r := recover(); r != nil {
					xmu.Lock()
					x.Panic = fmt.Sprint(r)
					xmu.Unlock()
				}
			}()
			rng := rand.New(rand.NewSource(seed*10 + int64(w)))
			for i := 0; i < 400; i++ {
				switch rng.Intn(3) {
				case 0:
					m := &api.Metric{Name: fmt.Sprintf("m%d", rng.Intn(2)), Peer: peers[rng.Intn(3)], Value: "1", Valid: true}
					m.SetTTL(time.Duration(rng.Intn(3)) * time.Millisecond)
					mon.LogMetric(ctx, m)
				case 1:
					ms := mon.LatestMetrics(ctx, fmt.Sprintf("m%d", rng.Intn(2)))
					seen := map[peer.ID]bool{}
					for _, m := range ms {
						if seen[m.Peer] {
							xmu.Lock()
							x.Notes = append(x.Notes, "two metrics for one peer")
							xmu.Unlock()
						}
						seen[m.Peer] = true
					}
				case 2:
					mon.MetricNames(ctx)
				}
			}
		}(w)
	}
	// drain alerts concurrently
	stop := make(chan struct{})
	go func() {
		for {
			select {
			case <-mon.Alerts():
			case <-stop:
				return
			}
		}
	}()
	fin := make(chan struct{})
	go func() { wg.Wait(); close(fin) }()
	select {
	case <-fin:
		mon.Shutdown(ctx)
		x.Result = "done"
	case <-time.After(60 * time.Second):
		x.Panic = "deadlock: monitor callers (LogMetric / LatestMetrics / MetricNames) did not finish in 60s"
	}
	close(stop)
	out.put(x)
	res.Count(1600)
	res.Case(map[string]interface{}{"kind": "metrics-free", "seed": seed}, true)
}

// ---------------------------------------------------------------- free-running: AllMetrics/CheckAll against writers
// The checker of a monitor without peerset function (crdt mode) walks Store.AllMetrics() while metrics arrive and
// peers are removed: 2 goroutines CheckAll/AllMetrics, 3 goroutines Add / RemovePeer / RemovePeerMetrics.
// Watchdog: no call of any goroutine returned for 15 s (each call takes microseconds) = the store is stuck.
func stressAllMetrics(res *hx.Result, out *recorder, seed int64, iters int) {
	mark("metrics-free:allmetrics")
	names := hx.NewNames(seed)
	peers := []peer.ID{names.Peer("q1"), names.Peer("q2"), names.Peer("q3"), names.Peer("q4")}
	store := metrics.NewStore()
	checker := metrics.NewChecker(context.Background(), store, 3.0)
	for _, p := range peers {
		for _, n := range []string{"ping", "freespace"} {
			m := &api.Metric{Name: n, Peer: p, Value: "1", Valid: true}
			m.SetTTL(time.Hour)
			store.Add(m)
		}
	}
	x := &rec{Kind: "metrics", Scenario: "allmetrics"}
	var xmu sync.Mutex
	var progress int64
	var wg sync.WaitGroup
	worker := func(w int, f func(rng *rand.Rand)) {
		wg.Add(1)
		go func() {
			defer wg.Done()
			defer func() {
				if r := recover(); r != nil {
					xmu.Lock()
					x.Panic = fmt.Sprint(r)
					xmu.Unlock()
				}
			}()
			rng := rand.New(rand.NewSource(seed*10 + int64(w)))
			for i := 0; i < iters; i++ {
				f(rng)
				atomic.AddInt64(&progress, 1)
			}
		}()
	}
	stop := make(chan struct{})
	go func() {
		for {
			select {
			case <-checker.Alerts():
			case <-stop:
				return
			}
		}
	}()
	worker(0, func(*rand.Rand) { checker.CheckAll() })
	worker(1, func(*rand.Rand) { store.AllMetrics() })
	worker(2, func(rng *rand.Rand) {
		m := &api.Metric{Name: []string{"ping", "freespace"}[rng.Intn(2)], Peer: peers[rng.Intn(len(peers))], Value: "1", Valid: true}
		m.SetTTL(time.Duration(rng.Intn(3)) * time.Hour) // some expired at once
		store.Add(m)
	})
	worker(3, func(rng *rand.Rand) { store.RemovePeer(peers[rng.Intn(len(peers))]) })
	worker(4, func(rng *rand.Rand) { store.RemovePeerMetrics(peers[rng.Intn(len(peers))], "ping") })
	fin := make(chan struct{})
	go func() { wg.Wait(); close(fin) }()
	last, lastAt := int64(-1), time.Now()
loop:
	for {
		select {
		case <-fin:
			x.Result = "done"
			break loop
		case <-time.After(100 * time.Millisecond):
			if p := atomic.LoadInt64(&progress); p != last {
				last, lastAt = p, time.Now()
			} else if time.Since(lastAt) > 15*time.Second {
				xmu.Lock()
				x.Panic = fmt.Sprintf("deadlock: no CheckAll / AllMetrics / Add / RemovePeer / RemovePeerMetrics call on the metrics store returned for 15s (%d of %d calls done)", p, 5*iters)
				xmu.Unlock()
				break loop
			}
		}
	}
	close(stop)
	xmu.Lock()
	out.put(x)
	xmu.Unlock()
	res.Count(5 * iters)
	res.Case(map[string]interface{}{"kind": "metrics-free-allmetrics", "seed": seed}, true)
}

func TestDriver(t *testing.T) {
	rig.Quiet()
	res := hx.NewResult()
	defer res.Write()
	tf, err := os.Create(os.Getenv("VERIF_TRACE"))
	if err != nil {
		t.Fatal(err)
	}
	defer tf.Close()
	out := &recorder{enc: json.NewEncoder(tf)}
	seed := hx.Seed()
	rng := rand.New(rand.NewSource(seed))
	rounds := 1
	if hx.Thorough() {
		rounds = 6
	}
	// gated attacks derived from the TLC counterexamples of the as-coded model
	gatedAlerts(t, res, out, "append-in-gap", 0)
	gatedAlerts(t, res, out, "append-in-gap", 3)
	gatedAlerts(t, res, out, "reset-in-gap", 1001)
	mkDisk := func() informer {
		c := &disk.Config{}
		c.Default()
		i, _ := disk.NewInformer(c)
		return i
	}
	mkNum := func() informer {
		c := &numpin.Config{}
		c.Default()
		i, _ := numpin.NewInformer(c)
		return i
	}
	lifecycleReadyTimeout(res, out)
	lifecyclePeersError(res, out)
	fanoutInformers(res, out, 3)
	fanoutInformers(res, out, 2)
	gatedInformer(res, out, "disk", mkDisk, func(f func(string)) { disk.VerifGate = f })
	gatedInformer(res, out, "numpin", mkNum, func(f func(string)) { numpin.VerifGate = f })
	for i := 0; i < rounds; i++ {
		stressAlerts(res, out, rng, 2500)
		stressInformer(res, out, "disk", mkDisk)
		stressInformer(res, out, "numpin", mkNum)
		stressTracker(res, out, seed*13+int64(i), false)
		stressTracker(res, out, seed*17+int64(i), true)
		stressMetrics(res, out, seed*19+int64(i))
		accrualChecks(res, out, seed*23+int64(i), 8)
		accrualChecks(res, out, seed*23+int64(i), 30)
		stressAllMetrics(res, out, seed*29+int64(i), 20000)
	}
	res.Set("records", out.n)
	mark("done")
}
