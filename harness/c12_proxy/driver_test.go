// C12 driver: puts the real ipfsproxy.Server between a recording IPFS daemon
// (net/http/httptest) and a recording, pinset-consistent Cluster RPC server
// (host-less gorpc), sends one concrete request per TLC-enumerated request
// class through the proxy and records (response, cluster ops, pinset after,
// daemon calls) for spec/ProxyTrace.tla. Nothing is decided here: the
// predicates of spec/Proxy.tla are evaluated by TLC on the recorded tuples.
package c12

import (
	"bytes"
	"context"
	"crypto/sha1"
	"encoding/hex"
	"encoding/json"
	"errors"
	"fmt"
	"io"
	"math/rand"
	"mime/multipart"
	"net"
	"net/http"
	"net/http/httptest"
	"net/textproto"
	"net/url"
	"os"
	"path/filepath"
	"sort"
	"strings"
	"sync"
	"syscall"
	"testing"
	"time"

	"verifharness/hx"
	hrig "verifharness/rig"

	"github.com/ipfs/ipfs-cluster/adder/adderutils"
	"github.com/ipfs/ipfs-cluster/api"
	"github.com/ipfs/ipfs-cluster/api/ipfsproxy"

	cid "github.com/ipfs/go-cid"
	logging "github.com/ipfs/go-log/v2"
	peer "github.com/libp2p/go-libp2p-core/peer"
	peerstore "github.com/libp2p/go-libp2p-core/peerstore"
	rpc "github.com/libp2p/go-libp2p-gorpc"
	ma "github.com/multiformats/go-multiaddr"
	mh "github.com/multiformats/go-multihash"
)

const NA = "-"

// ---------------------------------------------------------------- cases

type caseReq struct {
	World     string `json:"world"`
	Method    string `json:"method"`
	Pathk     string `json:"pathk"`
	Route     string `json:"route"`
	Style     string `json:"style"`
	Arg       string `json:"arg"`
	Arg2      string `json:"arg2"`
	Type      string `json:"type"`
	Unpin     string `json:"unpin"`
	Body      string `json:"body"`
	Onlyhash  string `json:"onlyhash"`
	Pin       string `json:"pin"`
	Layout    string `json:"layout"`
	Trickle   string `json:"trickle"`
	Chunker   string `json:"chunker"`
	Cidv      string `json:"cidv"`
	Raw       string `json:"raw"`
	Name      string `json:"name"`
	Repl      string `json:"repl"`
	Streamerr string `json:"streamerr"`
	Qk        string `json:"qk"`
	Bk        string `json:"bk"`
	Enc       string `json:"enc"`
	Fault     string `json:"fault"`
	Hangup    string `json:"hangup"`
	Gcerr     string `json:"gcerr"`
	Daemon    string `json:"daemon"`
	Cluster   string `json:"cluster"`
	Peerfail  string `json:"peerfail"`
	Client    string `json:"client"`
}

// caseIn: cases with the same Grp run on one rig in file order; Reset says
// whether the harness cluster is put into world Req.World first (steps of a
// sequence after the first keep what the previous request left).
type caseIn struct {
	ID    int     `json:"id"`
	Grp   int     `json:"grp"`
	Reset bool    `json:"reset"`
	World string  `json:"world"` // world to install when Reset (Req.World may be "seq")
	Req   caseReq `json:"req"`
}

type opRec struct {
	M    string `json:"m"`
	Tgt  string `json:"tgt"`
	Mode string `json:"mode"`
	Upd  string `json:"upd"`
	Name string `json:"name"`
	Repl string `json:"repl"`
	OK   bool   `json:"ok"`
}

type pinRec struct {
	Cid  string `json:"cid"`
	Mode string `json:"mode"`
	Name string `json:"name"`
	Repl string `json:"repl"`
}

type addParams struct {
	Layout  string `json:"layout"`
	Chunker string `json:"chunker"`
	Cidv    string `json:"cidv"`
	Raw     string `json:"raw"`
}

type wireReq struct {
	Method string `json:"method"`
	URI    string `json:"uri"`
	Body   string `json:"body"`
	Hdrs   string `json:"hdrs"`
}

type dcall struct {
	Method string `json:"method"`
	URI    string `json:"uri"`
	Body   string `json:"body"`
	Hdrs   string `json:"hdrs"`
	Pclass string `json:"pclass"`
}

type wireResp struct {
	Status int    `json:"status"`
	Body   string `json:"body"`
	Hdrs   string `json:"hdrs"`
}

type obsRec struct {
	Dropped bool        `json:"dropped"` // no HTTP answer at all: the connection was dropped (every attempt)
	PS0     []pinRec    `json:"ps0"`
	Self    bool        `json:"self"`
	Err     bool        `json:"err"`
	Status  int         `json:"status"`
	Ops     []opRec     `json:"ops"`
	PS      []pinRec    `json:"ps"`
	Pins    []string    `json:"pins"`
	Keys    []string    `json:"keys"`
	Stat    []int       `json:"stat"`
	Addp    []addParams `json:"addp"`
	Nblocks int         `json:"nblocks"`
	GC      []gcEntry   `json:"gc"`
	Tkeys   []string    `json:"tkeys"`
	Dcalls  []dcall     `json:"dcalls"`
	Sent    wireReq     `json:"sent"`
	Resp    wireResp    `json:"resp"`
	Dresp   wireResp    `json:"dresp"`
	Detail  string      `json:"detail"` // human-readable, not used by the spec
}

type gcEntry struct {
	Key   string `json:"key"`
	Error string `json:"error"`
}

type traceRec struct {
	ID  int     `json:"id"`
	Grp int     `json:"grp"`
	Req caseReq `json:"req"`
	Obs obsRec  `json:"obs"`
}

func digest(b []byte) string {
	s := sha1.Sum(b)
	return fmt.Sprintf("%d:%s", len(b), hex.EncodeToString(s[:10]))
}

// ---------------------------------------------------------------- world (cluster mock)

type world struct {
	mu      sync.Mutex
	pins    map[string]pinRec // cid string -> record (Cid field = abstract name)
	ops     []opRec
	nblocks int
	statN   int

	cids    map[string]cid.Cid     // abstract -> concrete
	names   map[string]string      // cid string -> abstract
	paths   map[string]string      // canonical path string -> abstract arg class
	resolve map[string]cid.Cid     // canonical path -> cid (non-trivial paths)
	argText map[string]string      // abstract arg class -> text a client types
	roots   map[string][]addParams // root cid -> parameter tuples producing it
	gcKeys  []cid.Cid
	peers   []peer.ID
	record  bool

	// per case (set by the rig before the request is sent)
	fault       string  // Proxy.tla Faults: which RPC of the add path fails
	gcerr       string  // Proxy.tla GCErrs: which collected keys the cluster reports as failed
	defaultRoot cid.Cid // root of the rig's content under the default add parameters (world "wr")
	peerfail    string  // real cluster: the peer whose IPFS connector fails RepoStat
}

func mkCid(rng *rand.Rand, v1 bool) cid.Cid {
	b := make([]byte, 32)
	rng.Read(b)
	h, _ := mh.Sum(b, mh.SHA2_256, -1)
	if v1 {
		return cid.NewCidV1(cid.DagProtobuf, h)
	}
	return cid.NewCidV0(h)
}

func newWorld(rng *rand.Rand) *world {
	w := &world{cids: map[string]cid.Cid{}, names: map[string]string{}, paths: map[string]string{},
		resolve: map[string]cid.Cid{}, argText: map[string]string{}, roots: map[string][]addParams{}, record: true}
	for _, n := range []string{"cP", "cQ", "cU", "cR", "cX", "cZ", "g1", "g2", "g3"} {
		c := mkCid(rng, rng.Intn(2) == 0)
		w.cids[n] = c
		w.names[c.String()] = n
	}
	w.gcKeys = []cid.Cid{w.cids["g1"], w.cids["g2"], w.cids["g3"]}
	for _, n := range []string{"cP", "cU"} {
		w.argText[n] = w.cids[n].String()
		w.paths["/ipfs/"+w.cids[n].String()] = n
	}
	pR := "/ipfs/" + w.cids["cX"].String() + "/sub/f.txt"
	pQ := "/ipns/verif.example.com"
	pN := "/ipfs/" + w.cids["cZ"].String() + "/missing"
	w.argText["pR"], w.argText["pQ"], w.argText["pN"] = pR, pQ, pN
	w.paths[pR], w.paths[pQ], w.paths[pN] = "pR", "pQ", "pN"
	w.resolve[pR] = w.cids["cR"]
	w.resolve[pQ] = w.cids["cQ"]
	w.argText["bad"] = []string{"notacid", "Qm123", "zzz~1", "bafynope"}[rng.Intn(4)]
	for i := 0; i < 3; i++ {
		b := make([]byte, 32)
		rng.Read(b)
		h, _ := mh.Sum(b, mh.IDENTITY, -1)
		w.peers = append(w.peers, peer.ID(h))
	}
	w.reset("w0")
	return w
}

// reset installs one of the spec's worlds (Proxy.tla, World(w)).
func (w *world) reset(name string) {
	w.mu.Lock()
	defer w.mu.Unlock()
	w.pins = map[string]pinRec{}
	put := func(c, mode, n string) {
		w.pins[w.cids[c].String()] = pinRec{Cid: c, Mode: mode, Name: n, Repl: NA}
	}
	switch name {
	case "wr":
		put("cP", "recursive", "nP")
		put("cQ", "recursive", "nQ")
		w.pins[w.defaultRoot.String()] = pinRec{Cid: "root", Mode: "recursive", Name: "n0", Repl: NA}
	case "w1":
	case "w2":
		put("cP", "direct", "nP")
		put("cQ", "direct", "nQ")
		put("cU", "recursive", NA)
		put("cR", "recursive", "n1")
	default:
		put("cP", "recursive", "nP")
		put("cQ", "recursive", "nQ")
	}
	w.clearCalls()
}

func (w *world) clearCalls() {
	w.ops = []opRec{}
	w.nblocks = 0
	w.statN = 0
}

func (w *world) snapshot() []pinRec {
	ps := []pinRec{}
	for _, p := range w.pins {
		ps = append(ps, p)
	}
	sort.Slice(ps, func(i, j int) bool { return ps[i].Cid < ps[j].Cid })
	return ps
}

func (w *world) nameOf(c cid.Cid) string {
	if !c.Defined() {
		return NA
	}
	if n, ok := w.names[c.String()]; ok {
		return n
	}
	if _, ok := w.roots[c.String()]; ok {
		return "root"
	}
	return "?" + c.String()
}

func (w *world) pathName(p string) string {
	if n, ok := w.paths[p]; ok {
		return n
	}
	return "?" + p
}

func (w *world) resolvePath(p string) (cid.Cid, bool) {
	if c, ok := w.resolve[p]; ok {
		return c, true
	}
	if strings.HasPrefix(p, "/ipfs/") {
		rest := strings.TrimPrefix(p, "/ipfs/")
		if !strings.Contains(rest, "/") {
			c, err := cid.Decode(rest)
			return c, err == nil
		}
	}
	return cid.Undef, false
}

func modeStr(m api.PinMode) string {
	if m == api.PinModeDirect {
		return "direct"
	}
	if m == api.PinModeRecursive {
		return "recursive"
	}
	return fmt.Sprintf("mode%d", int(m))
}

func dash(s string) string {
	if s == "" {
		return NA
	}
	return s
}

func replStr(o api.PinOptions) string {
	if o.ReplicationFactorMin == 0 && o.ReplicationFactorMax == 0 {
		return NA
	}
	return fmt.Sprintf("%d/%d", o.ReplicationFactorMin, o.ReplicationFactorMax)
}

func (w *world) op(o opRec) {
	if w.record {
		w.ops = append(w.ops, o)
	}
}

func (w *world) pinObj(c cid.Cid, r pinRec) *api.Pin {
	p := api.PinCid(c)
	if r.Mode == "direct" {
		p.Mode = api.PinModeDirect
		p.MaxDepth = 0
	}
	if r.Name != NA {
		p.Name = r.Name
	}
	return p
}

type clusterSvc struct{ w *world }
type ipfsSvc struct{ w *world }
type consensusSvc struct{ w *world }

func (s *clusterSvc) PinPath(ctx context.Context, in *api.PinPath, out *api.Pin) error {
	w := s.w
	w.mu.Lock()
	defer w.mu.Unlock()
	o := opRec{M: "Cluster.PinPath", Tgt: w.pathName(in.Path), Mode: modeStr(in.Mode), Upd: w.nameOf(in.PinUpdate),
		Name: dash(in.Name), Repl: replStr(in.PinOptions)}
	c, ok := w.resolvePath(in.Path)
	if !ok {
		w.op(o)
		return errors.New("could not resolve path")
	}
	rec := pinRec{Cid: w.nameOf(c), Mode: modeStr(in.Mode), Name: dash(in.Name), Repl: replStr(in.PinOptions)}
	if in.PinUpdate.Defined() {
		from, ok := w.pins[in.PinUpdate.String()]
		if !ok {
			w.op(o)
			return errors.New("pin is not part of the pinset")
		}
		rec = from
		rec.Cid = w.nameOf(c)
	}
	w.pins[c.String()] = rec
	o.OK = true
	w.op(o)
	*out = *w.pinObj(c, rec)
	return nil
}

func (s *clusterSvc) UnpinPath(ctx context.Context, in *api.PinPath, out *api.Pin) error {
	w := s.w
	w.mu.Lock()
	defer w.mu.Unlock()
	o := opRec{M: "Cluster.UnpinPath", Tgt: w.pathName(in.Path), Mode: NA, Upd: NA, Name: NA, Repl: NA}
	c, ok := w.resolvePath(in.Path)
	if !ok {
		w.op(o)
		return errors.New("could not resolve path")
	}
	rec, ok := w.pins[c.String()]
	if !ok {
		w.op(o)
		return errors.New("pin is not part of the pinset")
	}
	delete(w.pins, c.String())
	o.OK = true
	w.op(o)
	*out = *w.pinObj(c, rec)
	return nil
}

func (s *clusterSvc) Pin(ctx context.Context, in *api.Pin, out *api.Pin) error {
	w := s.w
	w.mu.Lock()
	defer w.mu.Unlock()
	rec := pinRec{Cid: w.nameOf(in.Cid), Mode: modeStr(in.Mode), Name: dash(in.Name), Repl: replStr(in.PinOptions)}
	if w.fault == "pin" {
		w.op(opRec{M: "Cluster.Pin", Tgt: rec.Cid, Mode: rec.Mode, Upd: w.nameOf(in.PinUpdate), Name: rec.Name, Repl: rec.Repl})
		return errors.New("injected fault: pin could not be committed")
	}
	w.pins[in.Cid.String()] = rec
	w.op(opRec{M: "Cluster.Pin", Tgt: rec.Cid, Mode: rec.Mode, Upd: w.nameOf(in.PinUpdate), Name: rec.Name, Repl: rec.Repl, OK: true})
	*out = *in
	return nil
}

func (s *clusterSvc) Unpin(ctx context.Context, in *api.Pin, out *api.Pin) error {
	w := s.w
	w.mu.Lock()
	defer w.mu.Unlock()
	o := opRec{M: "Cluster.Unpin", Tgt: w.nameOf(in.Cid), Mode: NA, Upd: NA, Name: NA, Repl: NA}
	if err := ctx.Err(); err != nil {
		// as the real consensus layer, which hands the context to its network calls
		w.op(o)
		return err
	}
	rec, ok := w.pins[in.Cid.String()]
	if !ok {
		w.op(o)
		return errors.New("pin is not part of the pinset")
	}
	delete(w.pins, in.Cid.String())
	o.OK = true
	w.op(o)
	*out = *w.pinObj(in.Cid, rec)
	return nil
}

func (s *clusterSvc) PinGet(ctx context.Context, in cid.Cid, out *api.Pin) error {
	w := s.w
	w.mu.Lock()
	defer w.mu.Unlock()
	o := opRec{M: "Cluster.PinGet", Tgt: w.nameOf(in), Mode: NA, Upd: NA, Name: NA, Repl: NA}
	rec, ok := w.pins[in.String()]
	if !ok {
		w.op(o)
		return errors.New("pin is not part of the pinset")
	}
	o.OK = true
	w.op(o)
	*out = *w.pinObj(in, rec)
	return nil
}

func (s *clusterSvc) Pins(ctx context.Context, in struct{}, out *[]*api.Pin) error {
	w := s.w
	w.mu.Lock()
	defer w.mu.Unlock()
	w.op(opRec{M: "Cluster.Pins", Tgt: NA, Mode: NA, Upd: NA, Name: NA, Repl: NA, OK: true})
	res := []*api.Pin{}
	for k, rec := range w.pins {
		c, _ := cid.Decode(k)
		res = append(res, w.pinObj(c, rec))
	}
	*out = res
	return nil
}

func (s *clusterSvc) BlockAllocate(ctx context.Context, in *api.Pin, out *[]peer.ID) error {
	w := s.w
	w.mu.Lock()
	defer w.mu.Unlock()
	if w.fault == "alloc" {
		w.op(opRec{M: "Cluster.BlockAllocate", Tgt: NA, Mode: NA, Upd: NA, Name: NA, Repl: NA})
		return errors.New("injected fault: no peers to allocate to")
	}
	w.op(opRec{M: "Cluster.BlockAllocate", Tgt: NA, Mode: NA, Upd: NA, Name: NA, Repl: NA, OK: true})
	*out = []peer.ID{w.peers[0]}
	return nil
}

func (s *clusterSvc) RepoGC(ctx context.Context, in struct{}, out *api.GlobalRepoGC) error {
	w := s.w
	w.mu.Lock()
	defer w.mu.Unlock()
	w.op(opRec{M: "Cluster.RepoGC", Tgt: NA, Mode: NA, Upd: NA, Name: NA, Repl: NA, OK: true})
	k := func(i int) api.IPFSRepoGC {
		e := api.IPFSRepoGC{Key: w.gcKeys[i]}
		if strings.Contains(w.gcerr, fmt.Sprint(i+1)) {
			e.Error = fmt.Sprintf("err-g%d", i+1)
		}
		return e
	}
	*out = api.GlobalRepoGC{PeerMap: map[string]*api.RepoGC{
		peer.Encode(w.peers[0]): {Peer: w.peers[0], Keys: []api.IPFSRepoGC{k(0), k(1)}},
		peer.Encode(w.peers[1]): {Peer: w.peers[1], Keys: []api.IPFSRepoGC{k(2)}},
		peer.Encode(w.peers[2]): {Peer: w.peers[2], Keys: []api.IPFSRepoGC{}},
	}}
	return nil
}

func (s *ipfsSvc) Resolve(ctx context.Context, in string, out *cid.Cid) error {
	w := s.w
	w.mu.Lock()
	defer w.mu.Unlock()
	o := opRec{M: "IPFS.Resolve", Tgt: w.pathName(in), Mode: NA, Upd: NA, Name: NA, Repl: NA}
	c, ok := w.resolvePath(in)
	if !ok {
		w.op(o)
		return errors.New("could not resolve path")
	}
	o.OK = true
	w.op(o)
	*out = c
	return nil
}

func (s *ipfsSvc) BlockPut(ctx context.Context, in *api.NodeWithMeta, out *struct{}) error {
	s.w.mu.Lock()
	defer s.w.mu.Unlock()
	s.w.nblocks++
	if s.w.fault == "put1" && s.w.nblocks == 1 {
		return errors.New("injected fault: block put failed")
	}
	if _, isRoot := s.w.roots[in.Cid.String()]; isRoot && s.w.fault == "putroot" {
		return errors.New("injected fault: block put failed")
	}
	return nil
}

var statSizes = []uint64{100, 20, 3}
var statMaxes = []uint64{1000, 200, 30}

func (s *ipfsSvc) RepoStat(ctx context.Context, in struct{}, out *api.IPFSRepoStat) error {
	w := s.w
	w.mu.Lock()
	defer w.mu.Unlock()
	i := w.statN % 3
	w.statN++
	w.op(opRec{M: "IPFS.RepoStat", Tgt: NA, Mode: NA, Upd: NA, Name: NA, Repl: NA, OK: true})
	*out = api.IPFSRepoStat{RepoSize: statSizes[i], StorageMax: statMaxes[i]}
	return nil
}

func (s *consensusSvc) Peers(ctx context.Context, in struct{}, out *[]peer.ID) error {
	w := s.w
	w.mu.Lock()
	defer w.mu.Unlock()
	w.op(opRec{M: "Consensus.Peers", Tgt: NA, Mode: NA, Upd: NA, Name: NA, Repl: NA, OK: true})
	*out = append([]peer.ID{}, w.peers...)
	return nil
}

func (w *world) rpcClient() (*rpc.Client, error) {
	s := rpc.NewServer(nil, "verif")
	c := rpc.NewClientWithServer(nil, "verif", s)
	if err := s.RegisterName("Cluster", &clusterSvc{w}); err != nil {
		return nil, err
	}
	if err := s.RegisterName("IPFSConnector", &ipfsSvc{w}); err != nil {
		return nil, err
	}
	if err := s.RegisterName("Consensus", &consensusSvc{w}); err != nil {
		return nil, err
	}
	return c, nil
}

// ---------------------------------------------------------------- recording daemon

var endToEndHeaders = []string{"Content-Type", "X-Verif-Custom", "Authorization", "Origin", "Cookie", "User-Agent", "Accept"}

func hdrString(h http.Header, host string) string {
	parts := []string{"Host=" + host}
	for _, k := range endToEndHeaders {
		if v, ok := h[k]; ok {
			parts = append(parts, k+"="+strings.Join(v, ","))
		}
	}
	return strings.Join(parts, "|")
}

var respHeaders = []string{"Content-Type", "X-Verif-Daemon", "Location", "X-Verif-Extra"}

func respHdrString(h http.Header) string {
	parts := []string{}
	for _, k := range respHeaders {
		if v, ok := h[k]; ok {
			parts = append(parts, k+"="+strings.Join(v, ","))
		}
	}
	return strings.Join(parts, "|")
}

var hijackPaths = map[string]string{
	"/api/v0/pin/add": "pin/add", "/api/v0/pin/rm": "pin/rm", "/api/v0/pin/ls": "pin/ls",
	"/api/v0/pin/update": "pin/update", "/api/v0/add": "add", "/api/v0/repo/stat": "repo/stat",
	"/api/v0/repo/gc": "repo/gc",
}

// classify names the daemon command a request path denotes (binding function
// for the spec's pclass): the seven replaced commands, the header extraction
// path, or "other".
func classify(p string) string {
	if r, ok := hijackPaths[p]; ok {
		return r
	}
	for _, base := range []string{"/api/v0/pin/add", "/api/v0/pin/rm", "/api/v0/pin/ls"} {
		if strings.HasPrefix(p, base+"/") {
			rest := strings.TrimPrefix(p, base+"/")
			if rest != "" && !strings.Contains(rest, "/") {
				return hijackPaths[base]
			}
		}
	}
	if p == "/api/v0/version" {
		return "extract"
	}
	return "other"
}

type daemon struct {
	mu    sync.Mutex
	srv   *httptest.Server
	calls []dcall
	resps []wireResp
	reset bool          // Proxy.tla daemon = "reset": accept and reset every connection
	delay time.Duration // Proxy.tla daemon = "slow": wait before answering
}

// gateListener lets the daemon reset connections right after accepting them.
type gateListener struct {
	net.Listener
	d *daemon
}

func (g *gateListener) Accept() (net.Conn, error) {
	for {
		c, err := g.Listener.Accept()
		if err != nil {
			return c, err
		}
		g.d.mu.Lock()
		reset := g.d.reset
		g.d.mu.Unlock()
		if !reset {
			return c, nil
		}
		if tc, ok := c.(*net.TCPConn); ok {
			tc.SetLinger(0)
		}
		c.Close()
	}
}

func newDaemon() *daemon {
	d := &daemon{}
	d.srv = httptest.NewUnstartedServer(http.HandlerFunc(d.handle))
	d.srv.Listener = &gateListener{Listener: d.srv.Listener, d: d}
	d.srv.Start()
	return d
}

// setMode puts the daemon into one of the spec's modes that it realises itself
// ("down" is realised by a proxy whose node address refuses connections).
func (d *daemon) setMode(mode string) {
	d.mu.Lock()
	d.reset = mode == "reset"
	d.delay = 0
	if mode == "slow" {
		d.delay = slowDelay
	}
	d.mu.Unlock()
	if mode == "reset" {
		d.srv.CloseClientConnections() // no kept-alive connection may bypass the gate
	}
}

// The "slow" proxy is configured with 300 ms for every timeout that is about
// the client leg (read_header_timeout, idle_timeout); the slow daemon takes
// more than 3x that before it starts to answer.
const (
	clientLegTimeout = 300 * time.Millisecond
	slowDelay        = 1000 * time.Millisecond
)

var statuses = []int{200, 200, 200, 201, 302, 400, 403, 404, 500, 503}

func (d *daemon) handle(rw http.ResponseWriter, r *http.Request) {
	body, _ := io.ReadAll(r.Body)

	sum := sha1.Sum([]byte(r.Method + " " + r.RequestURI + " " + digest(body)))
	tag := hex.EncodeToString(sum[:8])
	status := statuses[int(sum[0])%len(statuses)]
	out := []byte("verif-daemon:" + tag + ":")
	switch int(sum[1]) % 4 {
	case 1:
		out = append(out, bytes.Repeat([]byte{'x'}, 100)...)
	case 2:
		out = append(out, bytes.Repeat(sum[:], 3500)...) // 70 KB, binary
	case 3:
		out = []byte{}
	}
	if r.Method == http.MethodOptions {
		// as go-ipfs does; the proxy's own pre-flight requests never read (or close) the body
		out = []byte{}
	}
	h := rw.Header()
	h.Set("Content-Type", "text/x-verif; tag="+tag)
	h.Set("X-Verif-Daemon", tag)
	h.Set("Access-Control-Allow-Origin", "*")
	h.Set("Access-Control-Expose-Headers", "X-Verif-Daemon")
	if status == 302 {
		h.Set("Location", "/verif/elsewhere?"+tag)
	}
	if sum[2]%2 == 0 {
		h.Set("X-Verif-Extra", "e-"+tag)
	}
	sent := out
	if r.Method == http.MethodHead {
		sent = []byte{}
	}
	d.mu.Lock()
	d.calls = append(d.calls, dcall{Method: r.Method, URI: r.RequestURI, Body: digest(body), Hdrs: hdrString(r.Header, r.Host),
		Pclass: classify(r.URL.Path)})
	d.resps = append(d.resps, wireResp{Status: status, Body: digest(sent), Hdrs: respHdrString(h)})
	delay := d.delay
	d.mu.Unlock()
	if delay > 0 {
		time.Sleep(delay) // "slow": the call is on record, the answer starts late
	}
	rw.WriteHeader(status)
	if sum[3]%2 == 0 && len(out) > 200 {
		// stream in two pieces (chunked)
		rw.Write(out[:100])
		if f, ok := rw.(http.Flusher); ok {
			f.Flush()
		}
		rw.Write(out[100:])
		return
	}
	rw.Write(out)
}

func (d *daemon) take() ([]dcall, []wireResp) {
	d.mu.Lock()
	defer d.mu.Unlock()
	c, r := d.calls, d.resps
	d.calls, d.resps = nil, nil
	if c == nil {
		c = []dcall{}
	}
	return c, r
}

// ---------------------------------------------------------------- rig

type proxyEnd struct {
	srv    *ipfsproxy.Server
	client *http.Client
}

type rig struct {
	retries int
	n       int
	rng     *rand.Rand
	w       *world
	d       *daemon
	ends    map[string]*proxyEnd // "up": node = the daemon; "down": node refuses connections; "slow": small client-leg timeouts
	refused int                  // fd of a bound, never listening socket (its port refuses connections and stays ours)
	content []byte
	real    []*hrig.Rig // real Cluster peers behind the proxy (cluster = "real3"), else nil
	shared  *hrig.SharedState
}

// refusedPort returns a loopback port on which connections are refused for as
// long as the returned descriptor stays open (bound, not listening).
func refusedPort() (int, int, error) {
	fd, err := syscall.Socket(syscall.AF_INET, syscall.SOCK_STREAM, 0)
	if err != nil {
		return 0, 0, err
	}
	if err := syscall.Bind(fd, &syscall.SockaddrInet4{Port: 0, Addr: [4]byte{127, 0, 0, 1}}); err != nil {
		syscall.Close(fd)
		return 0, 0, err
	}
	sa, err := syscall.Getsockname(fd)
	if err != nil {
		syscall.Close(fd)
		return 0, 0, err
	}
	return fd, sa.(*syscall.SockaddrInet4).Port, nil
}

func (r *rig) addProxy(kind, dir string, nodeAddr ma.Multiaddr, c *rpc.Client) error {
	sock := filepath.Join(dir, fmt.Sprintf("p%d-%s.sock", r.n, kind))
	listen, err := ma.NewMultiaddr("/unix" + sock)
	if err != nil {
		return err
	}
	cfg := &ipfsproxy.Config{}
	cfg.Default()
	cfg.NodeAddr = nodeAddr
	cfg.ListenAddr = []ma.Multiaddr{listen}
	cfg.ReadTimeout = 0
	cfg.WriteTimeout = 0
	if kind == "slow" {
		cfg.ReadHeaderTimeout = clientLegTimeout
		cfg.IdleTimeout = clientLegTimeout
	}
	p, err := ipfsproxy.New(cfg)
	if err != nil {
		return err
	}
	p.SetClient(c)
	cl := &http.Client{
		Transport: &http.Transport{
			DialContext: func(ctx context.Context, _, _ string) (net.Conn, error) {
				var dl net.Dialer
				return dl.DialContext(ctx, "unix", sock)
			},
			DisableCompression: true,
			MaxIdleConns:       4,
			DisableKeepAlives:  kind == "slow",
		},
		CheckRedirect: func(*http.Request, []*http.Request) error { return http.ErrUseLastResponse },
		Timeout:       60 * time.Second,
	}
	r.ends[kind] = &proxyEnd{srv: p, client: cl}
	deadline := time.Now().Add(20 * time.Second)
	for {
		conn, err := net.Dial("unix", sock)
		if err == nil {
			conn.Close()
			return nil
		}
		if time.Now().After(deadline) {
			return fmt.Errorf("proxy did not start listening: %v", err)
		}
		time.Sleep(10 * time.Millisecond)
	}
}

// statIPFS is the IPFS connector of a real Cluster peer: RepoStat answers the
// peer's scripted numbers (Proxy.tla RealStat) or fails when the case says so.
type statIPFS struct {
	*hrig.FakeIPFS
	name      string
	size, max uint64
	w         *world
}

func (s *statIPFS) RepoStat(context.Context) (*api.IPFSRepoStat, error) {
	s.w.mu.Lock()
	fail := s.w.peerfail == s.name
	s.w.op(opRec{M: "IPFS.RepoStat", Tgt: NA, Mode: NA, Upd: NA, Name: NA, Repl: NA, OK: !fail})
	s.w.mu.Unlock()
	if fail {
		return nil, errors.New("injected fault: ipfs daemon of " + s.name + " does not answer")
	}
	return &api.IPFSRepoStat{RepoSize: s.size, StorageMax: s.max}, nil
}

var realStats = map[string][2]uint64{"p1": {7, 70}, "p2": {500, 9000}, "p3": {30000, 100000}}

// newRig builds one rig. real = true puts three real Cluster peers (real RPC
// server with the authorization policy, connected libp2p hosts, one shared
// pinset) behind the proxy, which gets the RPC client of peer p1 exactly as an
// API component of that peer does.
func newRig(n int, seed int64, dir string, real bool) (*rig, error) {
	r := &rig{n: n, rng: rand.New(rand.NewSource(seed*1000 + int64(n))), ends: map[string]*proxyEnd{}, refused: -1}
	r.w = newWorld(r.rng)
	r.content = make([]byte, 4000)
	r.rng.Read(r.content)
	r.d = newDaemon()
	u, _ := url.Parse(r.d.srv.URL)
	host, port, _ := net.SplitHostPort(u.Host)
	nodeAddr, err := ma.NewMultiaddr(fmt.Sprintf("/ip4/%s/tcp/%s", host, port))
	if err != nil {
		return nil, err
	}
	fd, rport, err := refusedPort()
	if err != nil {
		return nil, err
	}
	r.refused = fd
	downAddr, _ := ma.NewMultiaddr(fmt.Sprintf("/ip4/127.0.0.1/tcp/%d", rport))
	var c *rpc.Client
	if real {
		r.shared = hrig.NewSharedState()
		ids := []peer.ID{}
		for _, name := range []string{"p1", "p2", "p3"} {
			st := realStats[name]
			cr, err := hrig.NewRig(hrig.Opts{Shared: r.shared,
				IPFS: &statIPFS{FakeIPFS: hrig.NewFakeIPFS(), name: name, size: st[0], max: st[1], w: r.w}})
			if err != nil {
				return nil, fmt.Errorf("real cluster peer %s: %v", name, err)
			}
			r.real = append(r.real, cr)
			ids = append(ids, cr.ID)
		}
		for _, a := range r.real {
			for _, b := range r.real {
				if a != b {
					a.Host.Peerstore().AddAddrs(b.ID, b.Host.Addrs(), peerstore.PermanentAddrTTL)
				}
			}
		}
		r.shared.SetPeers(ids)
		c = r.real[0].RPC()
		if c == nil {
			return nil, errors.New("real cluster peer p1 handed no RPC client to its API component")
		}
	}
	for _, kind := range []string{"up", "down", "slow"} {
		cl := c
		if !real {
			if cl, err = r.w.rpcClient(); err != nil {
				return nil, err
			}
		}
		na := nodeAddr
		if kind == "down" {
			na = downAddr
		}
		if err := r.addProxy(kind, dir, na, cl); err != nil {
			return nil, err
		}
	}
	if !real {
		if err := r.buildRootTable(); err != nil {
			return nil, err
		}
	}
	return r, nil
}

func (r *rig) close() {
	ctx, cancel := context.WithTimeout(context.Background(), 10*time.Second)
	defer cancel()
	for _, e := range r.ends {
		e.client.CloseIdleConnections()
		e.srv.Shutdown(ctx)
	}
	r.d.srv.Close()
	if r.refused >= 0 {
		syscall.Close(r.refused)
	}
	for _, cr := range r.real {
		cr.Close()
	}
}

func (r *rig) multipartBody() ([]byte, string) {
	var buf bytes.Buffer
	mw := multipart.NewWriter(&buf)
	hd := textproto.MIMEHeader{}
	hd.Set("Content-Disposition", `form-data; name="file"; filename="f.bin"`)
	hd.Set("Content-Type", "application/octet-stream")
	pw, _ := mw.CreatePart(hd)
	pw.Write(r.content)
	mw.Close()
	return buf.Bytes(), mw.FormDataContentType()
}

// buildRootTable runs the cluster add operation (adderutils.AddMultipartHTTPHandler,
// as the REST API does) directly with explicitly built parameters, once per
// parameter tuple, on the rig's content: root CID -> parameter tuples.
func (r *rig) buildRootTable() error {
	scratch := newWorld(rand.New(rand.NewSource(1)))
	scratch.record = false
	c, err := scratch.rpcClient()
	if err != nil {
		return err
	}
	for _, layout := range []string{"balanced", "trickle"} {
		for _, chunker := range []string{"default", "size-16"} {
			for _, cidv := range []string{"0", "1"} {
				for _, raw := range []string{"false", "true"} {
					p := api.DefaultAddParams()
					if layout == "trickle" {
						p.Layout = "trickle"
					}
					if chunker != "default" {
						p.Chunker = chunker
					}
					if cidv == "1" {
						p.CidVersion = 1
					}
					p.RawLeaves = raw == "true"
					body, ct := r.multipartBody()
					_, params, _ := mimeParse(ct)
					mr := multipart.NewReader(bytes.NewReader(body), params["boundary"])
					root, err := adderutils.AddMultipartHTTPHandler(context.Background(), c, p, mr, httptest.NewRecorder(), nil)
					if err != nil {
						return fmt.Errorf("reference add failed: %v", err)
					}
					k := root.String()
					r.w.roots[k] = append(r.w.roots[k], addParams{Layout: layout, Chunker: chunker, Cidv: cidv, Raw: raw})
					if layout == "balanced" && chunker == "default" && cidv == "0" && raw == "false" {
						r.w.defaultRoot = root
					}
				}
			}
		}
	}
	return nil
}

func mimeParse(ct string) (string, map[string]string, error) {
	i := strings.Index(ct, "boundary=")
	if i < 0 {
		return ct, map[string]string{}, errors.New("no boundary")
	}
	return "multipart/form-data", map[string]string{"boundary": strings.Trim(ct[i+9:], `"`)}, nil
}

// ---------------------------------------------------------------- concretisation

var passPaths = map[string][]string{
	"nm-suffix":   {"/api/v0/pin/addx", "/api/v0/addx", "/api/v0/repo/gcx", "/api/v0/pin/lsx", "/api/v0/pin/rmm", "/api/v0/pin/updates", "/api/v0/repo/stats", "/api/v0/add2"},
	"nm-version":  {"/api/v1/pin/add", "/api/v00/add", "/api/pin/add", "/api/v1/add", "/api/v2/repo/gc", "/api/v01/pin/ls"},
	"nm-parent":   {"/api/v0/pin", "/api/v0/repo", "/api/v0", "/api/v0/", "/api/v0/pin/", "/api", "/api/v0/repo/"},
	"nm-trailing": {"/api/v0/pin/add/", "/api/v0/add/", "/api/v0/repo/stat/", "/api/v0/pin/update/", "/api/v0/pin/rm/", "/api/v0/pin/ls/", "/api/v0/repo/gc/"},
	"nm-deep":     {"/api/v0/pin/add/a/b", "/api/v0/add/x", "/api/v0/repo/gc/now", "/api/v0/pin/update/x", "/api/v0/pin/rm/a/b/c", "/api/v0/pin/ls/x/y", "/api/v0/repo/stat/h"},
	"nm-prefix":   {"/pin/add", "/v0/pin/add", "/x/api/v0/pin/add", "/add", "/repo/gc", "/proxy/api/v0/add", "/api/v0/api/v0/pin/rm"},
	"nm-case":     {"/api/v0/Pin/Add", "/API/v0/add", "/api/V0/pin/rm", "/api/v0/ADD", "/api/v0/repo/GC", "/api/v0/pin/Ls"},
	"api-other":   {"/api/v0/version", "/api/v0/id", "/api/v0/cat", "/api/v0/pin/verify", "/api/v0/block/put", "/api/v0/files/ls", "/api/v0/dag/get", "/api/v0/swarm/peers", "/api/v0/repo/verify", "/api/v0/repo/version", "/api/v0/object/get", "/api/v0/name/publish", "/api/v0/pin/remote/add", "/api/v0/pin/remote/ls"},
	"root":        {"/", "/webui", "/favicon.ico", "/ipfs/QmUNLLsPACCz1vLxQVkXqqLX5R1X345qqfHbsf67hvA3Nn/x", "/ipns/example.com/", "/debug/metrics/prometheus", "/version"},
	// percent-encoded spellings that decode to a near-miss of a pinning endpoint
	"nm-encoded": {"/api/v0/pin/%61ddx", "/api/v0/pin%2Faddx", "/api/v1/pin%2Fadd", "/api/v0/%61dd%2Fx%2Fy", "/api/v0/pin%2F",
		"/api%2Fv0/pin", "/api/v0/repo%2Fgcx", "/api/v0/pin/ls%2F", "/api/v0/pin/add%2Fa%2Fb", "/api/v0/%41dd", "/api/v0/pin/%52m",
		"/api/v0/pin%2Fupdate%2Fx", "/api/v0%2Frepo%2Fstat%2F", "/%61pi/v1/add", "/api/v0/pin/%61dd%20", "/api/v0/pin%252Fadd",
		"/api/v0/pin%252Frm", "/api/v0/%2561dd", "/api/v0/repo/g%63%63", "/pin%2Fadd", "/api/v0/%61dd/"},
	"escaped": {"/api/v0/foo%20bar", "/ipfs/%C3%A9t%C3%A9", "/a%41b", "/x%2fy", "/api/v0/cat%2Fx", "/~user/(paren)", "/a+b", "/a;b=c", "/a:b@c", "/a,b&c", "/a%25b", "/api/v0/pin/add%20"},
	"unclean": {"/api/v0//version", "/api/v0/./id", "/api/v0/x/../version", "//", "/a//b", "/webui/../webui", "/api//v0/cat", "/ipfs/./Qm"},
}

const alnum = "abcdefghijklmnopqrstuvwxyz0123456789"

func randWord(rng *rand.Rand, n int) string {
	b := make([]byte, n)
	for i := range b {
		b[i] = alnum[rng.Intn(len(alnum))]
	}
	return string(b)
}

func (r *rig) passPath(k string) string {
	l := passPaths[k]
	p := l[r.rng.Intn(len(l))]
	if k == "api-other" && r.rng.Intn(3) == 0 {
		p = "/api/v0/" + randWord(r.rng, 1+r.rng.Intn(6)) + "/" + randWord(r.rng, 1+r.rng.Intn(6))
		if classify(p) != "other" || p == "/api/v0/pin/update" || p == "/api/v0/repo/stat" || p == "/api/v0/repo/gc" {
			p = "/api/v0/verifx"
		}
	}
	if k == "root" && r.rng.Intn(3) == 0 {
		p = "/" + randWord(r.rng, 1+r.rng.Intn(8))
		if r.rng.Intn(2) == 0 {
			p += "/" + randWord(r.rng, 1+r.rng.Intn(8))
		}
		if strings.HasPrefix(p, "/api") {
			p = "/x" + p
		}
	}
	return p
}

var weirdQueries = []string{"a=1&&b", "x;y=1", "a=%zz", "a+b=c+d", "=", "a=b=c", "%41=%42", "utf=%C3%A9", "q=a%20b",
	"arg=/ipfs/x/../y", "a[]=1&a[]=2", "&", "a=1&a=2&a=1", "arg", "x=%2F%2f", "A=1&a=1", "k=v#notfragment%23", "a=b?c=d"}

func (r *rig) passQuery(k string) string {
	switch k {
	case "simple":
		return "a=1&b=" + randWord(r.rng, 3)
	case "arglike":
		q := "arg=" + r.w.argText[[]string{"cP", "cU"}[r.rng.Intn(2)]]
		if r.rng.Intn(2) == 0 {
			q += "&type=direct"
		}
		if r.rng.Intn(3) == 0 {
			q += "&only-hash=true&pin=false"
		}
		return q
	case "weird":
		return weirdQueries[r.rng.Intn(len(weirdQueries))]
	}
	return ""
}

// passBody returns body bytes, content type, and whether to send with unknown length.
func (r *rig) passBody(k string) ([]byte, string, bool) {
	switch k {
	case "text":
		return []byte("hello " + randWord(r.rng, 1+r.rng.Intn(40))), "text/plain", false
	case "bin":
		b := make([]byte, 300)
		r.rng.Read(b)
		b[7], b[8] = 0, '\n'
		return b, "application/octet-stream", false
	case "mp":
		b, ct := r.multipartBody()
		return b, ct, false
	case "large":
		b := make([]byte, 200*1024)
		r.rng.Read(b)
		return b, "application/octet-stream", false
	case "chunked":
		b := make([]byte, 5000+r.rng.Intn(5000))
		r.rng.Read(b)
		return b, "application/x-verif", true
	}
	return nil, "", false
}

// spell writes the fixed part of a pinning endpoint's path (plus, for the /arg
// style, the separating slash) with percent-encoded characters as asked by
// enc: "letter" encodes one or more letters/digits, "slash" one or more of the
// non-leading slashes, "both" at least one of each. The result decodes to the
// plain spelling.
func (r *rig) spell(fixed, enc string, withSep bool) string {
	if withSep {
		fixed += "/"
	}
	if enc == NA || enc == "" {
		return fixed
	}
	var letters, slashes []int
	for i := 0; i < len(fixed); i++ {
		ch := fixed[i]
		switch {
		case ch == '/' && i > 0:
			slashes = append(slashes, i)
		case ch != '/':
			letters = append(letters, i)
		}
	}
	pick := func(idx []int) map[int]bool {
		m := map[int]bool{idx[r.rng.Intn(len(idx))]: true}
		for _, i := range idx {
			if r.rng.Intn(4) == 0 {
				m[i] = true
			}
		}
		return m
	}
	encode := map[int]bool{}
	if enc == "letter" || enc == "both" {
		for i := range pick(letters) {
			encode[i] = true
		}
	}
	if enc == "slash" || enc == "both" {
		for i := range pick(slashes) {
			encode[i] = true
		}
	}
	var b strings.Builder
	for i := 0; i < len(fixed); i++ {
		if encode[i] {
			f := "%%%02X"
			if r.rng.Intn(2) == 0 {
				f = "%%%02x"
			}
			fmt.Fprintf(&b, f, fixed[i])
		} else {
			b.WriteByte(fixed[i])
		}
	}
	return b.String()
}

// pausedReader delivers b[:cut], sleeps once, then delivers the rest.
type pausedReader struct {
	b      []byte
	cut    int
	pause  time.Duration
	off    int
	paused bool
}

func (p *pausedReader) Read(out []byte) (int, error) {
	if p.off >= len(p.b) {
		return 0, io.EOF
	}
	lim := len(p.b)
	if p.off < p.cut {
		lim = p.cut
	} else if !p.paused {
		p.paused = true
		time.Sleep(p.pause)
	}
	n := copy(out, p.b[p.off:lim])
	p.off += n
	return n, nil
}

type kv struct{ k, v string }

func (r *rig) encodeQuery(ps []kv) string {
	// "arg" order is significant (pin/update); keep relative order of args, shuffle the rest around them
	idx := r.rng.Perm(len(ps))
	out := make([]kv, 0, len(ps))
	args := []kv{}
	for _, p := range ps {
		if p.k == "arg" {
			args = append(args, p)
		}
	}
	ai := 0
	for _, i := range idx {
		if ps[i].k == "arg" {
			out = append(out, args[ai])
			ai++
		} else {
			out = append(out, ps[i])
		}
	}
	parts := []string{}
	for _, p := range out {
		v := url.QueryEscape(p.v)
		if r.rng.Intn(2) == 0 {
			v = strings.ReplaceAll(v, "%2F", "/")
		}
		parts = append(parts, p.k+"="+v)
	}
	return strings.Join(parts, "&")
}

type concrete struct {
	method  string
	path    string // escaped
	query   string
	body    []byte
	ctype   string
	unknown bool // send without Content-Length
}

func (r *rig) concretise(q caseReq) concrete {
	c := concrete{method: q.Method}
	if q.Pathk != "route" {
		c.path = r.passPath(q.Pathk)
		c.query = r.passQuery(q.Qk)
		c.body, c.ctype, c.unknown = r.passBody(q.Bk)
		return c
	}
	c.path = r.spell("/api/v0/"+q.Route, q.Enc, false)
	ps := []kv{}
	opt := func(k, v string) {
		if v != NA {
			ps = append(ps, kv{k, v})
		}
	}
	arg := func(a string) {
		if a == NA {
			return
		}
		if a == "none" {
			if r.rng.Intn(2) == 0 {
				ps = append(ps, kv{"arg", ""})
			}
			return
		}
		ps = append(ps, kv{"arg", r.w.argText[a]})
	}
	switch q.Route {
	case "pin/add", "pin/rm", "pin/ls":
		if q.Style == "slash" {
			c.path = r.spell("/api/v0/"+q.Route, q.Enc, true) + r.w.argText[q.Arg]
		} else {
			arg(q.Arg)
		}
		opt("type", q.Type)
	case "pin/update":
		if q.Arg != "none" {
			arg(q.Arg)
		}
		if q.Arg2 != "none" {
			arg(q.Arg2)
		}
		opt("unpin", q.Unpin)
	case "add":
		if q.Body == "mp" {
			c.body, c.ctype = r.multipartBody()
		} else {
			c.body, c.ctype = r.content[:200], "application/octet-stream"
		}
		opt("only-hash", q.Onlyhash)
		opt("pin", q.Pin)
		opt("layout", q.Layout)
		opt("trickle", q.Trickle)
		opt("chunker", q.Chunker)
		opt("cid-version", q.Cidv)
		opt("raw-leaves", q.Raw)
		opt("name", q.Name)
		switch q.Repl {
		case "1/2":
			ps = append(ps, kv{"replication-min", "1"}, kv{"replication-max", "2"})
		case "x":
			ps = append(ps, kv{"replication-min", "x"})
		}
	case "repo/gc":
		opt("stream-errors", q.Streamerr)
	}
	// parameters that do not change what is asked for (defaults spelled out, output formatting)
	if r.rng.Intn(3) == 0 {
		extras := map[string][]kv{
			"pin/add":    {{"encoding", "json"}, {"recursive", "true"}, {"progress", "false"}},
			"pin/rm":     {{"encoding", "json"}, {"recursive", "true"}},
			"pin/ls":     {{"encoding", "json"}, {"quiet", "false"}, {"stream", "false"}},
			"pin/update": {{"encoding", "json"}},
			"add":        {{"quiet", "true"}, {"progress", "false"}, {"stream-channels", "true"}, {"encoding", "json"}},
			"repo/stat":  {{"size-only", "false"}, {"human", "false"}},
			"repo/gc":    {{"quiet", "false"}, {"encoding", "json"}},
		}[q.Route]
		if len(extras) > 0 {
			ps = append(ps, extras[r.rng.Intn(len(extras))])
		}
	}
	c.query = r.encodeQuery(ps)
	return c
}

// ---------------------------------------------------------------- one case

// run executes one case. A transport-level failure between the driver's client
// and the proxy (connection cut while reading the response) is retried: Go's
// own httputil.ReverseProxy, without any cluster code, cuts about one in 10^4
// chunked responses to requests that carry a body (measured with go1.23.5), and
// a cut connection is never evidence for or against the property.
func (r *rig) run(ci caseIn) (traceRec, error) {
	c := r.concretise(ci.Req)
	var tr traceRec
	var err error
	for attempt := 0; attempt < 4; attempt++ {
		tr, err = r.runOnce(ci, c)
		if err == nil {
			return tr, nil
		}
		if !ci.Reset {
			return tr, err // a step of a sequence cannot be repeated in place
		}
		r.retries++
		time.Sleep(20 * time.Millisecond)
	}
	if d := ci.Req.Daemon; d == "down" || d == "reset" {
		// The daemon is unreachable by construction and the proxy dropped the
		// connection on every attempt without any HTTP answer: that is an
		// observation (Proxy.tla AnswersAlways), not a transport accident.
		r.w.mu.Lock()
		ps := r.w.snapshot()
		ops := append([]opRec{}, r.w.ops...)
		r.w.mu.Unlock()
		return traceRec{ID: ci.ID, Grp: ci.Grp, Req: ci.Req, Obs: obsRec{Dropped: true, PS0: ps, Self: true, Ops: ops, PS: ps,
			Pins: []string{}, Keys: []string{}, Stat: []int{}, Addp: []addParams{}, GC: []gcEntry{}, Tkeys: []string{},
			Dcalls: []dcall{}, Detail: "no answer, connection dropped 4 times: " + err.Error()}}, nil
	}
	return tr, err
}

func (r *rig) runOnce(ci caseIn, c concrete) (traceRec, error) {
	q := ci.Req
	if ci.Reset {
		wn := ci.World
		if wn == "" {
			wn = q.World
		}
		r.w.reset(wn)
	}
	r.w.mu.Lock()
	r.w.clearCalls()
	r.w.fault, r.w.gcerr, r.w.peerfail = q.Fault, q.Gcerr, q.Peerfail
	ps0 := r.w.snapshot()
	r.w.mu.Unlock()
	if r.real != nil && len(r.shared.Pins()) != 0 {
		return traceRec{}, errors.New("the real cluster's pinset is not empty")
	}
	end := r.ends["up"]
	switch q.Daemon {
	case "down":
		end = r.ends["down"]
	case "slow":
		end = r.ends["slow"]
		r.d.setMode("slow")
		defer r.d.setMode("up")
	case "reset":
		r.d.setMode("reset")
		defer r.d.setMode("up")
	}
	if q.Client == "upload" {
		end = r.ends["slow"] // the proxy whose read_header_timeout / idle_timeout are 300 ms
	}
	r.d.take()

	u, err := url.Parse("http://verif.local" + c.path)
	if err != nil {
		return traceRec{}, fmt.Errorf("bad concrete path %q: %v", c.path, err)
	}
	u.RawQuery = c.query
	var body io.Reader
	if c.body != nil {
		if c.unknown {
			body = io.MultiReader(bytes.NewReader(c.body)) // hides the length: chunked transfer
		} else {
			body = bytes.NewReader(c.body)
		}
	}
	req, err := http.NewRequest(c.method, "http://verif.local/", body)
	if err != nil {
		return traceRec{}, err
	}
	if q.Client == "upload" && c.body != nil {
		// the spec's slow upload: first half, a pause of more than 3x read_header_timeout, second half
		req.Body = io.NopCloser(&pausedReader{b: c.body, cut: len(c.body) / 2, pause: slowDelay})
		req.ContentLength = int64(len(c.body))
		req.GetBody = nil
	}
	req.URL = u
	req.Host = "verif.local"
	req.Header.Set("User-Agent", "verif-c12/"+randWord(r.rng, 3))
	if c.ctype != "" {
		req.Header.Set("Content-Type", c.ctype)
	}
	if r.rng.Intn(2) == 0 {
		req.Header.Set("X-Verif-Custom", "v "+randWord(r.rng, 5)+"; q=\"1\"")
	}
	if r.rng.Intn(3) == 0 {
		req.Header.Set("Authorization", "Basic "+randWord(r.rng, 12))
	}
	if r.rng.Intn(3) == 0 {
		req.Header.Set("Origin", "http://"+randWord(r.rng, 5)+".example")
	}
	if r.rng.Intn(4) == 0 {
		req.Header.Set("Cookie", "sid="+randWord(r.rng, 8))
	}
	if r.rng.Intn(4) == 0 {
		req.Header.Set("Accept", "application/json, */*;q=0.1")
	}
	sent := wireReq{Method: c.method, URI: u.RequestURI(), Body: digest(c.body), Hdrs: hdrString(req.Header, req.Host)}

	resp, err := end.client.Do(req)
	if err != nil {
		return traceRec{}, fmt.Errorf("request %s %s failed: %v", c.method, sent.URI, err)
	}
	var rb []byte
	var rerr error
	if q.Hangup != NA && q.Hangup != "" {
		rb = r.hangUp(q, resp)
	} else {
		rb, rerr = io.ReadAll(resp.Body)
		resp.Body.Close()
	}
	if rerr != nil {
		return traceRec{}, fmt.Errorf("reading response of %s %s (body class %s) failed after %d bytes: %v; status %d, content-length %d, transfer-encoding %v",
			c.method, sent.URI, q.Bk, len(rb), rerr, resp.StatusCode, resp.ContentLength, resp.TransferEncoding)
	}
	trailer := resp.Trailer.Get("X-Stream-Error")
	if c.method == http.MethodHead && resp.Header.Get("X-Verif-Daemon") == "" {
		// A HEAD answered by the proxy itself has no body whose end would tell us
		// that the handler returned: give it time to finish (add sleeps 100 ms
		// before unpinning) so that its calls are attributed to this case.
		time.Sleep(500 * time.Millisecond)
	}

	dcalls, dresps := r.d.take()
	r.w.mu.Lock()
	ops := append([]opRec{}, r.w.ops...)
	ps := r.w.snapshot()
	nblocks := r.w.nblocks
	r.w.mu.Unlock()
	if q.Route == "repo/stat" {
		// the per-peer calls are made in parallel: their order carries no meaning
		sort.SliceStable(ops, func(i, j int) bool {
			if ops[i].M != ops[j].M {
				return ops[i].M < ops[j].M
			}
			return ops[i].OK && !ops[j].OK
		})
	}

	o := obsRec{
		PS0:     ps0,
		Self:    resp.Header.Get("X-Verif-Daemon") == "",
		Status:  resp.StatusCode,
		Err:     resp.StatusCode >= 400 || trailer != "",
		Ops:     ops,
		PS:      ps,
		Pins:    []string{},
		Keys:    []string{},
		Stat:    []int{},
		Addp:    []addParams{},
		Nblocks: nblocks,
		GC:      []gcEntry{},
		Tkeys:   []string{},
		Dcalls:  dcalls,
		Sent:    sent,
		Resp:    wireResp{Status: resp.StatusCode, Body: digest(rb), Hdrs: respHdrString(resp.Header)},
		Dresp:   wireResp{Status: 0, Body: "", Hdrs: ""},
	}
	if !o.Self && len(dresps) > 0 {
		o.Dresp = dresps[len(dresps)-1]
	}
	o.Detail = fmt.Sprintf("%s %s -> %d", c.method, sent.URI, resp.StatusCode)
	if trailer != "" {
		o.Detail += " trailer=" + trailer
	}
	if o.Self {
		if len(rb) < 300 {
			o.Detail += " body=" + string(rb)
		}
		r.parseHijacked(q, rb, &o)
		for i := 1; i <= 3; i++ {
			if strings.Contains(trailer, fmt.Sprintf("err-g%d", i)) {
				o.Tkeys = append(o.Tkeys, fmt.Sprintf("g%d", i))
			}
		}
	}
	return traceRec{ID: ci.ID, Grp: ci.Grp, Req: q, Obs: o}, nil
}

// hangUp realises the spec's client-disconnect action: it reads the response
// only up to the asked point ("headers": nothing, "entry": up to and including
// the streamed entry that carries a hash), closes the connection without
// reading to EOF, and then waits until the handler is quiet: no new RPC for
// 700 ms (the handler's own pause is 100 ms) and, when the root was pinned
// for a pin=false request, until the Unpin call has been received (deadline 5 s).
func (r *rig) hangUp(q caseReq, resp *http.Response) []byte {
	var buf bytes.Buffer
	if q.Hangup == "entry" {
		dec := json.NewDecoder(io.TeeReader(resp.Body, &buf))
		for {
			var m map[string]json.RawMessage
			if err := dec.Decode(&m); err != nil {
				break
			}
			var h string
			if json.Unmarshal(m["Hash"], &h) == nil && h != "" {
				break
			}
		}
	}
	resp.Body.Close()
	r.ends["up"].client.CloseIdleConnections()
	start := time.Now()
	sig := func() (int, bool) {
		r.w.mu.Lock()
		defer r.w.mu.Unlock()
		pinned, unpinCalled := false, false
		for _, o := range r.w.ops {
			if o.M == "Cluster.Pin" && o.OK {
				pinned = true
			}
			if o.M == "Cluster.Unpin" {
				unpinCalled = true
			}
		}
		return len(r.w.ops)*100000 + r.w.nblocks, pinned && q.Pin == "false" && !unpinCalled
	}
	last, _ := sig()
	lastChange := time.Now()
	for time.Since(start) < 15*time.Second {
		time.Sleep(20 * time.Millisecond)
		cur, waitingForUnpin := sig()
		if cur != last {
			last, lastChange = cur, time.Now()
		}
		if waitingForUnpin && time.Since(start) < 5*time.Second {
			continue
		}
		if time.Since(lastChange) >= 700*time.Millisecond {
			break
		}
	}
	return buf.Bytes()
}

func (r *rig) parseHijacked(q caseReq, rb []byte, o *obsRec) {
	w := r.w
	dec := json.NewDecoder(bytes.NewReader(rb))
	var objs []map[string]json.RawMessage
	for {
		var m map[string]json.RawMessage
		if err := dec.Decode(&m); err != nil {
			break
		}
		objs = append(objs, m)
	}
	nameStr := func(s string) string {
		c, err := cid.Decode(s)
		if err != nil {
			return "?" + s
		}
		return w.nameOf(c)
	}
	switch q.Route {
	case "pin/add", "pin/rm", "pin/update":
		for _, m := range objs {
			var pins []string
			if json.Unmarshal(m["Pins"], &pins) == nil {
				for _, p := range pins {
					o.Pins = append(o.Pins, nameStr(p))
				}
			}
		}
	case "pin/ls":
		for _, m := range objs {
			var keys map[string]json.RawMessage
			if json.Unmarshal(m["Keys"], &keys) == nil {
				for k := range keys {
					o.Keys = append(o.Keys, nameStr(k))
				}
			}
		}
		sort.Strings(o.Keys)
	case "add":
		last := ""
		for _, m := range objs {
			var h string
			if json.Unmarshal(m["Hash"], &h) == nil && h != "" {
				last = h
			}
		}
		if last != "" {
			o.Pins = append(o.Pins, nameStr(last))
			if ps, ok := w.roots[last]; ok {
				o.Addp = append(o.Addp, ps...)
			}
		}
	case "repo/stat":
		for _, m := range objs {
			var a, b int
			if json.Unmarshal(m["RepoSize"], &a) == nil && json.Unmarshal(m["StorageMax"], &b) == nil {
				o.Stat = []int{a, b}
			}
		}
	case "repo/gc":
		for _, m := range objs {
			var k map[string]string
			if json.Unmarshal(m["Key"], &k) == nil && k["/"] != "" {
				o.Keys = append(o.Keys, nameStr(k["/"]))
				e := gcEntry{Key: nameStr(k["/"]), Error: NA}
				var es string
				if json.Unmarshal(m["Error"], &es) == nil && es != "" {
					e.Error = es
				}
				o.GC = append(o.GC, e)
			}
		}
		sort.Strings(o.Keys)
	}
}

// ---------------------------------------------------------------- test entry

func nontrivial(q caseReq) bool {
	if q.Pathk != "route" {
		return strings.HasPrefix(q.Pathk, "nm-") || q.Pathk == "escaped" || q.Pathk == "unclean" || q.Qk == "weird" || q.Qk == "arglike"
	}
	return true
}

var (
	retriesMu sync.Mutex
	retries   int
)

func TestDriver(t *testing.T) {
	logging.SetAllLoggers(logging.LevelFatal)
	res := hx.NewResult()
	defer func() {
		if err := res.Write(); err != nil {
			t.Fatal(err)
		}
	}()
	var cases []caseIn
	if raw, ok := hx.ReplayCase(); ok {
		var rp struct {
			Script []caseIn `json:"script"`
		}
		if err := json.Unmarshal(raw, &rp); err != nil || len(rp.Script) == 0 {
			res.Infra("replay case unreadable: %v", err)
			return
		}
		cases = rp.Script
	} else {
		err := hx.EachLine(os.Getenv("VERIF_IN"), func(b []byte) error {
			var c caseIn
			if err := json.Unmarshal(b, &c); err != nil {
				return err
			}
			cases = append(cases, c)
			return nil
		})
		if err != nil {
			res.Infra("reading cases: %v", err)
			return
		}
	}
	dir, err := os.MkdirTemp("", "c12-")
	if err != nil {
		res.Infra("tempdir: %v", err)
		return
	}
	defer os.RemoveAll(dir)
	// groups in order of first appearance; group g runs on rig g mod nrigs
	groups := [][]int{}
	gidx := map[int]int{}
	realCases := []int{}
	for i, c := range cases {
		if c.Req.Cluster == "real3" {
			realCases = append(realCases, i)
			continue
		}
		g, ok := gidx[c.Grp]
		if !ok || c.Grp == 0 {
			g = len(groups)
			gidx[c.Grp] = g
			groups = append(groups, nil)
		}
		groups[g] = append(groups[g], i)
	}
	nrigs := hx.EnvInt("VERIF_RIGS", 8)
	if nrigs > len(groups) {
		nrigs = len(groups)
	}
	out := make([]traceRec, len(cases))
	okv := make([]bool, len(cases))
	var wg sync.WaitGroup
	for n := 0; n < nrigs; n++ {
		wg.Add(1)
		go func(n int) {
			defer wg.Done()
			rg, err := newRig(n, hx.Seed(), dir, false)
			if err != nil {
				res.Infra("rig %d: %v", n, err)
				return
			}
			defer rg.close()
			defer func() { res.Count(0); retriesMu.Lock(); retries += rg.retries; retriesMu.Unlock() }()
			for g := n; g < len(groups); g += nrigs {
				for k, i := range groups[g] {
					if k == 0 && !cases[i].Reset {
						res.Infra("case %d: first case of group %d does not reset the cluster", cases[i].ID, cases[i].Grp)
						break
					}
					tr, err := rg.run(cases[i])
					if err != nil {
						res.Infra("case %d: %v", cases[i].ID, err)
						break
					}
					out[i], okv[i] = tr, true
					res.Case(cases[i].Req, nontrivial(cases[i].Req))
				}
			}
		}(n)
	}
	if len(realCases) > 0 {
		wg.Add(1)
		go func() {
			defer wg.Done()
			rg, err := newRig(100, hx.Seed(), dir, true)
			if err != nil {
				res.Infra("real cluster rig: %v", err)
				return
			}
			defer rg.close()
			for _, i := range realCases {
				c := cases[i]
				c.Reset = true
				tr, err := rg.run(c)
				if err != nil {
					res.Infra("case %d: %v", c.ID, err)
					break
				}
				out[i], okv[i] = tr, true
				res.Case(c.Req, true)
			}
		}()
	}
	wg.Wait()
	tp := os.Getenv("VERIF_TRACE")
	if tp == "" {
		tp = filepath.Join(dir, "trace.ndjson")
	}
	f, err := os.Create(tp)
	if err != nil {
		res.Infra("trace file: %v", err)
		return
	}
	defer f.Close()
	enc := json.NewEncoder(f)
	n := 0
	for i := range out {
		if okv[i] {
			enc.Encode(out[i])
			n++
		}
	}
	res.Set("requests_sent_through_real_proxy", n)
	res.Set("transport_retries", retries)
	if os.Getenv("VERIF_PRINT") != "" {
		for i := range out {
			if okv[i] {
				b, _ := json.Marshal(out[i])
				fmt.Println(string(b))
			}
		}
	}
}
