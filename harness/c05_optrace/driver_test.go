// Package c05optrace records FREE-RUNNING executions of the pin tracker's
// operation table for TLA+ trace validation (spec/OpTracker.tla,
// spec/OpTrackerTrace.tla):
//
//	(a) the repository's own tests of pintracker/optracker, pintracker/stateless
//	    and pintracker, run with -tags verif and VERIF_TRACE_FILE (the default
//	    observer of pintracker/optracker/verif_on.go);
//	(b) a randomized concurrent driver (seeded by VERIF_SEED): several goroutines
//	    issue Track / Untrack / Recover / RecoverAll / Status / StatusAll on 3-6 CIDs
//	    against a real stateless.Tracker wired to the harness' model daemon, with
//	    random delays and failures of the daemon calls, sometimes a Shutdown in the
//	    middle.
//
// The driver only RECORDS: one trace per tracker instance, CIDs renamed c1.. per
// trace, at most maxEvents events and maxCids CIDs per trace (a prefix of a
// recorded execution is a recorded execution). TLC decides.
package c05optrace

import (
	"bufio"
	"context"
	"encoding/json"
	"errors"
	"fmt"
	"math/rand"
	"os"
	"os/exec"
	"path/filepath"
	"sort"
	"strings"
	"sync"
	"sync/atomic"
	"testing"
	"time"

	c05 "verifharness/c05_tracker"
	"verifharness/hx"
	"verifharness/rig"

	"github.com/ipfs/ipfs-cluster/api"
	"github.com/ipfs/ipfs-cluster/pintracker/optracker"
	"github.com/ipfs/ipfs-cluster/pintracker/stateless"
	"github.com/ipfs/ipfs-cluster/state"
	"github.com/ipfs/ipfs-cluster/state/dsstate"

	ds "github.com/ipfs/go-datastore"
	dssync "github.com/ipfs/go-datastore/sync"
	peer "github.com/libp2p/go-libp2p-core/peer"
	rpc "github.com/libp2p/go-libp2p-gorpc"
)

const (
	maxEvents = 300 // package tests and driver rounds
	maxCids   = 20
	// traces of the root package's cluster tests (real multi-peer clusters, -npins rootPins) are longer
	rootMaxEvents = 1500
	rootMaxCids   = 60 // the CIDS constant of OpTrackerTrace*.cfg has 60 names
	rootPins      = "25"
)

var repoPkgs = []string{
	"github.com/ipfs/ipfs-cluster/pintracker/optracker",
	"github.com/ipfs/ipfs-cluster/pintracker/stateless",
	"github.com/ipfs/ipfs-cluster/pintracker",
}

type rec = map[string]interface{}

func num(r rec, k string) int {
	switch v := r[k].(type) {
	case float64:
		return int(v)
	case int:
		return v
	}
	return 0
}

// ---------------------------------------------------------------- traces

type traceKey struct{ pid, tr int }

// split groups raw observer records per tracker instance, in sequence order.
func split(raw []rec) (map[traceKey][]rec, []traceKey, error) {
	by := map[traceKey][]rec{}
	var order []traceKey
	for _, r := range raw {
		k := traceKey{num(r, "pid"), num(r, "tr")}
		if _, ok := by[k]; !ok {
			order = append(order, k)
		}
		by[k] = append(by[k], r)
	}
	for _, k := range order {
		evs := by[k]
		sort.SliceStable(evs, func(i, j int) bool { return num(evs[i], "seq") < num(evs[j], "seq") })
		for i, r := range evs {
			if num(r, "seq") != i+1 {
				return nil, nil, fmt.Errorf("tracker %v: sequence gap at position %d (seq %d)", k, i+1, num(r, "seq"))
			}
		}
		if evs[0]["ev"] != "Init" {
			return nil, nil, fmt.Errorf("tracker %v: first record is %v, not Init", k, evs[0]["ev"])
		}
	}
	return by, order, nil
}

// abstract renames the CIDs of one trace to c1.. and cuts it at the caps.
func abstract(evs []rec, maxEvents, maxCids int) (out []rec, cids int, cut bool) {
	names := map[string]string{}
	for _, r := range evs {
		if len(out) >= maxEvents {
			return out, len(names), true
		}
		o := rec{}
		for k, v := range r {
			if k != "pid" && k != "tr" {
				o[k] = v
			}
		}
		if c, ok := r["cid"].(string); ok {
			n, ok := names[c]
			if !ok {
				if len(names) >= maxCids {
					return out, len(names), true
				}
				n = fmt.Sprintf("c%d", len(names)+1)
				names[c] = n
			}
			o["cid"] = n
		}
		out = append(out, o)
	}
	return out, len(names), false
}

type traceStats struct {
	events    int
	replaced  int
	fullq     int
	skipped   int
	abandoned int
	failed    int
	remote    int
	shutdown  bool
	tracker   bool
}

func stats(evs []rec) traceStats {
	var s traceStats
	s.events = len(evs)
	for _, r := range evs {
		switch r["ev"] {
		case "Replace":
			s.replaced++
		case "QueueFull":
			s.fullq++
		case "Skip":
			s.skipped++
		case "Abandon":
			s.abandoned++
		case "CallReturn":
			if ok, _ := r["ok"].(bool); !ok {
				s.failed++
			}
		case "TrackNew":
			if r["typ"] == "remote" {
				s.remote++
			}
		case "Shutdown":
			s.shutdown = true
		case "Tracker":
			s.tracker = true
		}
	}
	return s
}

type writer struct {
	w     *bufio.Writer
	n     int
	lines int
}

func (w *writer) trace(src string, key traceKey, evs []rec) traceStats {
	me, mc := maxEvents, maxCids
	if strings.HasPrefix(src, "root:") {
		me, mc = rootMaxEvents, rootMaxCids
	}
	abs, ncids, cut := abstract(evs, me, mc)
	w.n++
	hdr := rec{"ev": "reset", "run": w.n, "src": src, "pid": key.pid, "tr": key.tr, "cids": ncids, "cut": cut}
	b, _ := json.Marshal(hdr)
	w.w.Write(append(b, '\n'))
	for _, r := range abs {
		b, _ := json.Marshal(r)
		w.w.Write(append(b, '\n'))
	}
	w.lines += len(abs) + 1
	return stats(abs)
}

// ------------------------------------------------ (a) the repository's own tests

func repoTests(res *hx.Result, w *writer, work string) {
	raw := filepath.Join(work, "optrace_repo_raw.ndjson")
	os.Remove(raw)
	mod := filepath.Join(work, "go.mod")
	if _, err := os.Stat(mod); err != nil {
		res.Infra("harness modfile %s missing", mod)
		return
	}
	args := []string{"test", "-modfile=" + mod, "-tags", "verif", "-count=1", "-vet=off", "-timeout", "600s"}
	args = append(args, repoPkgs...)
	cmd := exec.Command("go", args...)
	cmd.Dir = filepath.Join(os.Getenv("VERIF_DIR"), "harness")
	cmd.Env = append(os.Environ(), "VERIF_TRACE_FILE="+raw)
	out, err := cmd.CombinedOutput()
	failed := []string{}
	for _, ln := range strings.Split(string(out), "\n") {
		if strings.HasPrefix(ln, "FAIL\t") || strings.HasPrefix(ln, "--- FAIL") {
			failed = append(failed, strings.TrimSpace(ln))
		}
		if strings.Contains(ln, "[build failed]") || strings.Contains(ln, "[setup failed]") {
			res.Infra("the repository's tracker packages do not build with -tags verif: %s", ln)
			return
		}
	}
	if err != nil && len(failed) == 0 {
		res.Infra("go test of the repository's tracker packages: %v: %s", err, tail(string(out), 600))
		return
	}
	// a failing repository test is not a verdict of this check: what it executed is still a recorded execution
	res.Set("optrace_repo_tests_failed", failed)
	var recs []rec
	err = hx.EachLine(raw, func(b []byte) error {
		var r rec
		if err := json.Unmarshal(b, &r); err != nil {
			return err
		}
		recs = append(recs, r)
		return nil
	})
	if err != nil || len(recs) == 0 {
		res.Infra("no events recorded by the repository's tests (are the optracker hooks applied in VERIF_REPO?): %v", err)
		return
	}
	by, order, err := split(recs)
	if err != nil {
		res.Infra("repository test trace: %v", err)
		return
	}
	nt, nev, api, trk := 0, 0, 0, 0
	for _, k := range order {
		st := w.trace("repo-tests", k, by[k])
		nt++
		nev += st.events
		if st.tracker {
			trk++
		} else {
			api++
		}
		res.Case(rec{"source": "repository tests", "events": st.events, "replace": st.replaced, "tracker": st.tracker},
			st.replaced > 0 || st.fullq > 0 || st.skipped+st.abandoned > 0)
	}
	res.Set("optrace_repo_traces", nt)
	res.Set("optrace_repo_events", nev)
	res.Set("optrace_repo_traces_api_level", api)
	res.Set("optrace_repo_traces_tracker_level", trk)
}

// ------------------------------------------------ (a') the root package's cluster tests

// Real multi-peer clusters (5 peers, mock IPFS daemons over HTTP, crdt and raft): pins, unpins, recover,
// re-allocation when peers go down or are removed, adds. Every peer's tracker is one trace. A test that
// fails, times out or cannot be built is noted, never a verdict: whatever it executed is validated.
var rootQuick = []string{"TestClustersRecoverAll", "TestClustersRecoverLocal", "TestClustersStatusAllWithErrors"}

var rootThorough = []string{
	"TestClustersPin", "TestClustersPinUpdate", "TestClustersPinDirect", "TestClustersStatusAll", "TestClustersStatusAllWithErrors",
	"TestClustersRecoverLocal", "TestClustersRecover", "TestClustersRecoverAll",
	"TestClustersReplicationOverall", "TestClustersReplicationFactorMax", "TestClustersReplicationFactorMaxLower",
	"TestClustersReplicationFactorInBetween", "TestClustersReplicationFactorMin", "TestClustersReplicationMinMaxNoRealloc",
	"TestClustersReplicationMinMaxRealloc", "TestClustersReplicationRealloc", "TestClustersReplicationNotEnoughPeers",
	"TestClustersRebalanceOnPeerDown", "TestClustersPeerRemove", "TestClustersPeerRemoveSelf", "TestClustersPeerRemoveLeader",
	"TestClustersPeerRemoveReallocsPins", "TestAdd", "TestAddWithUserAllocations", "TestAddPeerDown", "TestAddOnePeerFails",
	"TestAddAllPeersFail",
}

type rootJob struct {
	test, consensus, raw, cwd string
	note                      string
	secs                      float64
}

func readRaw(path string) ([]rec, string) {
	var recs []rec
	bad := 0
	hx.EachLine(path, func(b []byte) error {
		var r rec
		if err := json.Unmarshal(b, &r); err != nil {
			bad++ // a line cut short by a killed process
			return nil
		}
		if _, ok := r["tr"]; ok { // the other packages' default observers write to the same file
			recs = append(recs, r)
		}
		return nil
	})
	if bad > 0 {
		return recs, fmt.Sprintf("%d unparsable lines", bad)
	}
	return recs, ""
}

func rootTests(res *hx.Result, w *writer, work, mode string) {
	notes := []string{}
	defer func() { res.Set("optrace_root_notes", notes) }()
	mod := filepath.Join(work, "go.mod")
	bin := filepath.Join(work, "optrace_root.test")
	build := exec.Command("go", "test", "-c", "-modfile="+mod, "-tags", "verif", "-vet=off", "-o", bin, "github.com/ipfs/ipfs-cluster")
	build.Dir = filepath.Join(os.Getenv("VERIF_DIR"), "harness")
	if out, err := build.CombinedOutput(); err != nil {
		notes = append(notes, "root package test binary not built: "+tail(string(out), 300))
		return
	}
	tests, consensuses, par, limit := rootQuick, []string{"crdt"}, 3, 25*time.Second
	if mode == "thorough" {
		tests, consensuses, par, limit = rootThorough, []string{"crdt", "raft"}, hx.EnvInt("OPTRACE_ROOT_PAR", 4), 240*time.Second
	}
	if n := hx.EnvInt("OPTRACE_ROOT_LIMIT", 0); n > 0 {
		limit = time.Duration(n) * time.Second
	}
	var jobs []*rootJob
	for _, c := range consensuses {
		for _, t := range tests {
			jobs = append(jobs, &rootJob{test: t, consensus: c})
		}
	}
	sem := make(chan struct{}, par)
	var wg sync.WaitGroup
	for _, j := range jobs {
		wg.Add(1)
		sem <- struct{}{}
		go func(j *rootJob) {
			defer wg.Done()
			defer func() { <-sem }()
			j.cwd = filepath.Join(work, "optrace_root_"+j.consensus+"_"+j.test)
			os.MkdirAll(j.cwd, 0755)
			j.raw = j.cwd + ".raw"
			ctx, cancel := context.WithTimeout(context.Background(), limit)
			defer cancel()
			cmd := exec.CommandContext(ctx, bin, "-test.count=1", "-test.timeout=600s", "-test.run", "^"+j.test+"$",
				"-consensus", j.consensus, "-loglevel", "CRITICAL", "-npins", rootPins)
			cmd.Dir = j.cwd
			cmd.Env = append(os.Environ(), "VERIF_TRACE_FILE="+j.raw)
			t0 := time.Now()
			out, err := cmd.CombinedOutput()
			j.secs = time.Since(t0).Seconds()
			switch {
			case ctx.Err() != nil:
				j.note = fmt.Sprintf("%s/%s stopped after %.0fs (its execution so far is validated)", j.test, j.consensus, j.secs)
			case err != nil:
				j.note = fmt.Sprintf("%s/%s failed (not a verdict of this check; its execution is validated): %s", j.test, j.consensus, tail(string(out), 200))
			}
			os.RemoveAll(j.cwd)
		}(j)
	}
	wg.Wait()
	nt, nev, ncut, nrep, nfull, nskip, nfail := 0, 0, 0, 0, 0, 0, 0
	for _, j := range jobs {
		if j.note != "" {
			notes = append(notes, j.note)
		}
		recs, note := readRaw(j.raw)
		os.Remove(j.raw)
		if note != "" {
			notes = append(notes, j.test+"/"+j.consensus+": "+note)
		}
		if len(recs) == 0 {
			continue
		}
		by, order, err := split(recs)
		if err != nil {
			notes = append(notes, j.test+"/"+j.consensus+": trace unusable: "+err.Error())
			continue
		}
		for _, k := range order {
			st := w.trace("root:"+j.test+":"+j.consensus, k, by[k])
			nt++
			nev += st.events
			nrep += st.replaced
			nfull += st.fullq
			nskip += st.skipped + st.abandoned
			nfail += st.failed
			if st.events >= rootMaxEvents {
				ncut++
			}
		}
		res.Case(rec{"source": "root package test " + j.test, "consensus": j.consensus, "trackers": len(order), "seconds": int(j.secs)}, true)
	}
	res.Set("optrace_root_processes", len(jobs))
	res.Set("optrace_root_traces", nt)
	res.Set("optrace_root_events", nev)
	res.Set("optrace_root_traces_cut_at_cap", ncut)
	res.Set("optrace_root_cancel_and_replace", nrep)
	res.Set("optrace_root_queue_full", nfull)
	res.Set("optrace_root_skipped_or_abandoned", nskip)
	res.Set("optrace_root_failed_calls", nfail)
}

func tail(s string, n int) string {
	if len(s) > n {
		return s[len(s)-n:]
	}
	return s
}

// ------------------------------------------------ (b) randomized concurrent driver

// daemon: the harness' model daemon (pin semantics of c05.Daemon, free-running)
// behind random delays and failures; a cancelled call returns at once.
type daemon struct {
	d     *c05.Daemon
	mu    sync.Mutex
	rng   *rand.Rand
	delay int // max microseconds
	failp int // percent
	calls int64
}

func (m *daemon) dice() (time.Duration, bool) {
	m.mu.Lock()
	defer m.mu.Unlock()
	d := time.Duration(0)
	if m.delay > 0 {
		d = time.Duration(m.rng.Intn(m.delay)) * time.Microsecond
	}
	return d, m.rng.Intn(100) < m.failp
}

func (m *daemon) wait(ctx context.Context) error {
	atomic.AddInt64(&m.calls, 1)
	d, fail := m.dice()
	if d > 0 {
		select {
		case <-ctx.Done():
			return ctx.Err()
		case <-time.After(d):
		}
	}
	if fail {
		return errors.New("daemon failure (random)")
	}
	return ctx.Err()
}

func (m *daemon) Pin(ctx context.Context, in *api.Pin, out *struct{}) error {
	if err := m.wait(ctx); err != nil {
		return err
	}
	return m.d.Pin(ctx, in, out)
}

func (m *daemon) Unpin(ctx context.Context, in *api.Pin, out *struct{}) error {
	if err := m.wait(ctx); err != nil {
		return err
	}
	return m.d.Unpin(ctx, in, out)
}

func (m *daemon) PinLsCid(ctx context.Context, in *api.Pin, out *api.IPFSPinStatus) error {
	return m.d.PinLsCid(ctx, in, out)
}

func (m *daemon) PinLs(ctx context.Context, in string, out *map[string]api.IPFSPinStatus) error {
	return m.d.PinLs(ctx, in, out)
}

// collector: the observer; records per tracker number.
type collector struct {
	mu   sync.Mutex
	by   map[int][]rec
	last map[int]time.Time
}

func (c *collector) observe(r map[string]interface{}) {
	cp := make(rec, len(r))
	for k, v := range r {
		cp[k] = v
	}
	c.mu.Lock()
	tr := cp["tr"].(int)
	c.by[tr] = append(c.by[tr], cp)
	c.last[tr] = time.Now()
	c.mu.Unlock()
}

func (c *collector) take(tr int) []rec {
	c.mu.Lock()
	defer c.mu.Unlock()
	evs := c.by[tr]
	delete(c.by, tr)
	return evs
}

func (c *collector) quietFor(tr int, d time.Duration) bool {
	c.mu.Lock()
	defer c.mu.Unlock()
	return time.Since(c.last[tr]) >= d
}

type round struct {
	K, Q, NCids, Callers, Calls, Delay, FailP int
	Shutdown                                  bool
}

func runRound(id int, seed int64, col *collector) (rd round, evs []rec, err error) {
	rng := rand.New(rand.NewSource(seed))
	rd = round{K: 1 + rng.Intn(3), Q: []int{1, 1, 2, 3, 8}[rng.Intn(5)], NCids: 3 + rng.Intn(4), Callers: 2 + rng.Intn(4),
		Calls: 4 + rng.Intn(8), Delay: []int{0, 50, 300, 1500}[rng.Intn(4)], FailP: []int{0, 10, 30, 60}[rng.Intn(4)],
		Shutdown: rng.Intn(6) == 0}
	names := hx.NewNames(seed)
	self, other := names.Peer("self"), names.Peer("other")
	st, err := dsstate.New(dssync.MutexWrap(ds.NewMapDatastore()), "", dsstate.DefaultHandle())
	if err != nil {
		return rd, nil, err
	}
	base := c05.NewDaemon(names.CidName, names.Cid)
	base.Free = true
	dm := &daemon{d: base, rng: rand.New(rand.NewSource(seed ^ 0x5eed)), delay: rd.Delay, failp: rd.FailP}
	cfg := &stateless.Config{}
	cfg.Default()
	cfg.ConcurrentPins = rd.K
	cfg.MaxPinQueueSize = rd.Q
	tracker := stateless.New(cfg, self, "self", func(ctx context.Context) (state.ReadOnly, error) { return st, nil })
	srv := rpc.NewServer(nil, "verif")
	if err := srv.RegisterName("IPFSConnector", dm); err != nil {
		return rd, nil, err
	}
	tracker.SetClient(rpc.NewClientWithServer(nil, "verif", srv))
	// the tracker's number: the "Tracker" event was its first; find it through a marker CID-free lookup
	tr := trackerNumber(col, id)
	if tr == 0 {
		tracker.Shutdown(context.Background())
		return rd, nil, errors.New("the tracker announced no trace (hooks absent?)")
	}
	cids := make([]string, rd.NCids)
	for i := range cids {
		cids[i] = fmt.Sprintf("r%d-%d", id, i+1)
	}
	var stMu sync.Mutex // the shared state is changed, then the tracker is told (as the cluster does), per call
	ctx := context.Background()
	var wg sync.WaitGroup
	for g := 0; g < rd.Callers; g++ {
		wg.Add(1)
		go func(g int) {
			defer wg.Done()
			r := rand.New(rand.NewSource(seed*131 + int64(g)))
			for n := 0; n < rd.Calls; n++ {
				if d := r.Intn(4); d > 0 {
					time.Sleep(time.Duration(r.Intn(200*d)) * time.Microsecond)
				}
				c := names.Cid(cids[r.Intn(len(cids))])
				switch k := r.Intn(20); {
				case k < 8: // track
					opts := api.PinOptions{Name: "n"}
					if r.Intn(4) == 0 {
						opts.Mode = api.PinModeDirect
					}
					p := api.PinWithOpts(c, opts)
					switch r.Intn(6) {
					case 0: // allocated elsewhere
						p.ReplicationFactorMin, p.ReplicationFactorMax = 1, 1
						p.Allocations = []peer.ID{other}
					case 1:
						p.ReplicationFactorMin, p.ReplicationFactorMax = 1, 1
						p.Allocations = []peer.ID{self}
					default:
						p.ReplicationFactorMin, p.ReplicationFactorMax = -1, -1
					}
					stMu.Lock()
					st.Add(ctx, p)
					stMu.Unlock()
					tracker.Track(ctx, p)
				case k < 14: // untrack
					stMu.Lock()
					st.Rm(ctx, c)
					stMu.Unlock()
					tracker.Untrack(ctx, c)
				case k < 16:
					tracker.Recover(ctx, c)
				case k < 18:
					tracker.RecoverAll(ctx)
				case k < 19:
					tracker.StatusAll(ctx, api.TrackerStatusUndefined)
				default:
					tracker.Status(ctx, c)
				}
			}
		}(g)
	}
	if rd.Shutdown {
		time.Sleep(time.Duration(rng.Intn(1500)) * time.Microsecond)
		tracker.Shutdown(ctx)
	}
	done := make(chan struct{})
	go func() { wg.Wait(); close(done) }()
	select {
	case <-done:
	case <-time.After(60 * time.Second):
		return rd, nil, errors.New("callers did not return within 60 s")
	}
	// let the workers drain (bounded), then stop the tracker
	deadline := time.Now().Add(5 * time.Second)
	for time.Now().Before(deadline) && !col.quietFor(tr, 15*time.Millisecond) {
		time.Sleep(2 * time.Millisecond)
	}
	tracker.Shutdown(ctx)
	time.Sleep(2 * time.Millisecond)
	return rd, col.take(tr), nil
}

// trackerNumber: rounds run one at a time per slot; the newest tracker number whose
// only records so far are Init + Tracker and which nobody claimed is ours.
var (
	claimMu sync.Mutex
	claimed = map[int]bool{}
)

func trackerNumber(col *collector, id int) int {
	claimMu.Lock()
	defer claimMu.Unlock()
	col.mu.Lock()
	defer col.mu.Unlock()
	best := 0
	for tr, evs := range col.by {
		if !claimed[tr] && len(evs) == 2 && evs[1]["ev"] == "Tracker" && tr > best {
			best = tr
		}
	}
	if best != 0 {
		claimed[best] = true
	}
	return best
}

func TestDriver(t *testing.T) {
	rig.Quiet()
	res := hx.NewResult()
	res.MaxSamples = 6
	defer res.Write()
	path := os.Getenv("VERIF_TRACE")
	if path == "" {
		t.Fatal("VERIF_TRACE not set")
	}
	f, err := os.Create(path)
	if err != nil {
		t.Fatal(err)
	}
	defer f.Close()
	w := &writer{w: bufio.NewWriterSize(f, 1<<20)}
	defer w.w.Flush()

	if os.Getenv("OPTRACE_SKIP_REPO") == "" {
		repoTests(res, w, os.Getenv("VERIF_WORK"))
	}
	if mode := os.Getenv("OPTRACE_ROOT"); mode != "" && mode != "off" {
		rootTests(res, w, os.Getenv("VERIF_WORK"), mode)
	}

	// (b): rounds run one after the other (tracker numbers are claimed right after New), each is concurrent inside
	col := &collector{by: map[int][]rec{}, last: map[int]time.Time{}}
	optracker.SetVerifObserver(col.observe)
	defer optracker.SetVerifObserver(nil)
	if !optracker.VerifTracing() {
		res.Infra("cannot install the optracker observer")
		return
	}
	rounds := hx.EnvInt("OPTRACE_ROUNDS", 120)
	if hx.Thorough() {
		rounds = hx.EnvInt("OPTRACE_ROUNDS", 400)
	}
	nev, nrep, nfull, nskip, nfail, nrem, nshut := 0, 0, 0, 0, 0, 0, 0
	for i := 0; i < rounds; i++ {
		rd, evs, err := runRound(i+1, hx.Seed()*100003+int64(i), col)
		if err != nil {
			res.Infra("round %d: %v", i+1, err)
			return
		}
		by, order, err := split(evs)
		if err != nil || len(order) != 1 {
			res.Infra("round %d: %v (%d trackers)", i+1, err, len(order))
			return
		}
		st := w.trace("driver", order[0], by[order[0]])
		nev += st.events
		nrep += st.replaced
		nfull += st.fullq
		nskip += st.skipped + st.abandoned
		nfail += st.failed
		nrem += st.remote
		if rd.Shutdown {
			nshut++
		}
		res.Case(rec{"source": "random driver", "K": rd.K, "Q": rd.Q, "cids": rd.NCids, "callers": rd.Callers,
			"calls_each": rd.Calls, "daemon_delay_us": rd.Delay, "daemon_fail_pct": rd.FailP, "events": st.events,
			"replace": st.replaced, "queue_full": st.fullq, "skipped_or_abandoned": st.skipped + st.abandoned},
			st.replaced > 0 || st.fullq > 0 || st.skipped+st.abandoned > 0)
		res.Count(st.events)
	}
	res.Set("optrace_driver_traces", rounds)
	res.Set("optrace_driver_events", nev)
	res.Set("optrace_driver_cancel_and_replace", nrep)
	res.Set("optrace_driver_queue_full", nfull)
	res.Set("optrace_driver_skipped_or_abandoned", nskip)
	res.Set("optrace_driver_failed_calls", nfail)
	res.Set("optrace_driver_remote_ops", nrem)
	res.Set("optrace_driver_rounds_with_shutdown", nshut)
	res.Set("optrace_traces", w.n)
	res.Set("optrace_lines", w.lines)
}
