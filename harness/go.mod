module verifharness

go 1.16

require (
	github.com/hashicorp/raft v1.1.1
	github.com/ipfs/go-cid v0.0.7
	github.com/ipfs/go-datastore v0.4.5
	github.com/ipfs/go-ipns v0.1.0
	github.com/ipfs/go-log/v2 v2.2.0
	github.com/ipfs/ipfs-cluster v0.0.0
	github.com/libp2p/go-libp2p v0.14.3
	github.com/libp2p/go-libp2p-core v0.8.5
	github.com/libp2p/go-libp2p-gorpc v0.1.3
	github.com/libp2p/go-libp2p-kad-dht v0.12.2
	github.com/libp2p/go-libp2p-pubsub v0.4.1
	github.com/libp2p/go-libp2p-raft v0.1.7
	github.com/libp2p/go-libp2p-record v0.1.3
	github.com/multiformats/go-multiaddr v0.3.3
	github.com/multiformats/go-multibase v0.0.3
	github.com/multiformats/go-multihash v0.0.15
	github.com/ugorji/go/codec v1.2.6
	google.golang.org/protobuf v1.27.1
)

replace github.com/ipfs/ipfs-cluster => /repo

replace github.com/libp2p/go-libp2p-quic-transport => ./stubs/quic
