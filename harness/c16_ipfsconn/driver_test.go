// C16 driver: executes scripts produced by TLC from spec/IPFSConn.tla (prior
// daemon pin table + one daemon behaviour per request) against the real
// ipfshttp.Connector talking to the scripted IPFS HTTP daemon of daemon.go,
// and records (script, returned value, daemon pin table after, request log)
// for spec/IPFSConnTrace.tla, which decides the verdicts.
package c16

import (
	"context"
	"encoding/json"
	"fmt"
	"net"
	"net/http/httptest"
	"os"
	"os/exec"
	"path/filepath"
	"sort"
	"strconv"
	"strings"
	"sync"
	"testing"
	"time"

	"verifharness/hx"

	cid "github.com/ipfs/go-cid"
	logging "github.com/ipfs/go-log/v2"
	"github.com/ipfs/ipfs-cluster/api"
	"github.com/ipfs/ipfs-cluster/ipfsconn/ipfshttp"
	rpc "github.com/libp2p/go-libp2p-gorpc"
	ma "github.com/multiformats/go-multiaddr"
)

const (
	pinTimeout     = 250 * time.Millisecond
	requestTimeout = 600 * time.Millisecond
	// Unpin is the one call the statement obliges to succeed (not pinned =>
	// success), so its timeout gets extra room against a loaded machine.
	unpinTimeout = 2 * time.Second
	// The caller's own deadline. The longest legitimate path is two look-up
	// timeouts plus two watchdog periods (1.7 s); a call that only ends because
	// of this deadline never gave up by itself ("hung").
	callerDeadline = 6 * time.Second
	// A call that has not returned this long after its caller's context ended
	// is recorded as never returning ("never"); the driver moves on.
	hardGrace = 2 * callerDeadline
	// inp.cancel: the caller cancels this long into the call (before any timer
	// of the connector can fire, after every honest exchange is over)
	cancelAfter = 120 * time.Millisecond
	// how long the daemon is given to notice that an abandoned request's
	// connection was closed
	abandonGrace = 3 * time.Second
)

type caseIn struct {
	ID         int               `json:"id"`
	Op         string            `json:"op"`
	Mode       string            `json:"mode"`
	D          string            `json:"d"`     // requested depth of a depth-limited pin ("1", "2"), else ""
	T          string            `json:"t"`     // history calls: which CID of the pool is the target
	Hist       int               `json:"hist"`  // history number (0: single script)
	Pheld      map[string]string `json:"pheld"` // depth the prior recursive pins are held with
	Calls      []*caseIn         `json:"calls"` // a history: its calls, in order
	Cold       bool              `json:"cold"`  // run the history in a process of its own (as a cluster peer does)
	Upd        bool              `json:"upd"`
	Norig      int               `json:"norig"`
	Prior      map[string]string `json:"prior"`
	Intf       string            `json:"intf"`
	Beh        []string          `json:"beh"`
	Obeh       []string          `json:"obeh"`
	Ohang      bool              `json:"ohang"`
	Cancel     bool              `json:"cancel"`
	Depth      int               `json:"depth"`
	SwapV      bool              `json:"swapv"`
	Nontrivial bool              `json:"nontrivial"`
}

type specIn struct {
	Op     string            `json:"op"`
	Mode   string            `json:"mode"`
	D      string            `json:"d"`
	T      string            `json:"t"`
	Upd    bool              `json:"upd"`
	Norig  int               `json:"norig"`
	Prior  map[string]string `json:"prior"`
	Pheld  map[string]string `json:"pheld"`
	Intf   string            `json:"intf"`
	Beh    []string          `json:"beh"`
	Obeh   []string          `json:"obeh"`
	Ohang  bool              `json:"ohang"`
	Cancel bool              `json:"cancel"`
	SwapV  bool              `json:"swapv"`
}

type specOut struct {
	Res    string            `json:"res"`
	Status string            `json:"status"`
	Pins   map[string]string `json:"pins"`
	Held   map[string]string `json:"held"`
	Reqs   []reqLog          `json:"reqs"`
	Swarm  []int             `json:"swarm"`
	// ByDeadline: the call returned by itself, well before the caller's own
	// deadline (res "hung" otherwise: only the caller's context ended it)
	ByDeadline bool `json:"by_deadline"`
	// Returned: the call came back at all (within callerDeadline + hardGrace)
	Returned bool `json:"returned"`
	// Abandoned (cancel scripts): every request the daemon was sitting on had
	// its connection closed by the connector
	Abandoned bool     `json:"abandoned"`
	Ms        int64    `json:"ms"`
	Err       string   `json:"err"`
	Mismatch  []string `json:"mismatch"`
}

type rec struct {
	ID   int     `json:"id"`
	Hist int     `json:"hist"`
	In   specIn  `json:"in"`
	Out  specOut `json:"out"`
}

// clusterSvc answers the two RPCs the connector may issue on its own.
type clusterSvc struct{}

func (clusterSvc) SendInformersMetrics(ctx context.Context, in struct{}, out *[]*api.Metric) error {
	return nil
}
func (clusterSvc) Peers(ctx context.Context, in struct{}, out *[]*api.ID) error { return nil }

func rpcClient() (*rpc.Client, error) {
	s := rpc.NewServer(nil, "c16")
	if err := s.RegisterName("Cluster", clusterSvc{}); err != nil {
		return nil, err
	}
	return rpc.NewClientWithServer(nil, "c16", s), nil
}

var statusNames = map[api.IPFSPinStatus]string{
	api.IPFSPinStatusBug: "bug", api.IPFSPinStatusError: "error", api.IPFSPinStatusDirect: "direct",
	api.IPFSPinStatusRecursive: "recursive", api.IPFSPinStatusIndirect: "indirect", api.IPFSPinStatusUnpinned: "unpinned",
}

// listenLoopback binds 127.0.0.1:0, retrying with a short back-off.
func listenLoopback() (net.Listener, error) {
	var l net.Listener
	var err error
	for i := 0; i < 8; i++ {
		if l, err = net.Listen("tcp4", "127.0.0.1:0"); err == nil {
			return l, nil
		}
		time.Sleep(time.Duration(50*(i+1)) * time.Millisecond)
	}
	return nil, fmt.Errorf("listen: %v", err)
}

// selfNetProblem recognises failures of the harness' own plumbing (binding the
// scripted daemon, or the connector unable to even dial it): never a verdict.
func selfNetProblem(msg string) bool {
	for _, m := range []string{"listen:", "bind:", "listen tcp", "cannot assign requested address", "too many open files",
		"connect: connection refused", "no route to host", "address already in use", "failed to parse multiaddr"} {
		if strings.Contains(msg, m) {
			return true
		}
	}
	return false
}

// env is one scripted daemon plus one real Connector talking to it; single
// scripts use a fresh one, a history makes all its calls on the same one.
type env struct {
	d     *daemon
	srv   *httptest.Server
	conn  *ipfshttp.Connector
	names *hx.Names
	once  sync.Once
}

func (e *env) close() {
	e.once.Do(func() {
		close(e.d.done)
		e.srv.CloseClientConnections()
		e.srv.Close()
		if e.conn != nil {
			e.conn.Shutdown(context.Background())
		}
	})
}

func newEnv(names *hx.Names, client *rpc.Client) (*env, error) {
	d := &daemon{pins: map[string]string{}, held: map[string]string{}, swarm: map[int]bool{},
		names: map[string]string{}, origins: map[string]int{}, done: make(chan struct{})}
	// own listener on the IPv4 loopback (httptest.NewServer silently falls back
	// to [::1] when 127.0.0.1:0 cannot be bound, e.g. transient port exhaustion)
	l, err := listenLoopback()
	if err != nil {
		return nil, err
	}
	srv := httptest.NewUnstartedServer(d)
	srv.Listener = l
	srv.Start()
	e := &env{d: d, srv: srv, names: names}
	ta, ok := l.Addr().(*net.TCPAddr)
	if !ok || ta.IP.To4() == nil {
		e.close()
		return nil, fmt.Errorf("listen: unexpected listener address %v", l.Addr())
	}
	node, err := ma.NewMultiaddr(fmt.Sprintf("/ip4/%s/tcp/%d", ta.IP.To4().String(), ta.Port))
	if err != nil {
		e.close()
		return nil, err
	}
	cfg := &ipfshttp.Config{}
	cfg.Default()
	cfg.NodeAddr = node
	cfg.ConnectSwarmsDelay = 0
	cfg.PinTimeout = pinTimeout
	cfg.IPFSRequestTimeout = requestTimeout
	cfg.UnpinTimeout = unpinTimeout
	conn, err := ipfshttp.NewConnector(cfg)
	if err != nil {
		e.close()
		return nil, err
	}
	conn.SetClient(client)
	e.conn = conn
	return e, nil
}

// call makes one scripted call: c1 / c2 are the concrete CIDs playing target
// and source, prior / pheld the daemon's state for them before the call.
func (e *env) call(c *caseIn, c1, c2 cid.Cid, prior, pheld map[string]string) (*rec, error) {
	d, conn, names := e.d, e.conn, e.names
	if c.Op != "pin" && c.Op != "unpin" && c.Op != "lscid" {
		return nil, fmt.Errorf("unknown op %q", c.Op)
	}
	var origins []ma.Multiaddr
	omap := map[string]int{}
	for i := 1; i <= c.Norig; i++ {
		a, err := ma.NewMultiaddr(fmt.Sprintf("/ip4/10.16.%d.%d/tcp/4001/p2p/%s", i/250, 1+i%250, names.Peer(fmt.Sprintf("p%d", i)).Pretty()))
		if err != nil {
			return nil, err
		}
		origins = append(origins, a)
		omap[a.String()] = i
	}
	d.mu.Lock()
	d.pins = map[string]string{"c1": prior["c1"], "c2": prior["c2"]}
	d.held = map[string]string{"c1": pheld["c1"], "c2": pheld["c2"]}
	d.script, d.next = c.Beh, 0
	d.intf, d.intfDone = c.Intf, false
	d.reqs, d.mismatch = nil, nil
	d.swarm = map[int]bool{}
	d.names = map[string]string{c1.String(): "c1", c2.String(): "c2"}
	d.origins, d.obeh = omap, c.Obeh
	d.nonJSON = c.ID
	d.blocked, d.gone = 0, 0
	d.mu.Unlock()

	opts := api.PinOptions{Name: "c16"}
	if c.Mode == "direct" {
		opts.Mode = api.PinModeDirect
	} else {
		opts.Mode = api.PinModeRecursive
	}
	if c.Upd {
		opts.PinUpdate = c2
	}
	opts.Origins = origins
	pin := api.PinWithOpts(c1, opts)
	if c.Mode == "depth" {
		n, err := strconv.Atoi(c.D)
		if err != nil || n <= 0 {
			return nil, fmt.Errorf("depth pin without depth: %q", c.D)
		}
		pin.MaxDepth = api.PinDepth(n)
	}

	ctx, cancel := context.WithTimeout(context.Background(), callerDeadline)
	defer cancel()
	out := specOut{Reqs: []reqLog{}, Swarm: []int{}, Mismatch: []string{}}
	t0 := time.Now()
	if c.Cancel {
		tm := time.AfterFunc(cancelAfter, cancel)
		defer tm.Stop()
	}
	// the call runs in its own goroutine under a hard watchdog: whatever the
	// connector does, the driver ends in bounded time
	type callRes struct {
		err error
		st  api.IPFSPinStatus
	}
	resCh := make(chan callRes, 1)
	go func() {
		var cr callRes
		switch c.Op {
		case "pin":
			cr.err = conn.Pin(ctx, pin)
		case "unpin":
			cr.err = conn.Unpin(ctx, c1)
		case "lscid":
			cr.st, cr.err = conn.PinLsCid(ctx, pin)
		}
		resCh <- cr
	}()
	var cerr error
	hard := time.NewTimer(callerDeadline + hardGrace)
	select {
	case cr := <-resCh:
		hard.Stop()
		out.Returned = true
		cerr = cr.err
		if c.Op == "lscid" {
			out.Status = statusNames[cr.st]
		}
	case <-hard.C:
		// leaked on purpose; it unwinds when the daemon's connections are closed
	}
	el := time.Since(t0)
	// observe the daemon at the moment the call returned
	d.mu.Lock()
	out.Pins = map[string]string{"c1": d.pins["c1"], "c2": d.pins["c2"]}
	out.Held = map[string]string{"c1": d.held["c1"], "c2": d.held["c2"]}
	out.Reqs = append(out.Reqs, d.reqs...)
	for i := range d.swarm {
		out.Swarm = append(out.Swarm, i)
	}
	out.Mismatch = append(out.Mismatch, d.mismatch...)
	if d.next < len(d.script) {
		out.Mismatch = append(out.Mismatch, fmt.Sprintf("only %d of %d scripted requests were made", d.next, len(d.script)))
	}
	d.mu.Unlock()
	sort.Ints(out.Swarm)
	out.Ms = el.Milliseconds()
	out.ByDeadline = el < callerDeadline*9/10
	switch {
	case !out.Returned:
		out.Res = "never"
		out.Err = "the call did not return"
	case cerr == nil:
		out.Res = "ok"
	case !out.ByDeadline:
		out.Res = "hung"
		out.Err = cerr.Error()
	default:
		out.Res = "err"
		out.Err = cerr.Error()
	}
	if len(out.Err) > 400 {
		out.Err = out.Err[:400]
	}
	if c.Cancel {
		// did the connector give up the request(s) the daemon was sitting on?
		for t := time.Now(); ; time.Sleep(10 * time.Millisecond) {
			d.mu.Lock()
			b, g := d.blocked, d.gone
			d.mu.Unlock()
			if b > 0 && g >= b {
				out.Abandoned = true
			}
			if b == 0 || out.Abandoned || time.Since(t) > abandonGrace {
				break
			}
		}
	}
	nz := func(s []string) []string {
		if s == nil {
			return []string{}
		}
		return s
	}
	return &rec{ID: c.ID, Hist: c.Hist, In: specIn{Op: c.Op, Mode: c.Mode, D: c.D, Upd: c.Upd, Norig: c.Norig,
		Prior: map[string]string{"c1": prior["c1"], "c2": prior["c2"]},
		Pheld: map[string]string{"c1": pheld["c1"], "c2": pheld["c2"]}, Intf: c.Intf,
		Beh: nz(c.Beh), Obeh: nz(c.Obeh), Ohang: c.Ohang, Cancel: c.Cancel, SwapV: c.SwapV, T: c.T}, Out: out}, nil
}

// runCase: one script on a fresh daemon and a fresh Connector.
func runCase(c *caseIn, names *hx.Names, client *rpc.Client) (*rec, error) {
	e, err := newEnv(names, client)
	if err != nil {
		return nil, err
	}
	defer e.close()
	// abstract c1 (target) / c2 (source): CIDv0 / CIDv1, or the other way round
	c1, c2 := names.Cid("c1"), names.Cid("c2")
	if c.SwapV {
		c1, c2 = names.Cid("c4"), names.Cid("c3")
	}
	return e.call(c, c1, c2, c.Prior, c.Pheld)
}

// runHistory: the calls of a history on ONE Connector and one daemon. Every
// call is recorded with the daemon's actual state before it, so each call is
// judged on its own.
func runHistory(calls []*caseIn, names *hx.Names, client *rpc.Client) ([]*rec, error) {
	var e *env
	var err error
	for i := 0; i < 6; i++ {
		if e, err = newEnv(names, client); err == nil || !selfNetProblem(err.Error()) {
			break
		}
		time.Sleep(time.Duration(150*(i+1)) * time.Millisecond)
	}
	if err != nil {
		return nil, err
	}
	defer e.close()
	pool := map[string]cid.Cid{"A": names.Cid("c1"), "B": names.Cid("c2"), "C": names.Cid("c3")}
	src := map[string]string{"A": "B", "B": "C", "C": "A"}
	st := map[string]string{"A": "none", "B": "none", "C": "none"}
	held := map[string]string{"A": "", "B": "", "C": ""}
	var out []*rec
	for _, c := range calls {
		t, s := c.T, src[c.T]
		if _, ok := pool[t]; !ok {
			return nil, fmt.Errorf("history call without target: %q", t)
		}
		r, err := e.call(c, pool[t], pool[s], map[string]string{"c1": st[t], "c2": st[s]},
			map[string]string{"c1": held[t], "c2": held[s]})
		if err != nil {
			return nil, err
		}
		st[t], st[s] = r.Out.Pins["c1"], r.Out.Pins["c2"]
		held[t], held[s] = r.Out.Held["c1"], r.Out.Held["c2"]
		out = append(out, r)
		if r.Out.Res == "never" {
			break // the connector is wedged: nothing more to learn from this instance
		}
	}
	return out, nil
}

// runSteady repeats a script when the call took much longer than the timers
// its scripted stalls account for (a scheduling hiccup of the shared machine
// can make an honest answer miss a 250..600 ms timer); the last attempt counts.
func runSteady(c *caseIn, names *hx.Names, client *rpc.Client) (*rec, error) {
	netRetries := 0
	for attempt := 0; ; attempt++ {
		r, err := runCase(c, names, client)
		// the scripted daemon could not be bound, or the connector could not dial
		// it at all (nothing reached the daemon): back off and run the case again
		selfNet := (err != nil && selfNetProblem(err.Error())) ||
			(err == nil && r.Out.Res != "ok" && len(r.Out.Reqs) == 0 && len(r.Out.Swarm) == 0 && selfNetProblem(r.Out.Err))
		if selfNet {
			netRetries++
			if netRetries <= 6 {
				time.Sleep(time.Duration(150*netRetries) * time.Millisecond)
				attempt--
				continue
			}
			if err == nil {
				err = fmt.Errorf("connector could not reach the scripted daemon: %s", r.Out.Err)
			}
			return nil, err
		}
		// a call that needed the caller's deadline is repeated once at most
		if err != nil || attempt >= 2 || (attempt >= 1 && r.Out.Res == "hung") || r.Out.Res == "never" {
			return r, err
		}
		budget := int64(250)
		for _, q := range r.Out.Reqs {
			switch {
			case q.Beh == "stall" && q.Ep == "ls":
				budget += requestTimeout.Milliseconds()
			case q.Beh == "stall" && q.Ep == "rm":
				budget += unpinTimeout.Milliseconds()
			case (q.Beh == "stall" && q.Ep == "update") || q.Beh == "progForever":
				budget += callerDeadline.Milliseconds()
			case q.Beh == "stall" || q.Beh == "progStall" || q.Beh == "flat":
				budget += 2 * pinTimeout.Milliseconds()
			}
		}
		if r.Out.Ms <= budget {
			return r, nil
		}
	}
}

// runCold runs one history in a fresh copy of this test binary: the Connector
// then lives in a process that has made no other call before, as in a cluster
// peer (state kept anywhere in the process shows only this way).
func runCold(c *caseIn) ([]*rec, error) {
	dir, err := os.MkdirTemp(os.Getenv("VERIF_WORK"), "c16cold-")
	if err != nil {
		return nil, err
	}
	defer os.RemoveAll(dir)
	in, out := filepath.Join(dir, "in.json"), filepath.Join(dir, "out.json")
	b, _ := json.Marshal(c.Calls)
	if err := os.WriteFile(in, b, 0644); err != nil {
		return nil, err
	}
	ctx, cancel := context.WithTimeout(context.Background(), 5*time.Minute)
	defer cancel()
	cmd := exec.CommandContext(ctx, os.Args[0], "-test.run", "^TestColdHistory$", "-test.count", "1")
	cmd.Env = append(os.Environ(), "VERIF_C16_COLD_IN="+in, "VERIF_C16_COLD_OUT="+out, "VERIF_OUT="+filepath.Join(dir, "res.json"))
	if ob, err := cmd.CombinedOutput(); err != nil {
		tail := string(ob)
		if len(tail) > 600 {
			tail = tail[len(tail)-600:]
		}
		return nil, fmt.Errorf("cold history process: %v: %s", err, tail)
	}
	rb, err := os.ReadFile(out)
	if err != nil {
		return nil, err
	}
	var recs []*rec
	if err := json.Unmarshal(rb, &recs); err != nil {
		return nil, err
	}
	return recs, nil
}

// TestColdHistory is the child side of runCold (does nothing on its own).
func TestColdHistory(t *testing.T) {
	in, out := os.Getenv("VERIF_C16_COLD_IN"), os.Getenv("VERIF_C16_COLD_OUT")
	if in == "" || out == "" {
		t.Skip("only run by TestDriver")
	}
	logging.SetAllLoggers(logging.LevelFatal)
	logging.SetLogLevel("ipfshttp", "fatal")
	b, err := os.ReadFile(in)
	if err != nil {
		t.Fatal(err)
	}
	var calls []*caseIn
	if err := json.Unmarshal(b, &calls); err != nil {
		t.Fatal(err)
	}
	client, err := rpcClient()
	if err != nil {
		t.Fatal(err)
	}
	names := hx.NewNames(hx.Seed())
	recs, err := runHistory(calls, names, client)
	if err != nil {
		t.Fatal(err)
	}
	rb, _ := json.Marshal(recs)
	if err := os.WriteFile(out, rb, 0644); err != nil {
		t.Fatal(err)
	}
}

func TestDriver(t *testing.T) {
	logging.SetAllLoggers(logging.LevelFatal)
	logging.SetLogLevel("ipfshttp", "fatal")
	res := hx.NewResult()
	defer res.Write()
	raws, err := hx.LoadCases()
	if err != nil {
		t.Fatal(err)
	}
	var cases []*caseIn
	for _, raw := range raws {
		// a replay file stores the recorded observation {id, in, out}
		var w struct {
			ID int             `json:"id"`
			In json.RawMessage `json:"in"`
		}
		c := &caseIn{}
		if json.Unmarshal(raw, &w) == nil && len(w.In) > 0 {
			if err := json.Unmarshal(w.In, c); err != nil {
				t.Fatal(err)
			}
			c.ID = w.ID
			c.Nontrivial = true
		} else if err := json.Unmarshal(raw, c); err != nil {
			t.Fatal(err)
		}
		cases = append(cases, c)
	}
	client, err := rpcClient()
	if err != nil {
		res.Infra("rpc client: %v", err)
		return
	}
	names := hx.NewNames(hx.Seed())
	for _, n := range []string{"c1", "c2", "c3", "c4"} {
		names.Cid(n)
	}
	for i := 1; i <= 16; i++ {
		names.Peer(fmt.Sprintf("p%d", i))
	}
	// hx.Names is not concurrency-safe: every name used below exists by now (reads only)

	workers := hx.EnvInt("VERIF_C16_WORKERS", 48)
	recs := make([][]*rec, len(cases))
	errs := make([]error, len(cases))
	var wg sync.WaitGroup
	ch := make(chan int)
	for w := 0; w < workers; w++ {
		wg.Add(1)
		go func() {
			defer wg.Done()
			for i := range ch {
				if len(cases[i].Calls) > 0 && cases[i].Cold {
					recs[i], errs[i] = runCold(cases[i])
					continue
				}
				if len(cases[i].Calls) > 0 {
					recs[i], errs[i] = runHistory(cases[i].Calls, names, client)
					continue
				}
				var r *rec
				if r, errs[i] = runSteady(cases[i], names, client); r != nil {
					recs[i] = []*rec{r}
				}
			}
		}()
	}
	for i := range cases {
		ch <- i
	}
	close(ch)
	wg.Wait()

	outf, err := os.Create(os.Getenv("VERIF_TRACE"))
	if err != nil {
		t.Fatal(err)
	}
	defer outf.Close()
	enc := json.NewEncoder(outf)
	for i, rs := range recs {
		if errs[i] != nil {
			res.Infra("case %d: %v", cases[i].ID, errs[i])
			continue
		}
		for _, r := range rs {
			enc.Encode(r)
			res.Case(map[string]interface{}{"in": r.In, "out": map[string]interface{}{"res": r.Out.Res, "status": r.Out.Status,
				"pins": r.Out.Pins, "held": r.Out.Held, "requests": len(r.Out.Reqs)}},
				cases[i].Nontrivial || len(cases[i].Calls) > 0)
		}
	}
	nh := 0
	for _, c := range cases {
		if len(c.Calls) > 0 {
			nh++
		}
	}
	res.Set("histories_replayed", nh)
}
