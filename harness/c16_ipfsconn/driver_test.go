// C16 driver: executes scripts produced by TLC from spec/IPFSConn.tla (prior
// daemon pin table + one daemon behaviour per request) against the real
// ipfshttp.Connector talking to the scripted IPFS HTTP daemon of daemon.go,
// and records (script, returned value, daemon pin table after, request log)
// for spec/IPFSConnTrace.tla, which decides the verdicts.
package c16

import (
	"context"
	"encoding/json"
	"fmt"
	"net"
	"net/http/httptest"
	"os"
	"sort"
	"strings"
	"sync"
	"testing"
	"time"

	"verifharness/hx"

	logging "github.com/ipfs/go-log/v2"
	"github.com/ipfs/ipfs-cluster/api"
	"github.com/ipfs/ipfs-cluster/ipfsconn/ipfshttp"
	rpc "github.com/libp2p/go-libp2p-gorpc"
	ma "github.com/multiformats/go-multiaddr"
)

const (
	pinTimeout     = 250 * time.Millisecond
	requestTimeout = 600 * time.Millisecond
	// Unpin is the one call the statement obliges to succeed (not pinned =>
	// success), so its timeout gets extra room against a loaded machine.
	unpinTimeout = 2 * time.Second
	// The caller's own deadline. The longest legitimate path is two look-up
	// timeouts plus two watchdog periods (1.7 s); a call that only ends because
	// of this deadline never gave up by itself ("hung").
	callerDeadline = 6 * time.Second
	// A call that has not returned this long after its caller's context ended
	// is recorded as never returning ("never"); the driver moves on.
	hardGrace = 2 * callerDeadline
	// inp.cancel: the caller cancels this long into the call (before any timer
	// of the connector can fire, after every honest exchange is over)
	cancelAfter = 120 * time.Millisecond
	// how long the daemon is given to notice that an abandoned request's
	// connection was closed
	abandonGrace = 3 * time.Second
)

type caseIn struct {
	ID         int               `json:"id"`
	Op         string            `json:"op"`
	Mode       string            `json:"mode"`
	Upd        bool              `json:"upd"`
	Norig      int               `json:"norig"`
	Prior      map[string]string `json:"prior"`
	Intf       string            `json:"intf"`
	Beh        []string          `json:"beh"`
	Obeh       []string          `json:"obeh"`
	Ohang      bool              `json:"ohang"`
	Cancel     bool              `json:"cancel"`
	Depth      int               `json:"depth"`
	SwapV      bool              `json:"swapv"`
	Nontrivial bool              `json:"nontrivial"`
}

type specIn struct {
	Op     string            `json:"op"`
	Mode   string            `json:"mode"`
	Upd    bool              `json:"upd"`
	Norig  int               `json:"norig"`
	Prior  map[string]string `json:"prior"`
	Intf   string            `json:"intf"`
	Beh    []string          `json:"beh"`
	Obeh   []string          `json:"obeh"`
	Ohang  bool              `json:"ohang"`
	Cancel bool              `json:"cancel"`
	Depth  int               `json:"depth"`
	SwapV  bool              `json:"swapv"`
}

type specOut struct {
	Res    string            `json:"res"`
	Status string            `json:"status"`
	Pins   map[string]string `json:"pins"`
	Reqs   []reqLog          `json:"reqs"`
	Swarm  []int             `json:"swarm"`
	// ByDeadline: the call returned by itself, well before the caller's own
	// deadline (res "hung" otherwise: only the caller's context ended it)
	ByDeadline bool `json:"by_deadline"`
	// Returned: the call came back at all (within callerDeadline + hardGrace)
	Returned bool `json:"returned"`
	// Abandoned (cancel scripts): every request the daemon was sitting on had
	// its connection closed by the connector
	Abandoned bool     `json:"abandoned"`
	Ms        int64    `json:"ms"`
	Err       string   `json:"err"`
	Mismatch  []string `json:"mismatch"`
}

type rec struct {
	ID  int     `json:"id"`
	In  specIn  `json:"in"`
	Out specOut `json:"out"`
}

// clusterSvc answers the two RPCs the connector may issue on its own.
type clusterSvc struct{}

func (clusterSvc) SendInformersMetrics(ctx context.Context, in struct{}, out *[]*api.Metric) error {
	return nil
}
func (clusterSvc) Peers(ctx context.Context, in struct{}, out *[]*api.ID) error { return nil }

func rpcClient() (*rpc.Client, error) {
	s := rpc.NewServer(nil, "c16")
	if err := s.RegisterName("Cluster", clusterSvc{}); err != nil {
		return nil, err
	}
	return rpc.NewClientWithServer(nil, "c16", s), nil
}

var statusNames = map[api.IPFSPinStatus]string{
	api.IPFSPinStatusBug: "bug", api.IPFSPinStatusError: "error", api.IPFSPinStatusDirect: "direct",
	api.IPFSPinStatusRecursive: "recursive", api.IPFSPinStatusIndirect: "indirect", api.IPFSPinStatusUnpinned: "unpinned",
}

// listenLoopback binds 127.0.0.1:0, retrying with a short back-off.
func listenLoopback() (net.Listener, error) {
	var l net.Listener
	var err error
	for i := 0; i < 8; i++ {
		if l, err = net.Listen("tcp4", "127.0.0.1:0"); err == nil {
			return l, nil
		}
		time.Sleep(time.Duration(50*(i+1)) * time.Millisecond)
	}
	return nil, fmt.Errorf("listen: %v", err)
}

// selfNetProblem recognises failures of the harness' own plumbing (binding the
// scripted daemon, or the connector unable to even dial it): never a verdict.
func selfNetProblem(msg string) bool {
	for _, m := range []string{"listen:", "bind:", "listen tcp", "cannot assign requested address", "too many open files",
		"connect: connection refused", "no route to host", "address already in use", "failed to parse multiaddr"} {
		if strings.Contains(msg, m) {
			return true
		}
	}
	return false
}

func runCase(c *caseIn, names *hx.Names, client *rpc.Client) (*rec, error) {
	// abstract c1 (target) / c2 (source): CIDv0 / CIDv1, or the other way round
	c1, c2 := names.Cid("c1"), names.Cid("c2")
	if c.SwapV {
		c1, c2 = names.Cid("c4"), names.Cid("c3")
	}
	d := &daemon{
		pins:    map[string]string{"c1": c.Prior["c1"], "c2": c.Prior["c2"]},
		script:  c.Beh,
		intf:    c.Intf,
		swarm:   map[int]bool{},
		names:   map[string]string{c1.String(): "c1", c2.String(): "c2"},
		origins: map[string]int{},
		obeh:    c.Obeh,
		nonJSON: c.ID,
		done:    make(chan struct{}),
	}
	var origins []ma.Multiaddr
	for i := 1; i <= c.Norig; i++ {
		a, err := ma.NewMultiaddr(fmt.Sprintf("/ip4/10.16.%d.%d/tcp/4001/p2p/%s", i/250, 1+i%250, names.Peer(fmt.Sprintf("p%d", i)).Pretty()))
		if err != nil {
			return nil, err
		}
		origins = append(origins, a)
		d.origins[a.String()] = i
	}
	// own listener on the IPv4 loopback (httptest.NewServer silently falls back
	// to [::1] when 127.0.0.1:0 cannot be bound, e.g. transient port exhaustion)
	l, err := listenLoopback()
	if err != nil {
		return nil, err
	}
	srv := httptest.NewUnstartedServer(d)
	srv.Listener = l
	srv.Start()
	closed := false
	closeAll := func() {
		if !closed {
			closed = true
			close(d.done)
			srv.CloseClientConnections()
			srv.Close()
		}
	}
	defer closeAll()

	ta, ok := l.Addr().(*net.TCPAddr)
	if !ok || ta.IP.To4() == nil {
		return nil, fmt.Errorf("listen: unexpected listener address %v", l.Addr())
	}
	node, err := ma.NewMultiaddr(fmt.Sprintf("/ip4/%s/tcp/%d", ta.IP.To4().String(), ta.Port))
	if err != nil {
		return nil, err
	}
	cfg := &ipfshttp.Config{}
	cfg.Default()
	cfg.NodeAddr = node
	cfg.ConnectSwarmsDelay = 0
	cfg.PinTimeout = pinTimeout
	cfg.IPFSRequestTimeout = requestTimeout
	cfg.UnpinTimeout = unpinTimeout
	conn, err := ipfshttp.NewConnector(cfg)
	if err != nil {
		return nil, err
	}
	conn.SetClient(client)
	defer conn.Shutdown(context.Background())

	opts := api.PinOptions{Name: "c16"}
	if c.Mode == "direct" {
		opts.Mode = api.PinModeDirect
	} else {
		opts.Mode = api.PinModeRecursive
	}
	if c.Upd {
		opts.PinUpdate = c2
	}
	opts.Origins = origins
	pin := api.PinWithOpts(c1, opts)
	if c.Mode == "depth" {
		pin.MaxDepth = 2
		if c.Depth > 0 {
			pin.MaxDepth = api.PinDepth(c.Depth)
		}
	}

	ctx, cancel := context.WithTimeout(context.Background(), callerDeadline)
	defer cancel()
	out := specOut{Reqs: []reqLog{}, Swarm: []int{}, Mismatch: []string{}}
	if c.Op != "pin" && c.Op != "unpin" && c.Op != "lscid" {
		return nil, fmt.Errorf("unknown op %q", c.Op)
	}
	t0 := time.Now()
	if c.Cancel {
		tm := time.AfterFunc(cancelAfter, cancel)
		defer tm.Stop()
	}
	// the call runs in its own goroutine under a hard watchdog: whatever the
	// connector does, the driver ends in bounded time
	type callRes struct {
		err error
		st  api.IPFSPinStatus
	}
	resCh := make(chan callRes, 1)
	go func() {
		var cr callRes
		switch c.Op {
		case "pin":
			cr.err = conn.Pin(ctx, pin)
		case "unpin":
			cr.err = conn.Unpin(ctx, c1)
		case "lscid":
			cr.st, cr.err = conn.PinLsCid(ctx, pin)
		}
		resCh <- cr
	}()
	var cerr error
	hard := time.NewTimer(callerDeadline + hardGrace)
	select {
	case cr := <-resCh:
		hard.Stop()
		out.Returned = true
		cerr = cr.err
		if c.Op == "lscid" {
			out.Status = statusNames[cr.st]
		}
	case <-hard.C:
		// leaked on purpose; it unwinds when the daemon's connections are closed below
	}
	el := time.Since(t0)
	// observe the daemon at the moment the call returned
	d.mu.Lock()
	out.Pins = map[string]string{"c1": d.pins["c1"], "c2": d.pins["c2"]}
	out.Reqs = append(out.Reqs, d.reqs...)
	for i := range d.swarm {
		out.Swarm = append(out.Swarm, i)
	}
	out.Mismatch = append(out.Mismatch, d.mismatch...)
	if d.next < len(d.script) {
		out.Mismatch = append(out.Mismatch, fmt.Sprintf("only %d of %d scripted requests were made", d.next, len(d.script)))
	}
	d.mu.Unlock()
	sort.Ints(out.Swarm)
	out.Ms = el.Milliseconds()
	out.ByDeadline = el < callerDeadline*9/10
	switch {
	case !out.Returned:
		out.Res = "never"
		out.Err = "the call did not return"
	case cerr == nil:
		out.Res = "ok"
	case !out.ByDeadline:
		out.Res = "hung"
		out.Err = cerr.Error()
	default:
		out.Res = "err"
		out.Err = cerr.Error()
	}
	if len(out.Err) > 400 {
		out.Err = out.Err[:400]
	}
	if c.Cancel {
		// did the connector give up the request(s) the daemon was sitting on?
		for t := time.Now(); ; time.Sleep(10 * time.Millisecond) {
			d.mu.Lock()
			b, g := d.blocked, d.gone
			d.mu.Unlock()
			if b > 0 && g >= b {
				out.Abandoned = true
			}
			if b == 0 || out.Abandoned || time.Since(t) > abandonGrace {
				break
			}
		}
	}
	closeAll()
	nz := func(s []string) []string {
		if s == nil {
			return []string{}
		}
		return s
	}
	return &rec{ID: c.ID, In: specIn{Op: c.Op, Mode: c.Mode, Upd: c.Upd, Norig: c.Norig, Prior: c.Prior, Intf: c.Intf,
		Beh: nz(c.Beh), Obeh: nz(c.Obeh), Ohang: c.Ohang, Cancel: c.Cancel, Depth: c.Depth, SwapV: c.SwapV}, Out: out}, nil
}

// runSteady repeats a script when the call took much longer than the timers
// its scripted stalls account for (a scheduling hiccup of the shared machine
// can make an honest answer miss a 250..600 ms timer); the last attempt counts.
func runSteady(c *caseIn, names *hx.Names, client *rpc.Client) (*rec, error) {
	netRetries := 0
	for attempt := 0; ; attempt++ {
		r, err := runCase(c, names, client)
		// the scripted daemon could not be bound, or the connector could not dial
		// it at all (nothing reached the daemon): back off and run the case again
		selfNet := (err != nil && selfNetProblem(err.Error())) ||
			(err == nil && r.Out.Res != "ok" && len(r.Out.Reqs) == 0 && len(r.Out.Swarm) == 0 && selfNetProblem(r.Out.Err))
		if selfNet {
			netRetries++
			if netRetries <= 6 {
				time.Sleep(time.Duration(150*netRetries) * time.Millisecond)
				attempt--
				continue
			}
			if err == nil {
				err = fmt.Errorf("connector could not reach the scripted daemon: %s", r.Out.Err)
			}
			return nil, err
		}
		// a call that needed the caller's deadline is repeated once at most
		if err != nil || attempt >= 2 || (attempt >= 1 && r.Out.Res == "hung") || r.Out.Res == "never" {
			return r, err
		}
		budget := int64(250)
		for _, q := range r.Out.Reqs {
			switch {
			case q.Beh == "stall" && q.Ep == "ls":
				budget += requestTimeout.Milliseconds()
			case q.Beh == "stall" && q.Ep == "rm":
				budget += unpinTimeout.Milliseconds()
			case (q.Beh == "stall" && q.Ep == "update") || q.Beh == "progForever":
				budget += callerDeadline.Milliseconds()
			case q.Beh == "stall" || q.Beh == "progStall" || q.Beh == "flat":
				budget += 2 * pinTimeout.Milliseconds()
			}
		}
		if r.Out.Ms <= budget {
			return r, nil
		}
	}
}

func TestDriver(t *testing.T) {
	logging.SetAllLoggers(logging.LevelFatal)
	logging.SetLogLevel("ipfshttp", "fatal")
	res := hx.NewResult()
	defer res.Write()
	raws, err := hx.LoadCases()
	if err != nil {
		t.Fatal(err)
	}
	var cases []*caseIn
	for _, raw := range raws {
		// a replay file stores the recorded observation {id, in, out}
		var w struct {
			ID int             `json:"id"`
			In json.RawMessage `json:"in"`
		}
		c := &caseIn{}
		if json.Unmarshal(raw, &w) == nil && len(w.In) > 0 {
			if err := json.Unmarshal(w.In, c); err != nil {
				t.Fatal(err)
			}
			c.ID = w.ID
			c.Nontrivial = true
		} else if err := json.Unmarshal(raw, c); err != nil {
			t.Fatal(err)
		}
		cases = append(cases, c)
	}
	client, err := rpcClient()
	if err != nil {
		res.Infra("rpc client: %v", err)
		return
	}
	names := hx.NewNames(hx.Seed())
	for _, n := range []string{"c1", "c2", "c3", "c4"} {
		names.Cid(n)
	}
	for i := 1; i <= 16; i++ {
		names.Peer(fmt.Sprintf("p%d", i))
	}
	// hx.Names is not concurrency-safe: every name used below exists by now (reads only)

	workers := hx.EnvInt("VERIF_C16_WORKERS", 48)
	recs := make([]*rec, len(cases))
	errs := make([]error, len(cases))
	var wg sync.WaitGroup
	ch := make(chan int)
	for w := 0; w < workers; w++ {
		wg.Add(1)
		go func() {
			defer wg.Done()
			for i := range ch {
				recs[i], errs[i] = runSteady(cases[i], names, client)
			}
		}()
	}
	for i := range cases {
		ch <- i
	}
	close(ch)
	wg.Wait()

	outf, err := os.Create(os.Getenv("VERIF_TRACE"))
	if err != nil {
		t.Fatal(err)
	}
	defer outf.Close()
	enc := json.NewEncoder(outf)
	for i, r := range recs {
		if errs[i] != nil {
			res.Infra("case %d: %v", cases[i].ID, errs[i])
			continue
		}
		enc.Encode(r)
		res.Case(map[string]interface{}{"in": r.In, "out": map[string]interface{}{"res": r.Out.Res, "status": r.Out.Status,
			"pins": r.Out.Pins, "requests": len(r.Out.Reqs)}}, cases[i].Nontrivial)
	}
}
