// Scripted IPFS HTTP daemon for C16.
//
// It speaks the part of the go-ipfs HTTP API the connector uses for
// Pin / Unpin / PinLsCid (pin/ls, pin/add, pin/update, pin/rm, swarm/connect)
// with the pin semantics of go-ipfs-pinner v0.1.1 (dspinner.Pin, Unpin,
// Update, IsPinnedWithType: a `type` filter on pin/ls is honoured, a direct
// pin/add on a recursive pin is refused, pin/rm of an unpinned CID answers
// "not pinned or pinned indirectly", pin/update needs a recursively pinned
// source and keeps it with unpin=false) and the wire behaviour of
// go-ipfs-cmds v0.6.0 (http/responseemitter.go: errors before the first
// emitted value are a 500 with {"Message","Code","Type"}; errors after it
// travel in the X-Stream-Error trailer of a 200 chunked response that ends
// cleanly).  Per request it plays one scripted behaviour.  Its Go code is
// itself checked against the daemon process of spec/IPFSConn.tla: every
// request it logs carries what it did, and IPFSConnTrace compares that with
// the model.
package c16

import (
	"encoding/json"
	"fmt"
	"net/http"
	"strings"
	"sync"
	"time"
)

type reqLog struct {
	Ep    string `json:"ep"`
	Cid   string `json:"cid"`
	Typ   string `json:"typ"`
	Rec   string `json:"rec"`
	From  string `json:"from"`
	Depth string `json:"depth"` // max-depth argument of pin/add ("" when absent)
	Prog  string `json:"prog"`  // progress argument of pin/add
	Unpin string `json:"unpin"`
	Beh   string `json:"beh"`
	Eff   string `json:"eff"`
	Ans   string `json:"ans"`
}

type daemon struct {
	mu       sync.Mutex
	pins     map[string]string // abstract cid name -> none|direct|recursive|both
	held     map[string]string // depth of the recursive pin held: "" | full | 1 | 2 (max-depth honoured: partial pin)
	script   []string
	next     int
	intf     string
	intfDone bool
	reqs     []reqLog
	swarm    map[int]bool
	names    map[string]string // concrete cid string -> abstract name
	origins  map[string]int    // origin multiaddr -> 1-based index
	obeh     []string
	nonJSON  int
	mismatch []string
	blocked  int // main requests the daemon is sitting on (stall, flat, forever)
	gone     int // ... whose connection the client closed while the case was still running
	done     chan struct{}
}

var applicable = map[string]map[string]bool{
	"ls":     {"ok": true, "errBody": true, "nonJson": true, "drop": true, "stall": true},
	"update": {"ok": true, "errBody": true, "nonJson": true, "drop": true, "stall": true, "commitDrop": true},
	"rm":     {"ok": true, "errBody": true, "nonJson": true, "drop": true, "stall": true, "commitDrop": true},
	"add": {"ok": true, "errBody": true, "nonJson": true, "drop": true, "stall": true, "commitDrop": true,
		"progOk": true, "progTrailer": true, "progStall": true, "flat": true, "progDrop": true, "progForever": true},
}

func hasR(p string) bool { return p == "recursive" || p == "both" }
func hasD(p string) bool { return p == "direct" || p == "both" }

func jsonErr(w http.ResponseWriter, msg string) {
	w.Header().Set("Content-Type", "application/json")
	w.Header().Set("Trailer", "X-Stream-Error")
	w.WriteHeader(http.StatusInternalServerError)
	json.NewEncoder(w).Encode(map[string]interface{}{"Message": msg, "Code": 0, "Type": "error"})
}

func (d *daemon) nonJSONErr(w http.ResponseWriter) {
	w.Header().Set("Content-Type", "text/plain; charset=utf-8")
	switch d.nonJSON % 3 {
	case 0:
		w.WriteHeader(http.StatusBadGateway)
		fmt.Fprint(w, "Bad Gateway\n")
	case 1:
		w.WriteHeader(http.StatusNotFound)
		fmt.Fprint(w, "404 page not found\n")
	default:
		w.WriteHeader(http.StatusInternalServerError)
		fmt.Fprint(w, "<html><body>upstream failure</body></html>")
	}
}

// block/unblock book-keep the main requests the daemon is sitting on, and
// whether the client abandoned them (closed the connection) before the case ended.
func (d *daemon) block() {
	d.mu.Lock()
	d.blocked++
	d.mu.Unlock()
}

func (d *daemon) clientGone() {
	select {
	case <-d.done: // the case is over: the harness itself is closing connections
	default:
		d.mu.Lock()
		d.gone++
		d.mu.Unlock()
	}
}

// wait blocks until the client goes away or the case ends.
func (d *daemon) wait(r *http.Request, main bool) {
	if main {
		d.block()
	}
	select {
	case <-r.Context().Done():
		if main {
			d.clientGone()
		}
	case <-d.done:
	}
}

func (d *daemon) name(c string) string {
	if n, ok := d.names[c]; ok {
		return n
	}
	return "?" + c
}

func (d *daemon) ServeHTTP(w http.ResponseWriter, r *http.Request) {
	ep := strings.TrimPrefix(r.URL.Path, "/api/v0/")
	q := r.URL.Query()
	args := q["arg"]
	if ep == "swarm/connect" {
		d.swarmConnect(w, r, args)
		return
	}
	short := map[string]string{"pin/ls": "ls", "pin/add": "add", "pin/update": "update", "pin/rm": "rm"}[ep]

	d.mu.Lock()
	lg := reqLog{Ep: short}
	if short == "" {
		// not part of the modelled conversation
		lg.Ep = "?" + ep
		d.reqs = append(d.reqs, lg)
		d.mu.Unlock()
		http.NotFound(w, r)
		return
	}
	beh := "ok"
	if d.next < len(d.script) {
		beh = d.script[d.next]
		if !applicable[short][beh] {
			d.mismatch = append(d.mismatch, fmt.Sprintf("behaviour %s scripted for request %d but that is a %s", beh, d.next+1, ep))
			beh = "ok"
		}
	} else {
		d.mismatch = append(d.mismatch, fmt.Sprintf("unscripted request %d (%s)", d.next+1, ep))
	}
	d.next++
	lg.Beh = beh
	var target, from string
	switch short {
	case "update":
		if len(args) > 0 {
			from = args[0]
			lg.From = d.name(from)
		}
		if len(args) > 1 {
			target = args[1]
			lg.Cid = d.name(target)
		}
		lg.Unpin = "true" // go-ipfs default
		if v := q.Get("unpin"); v != "" {
			lg.Unpin = v
		}
	default:
		if len(args) > 0 {
			target = args[0]
			lg.Cid = d.name(target)
		}
	}
	if short == "ls" {
		lg.Typ = q.Get("type")
		if lg.Typ == "" {
			lg.Typ = "all"
		}
	}
	if short == "add" {
		lg.Rec = "true" // go-ipfs default
		if v := q.Get("recursive"); v != "" {
			lg.Rec = v
		}
		lg.Depth = q.Get("max-depth")
		lg.Prog = q.Get("progress")
	}
	// an external actor changes the target just before the first mutating request
	if short != "ls" && !d.intfDone {
		d.intfDone = true
		if d.intf != "keep" && d.intf != "" {
			d.pins["c1"] = d.intf
			d.held["c1"] = ""
			if d.intf == "recursive" {
				d.held["c1"] = "full"
			}
		}
	}
	prePins := map[string]string{"c1": d.pins["c1"], "c2": d.pins["c2"]}

	// decide and apply under the lock; write the response after releasing it
	var respond func()
	fail := func(f func()) { lg.Eff = "fail"; respond = f }
	switch beh {
	case "errBody":
		fail(func() { jsonErr(w, "scripted failure: merkledag: not found") })
	case "nonJson":
		d.nonJSON++
		fail(func() { d.nonJSONErr(w) })
	case "drop":
		fail(func() { panic(http.ErrAbortHandler) })
	case "stall":
		fail(func() { d.wait(r, true); panic(http.ErrAbortHandler) })
	default:
		switch short {
		case "ls":
			p := d.pins[lg.Cid]
			ans := "notpinned"
			switch lg.Typ {
			case "recursive":
				if hasR(p) {
					ans = "recursive"
				}
			case "direct":
				if hasD(p) {
					ans = "direct"
				}
			default: // all (indirect pins do not exist in this table)
				if hasR(p) {
					ans = "recursive"
				} else if hasD(p) {
					ans = "direct"
				}
			}
			lg.Eff, lg.Ans = "reply", ans
			if ans == "notpinned" {
				respond = func() { jsonErr(w, fmt.Sprintf("path '%s' is not pinned", target)) }
			} else {
				respond = func() {
					w.Header().Set("Content-Type", "application/json")
					json.NewEncoder(w).Encode(map[string]interface{}{"Keys": map[string]interface{}{target: map[string]string{"Type": ans}}})
				}
			}
		case "rm":
			p := d.pins[lg.Cid]
			recursive := q.Get("recursive") != "false"
			switch {
			case hasR(p) && !recursive:
				lg.Eff = "semerr"
				respond = func() { jsonErr(w, target+" is pinned recursively") }
			case p == "none" || p == "":
				lg.Eff = "notpinned"
				respond = func() { jsonErr(w, "not pinned or pinned indirectly") }
			default:
				d.pins[lg.Cid] = "none"
				lg.Eff = "commit"
				respond = func() {
					w.Header().Set("Content-Type", "application/json")
					json.NewEncoder(w).Encode(map[string]interface{}{"Pins": []string{target}})
				}
			}
			if beh == "commitDrop" { // the answer is lost on the way back
				if lg.Eff == "commit" {
					lg.Eff = "commitfail"
				} else {
					lg.Eff = "fail"
				}
				respond = func() { panic(http.ErrAbortHandler) }
			}
		case "update":
			pf, pt := d.pins[lg.From], d.pins[lg.Cid]
			switch {
			case !hasR(pf):
				lg.Eff = "semerr"
				respond = func() { jsonErr(w, "'from' cid was not recursively pinned already") }
			case lg.From == lg.Cid:
				lg.Eff = "commit"
			case hasR(pt):
				lg.Eff = "semerr"
				respond = func() { jsonErr(w, "'to' cid was already recursively pinned") }
			default:
				if pt == "direct" {
					d.pins[lg.Cid] = "both"
				} else {
					d.pins[lg.Cid] = "recursive"
				}
				if lg.Unpin != "false" {
					if pf == "both" {
						d.pins[lg.From] = "direct"
					} else {
						d.pins[lg.From] = "none"
					}
				}
				lg.Eff = "commit"
			}
			if lg.Eff == "commit" {
				respond = func() {
					w.Header().Set("Content-Type", "application/json")
					json.NewEncoder(w).Encode(map[string]interface{}{"Pins": []string{from, target}})
				}
			}
			if beh == "commitDrop" {
				if lg.Eff == "commit" {
					lg.Eff = "commitfail"
				} else {
					lg.Eff = "fail"
				}
				respond = func() { panic(http.ErrAbortHandler) }
			}
		case "add":
			p := d.pins[lg.Cid]
			rec := lg.Rec != "false"
			ok := rec || !hasR(p)
			commit := func() {
				if rec {
					if !hasR(p) {
						d.pins[lg.Cid] = "recursive"
					}
				} else if !hasD(p) {
					d.pins[lg.Cid] = "direct"
				}
			}
			refusal := "pin: " + target + " already pinned recursively"
			switch beh {
			case "ok":
				if ok {
					commit()
					lg.Eff = "commit"
					respond = func() { d.stream(w, r, target, nil, "pins", "") }
				} else {
					lg.Eff = "semerr"
					respond = func() { jsonErr(w, refusal) }
				}
			case "progOk":
				if ok {
					commit()
					lg.Eff = "commit"
					respond = func() { d.stream(w, r, target, []int{0, 1, 2}, "pins", "") }
				} else {
					lg.Eff = "semerr"
					respond = func() { d.stream(w, r, target, []int{0, 0}, "trailer", refusal) }
				}
			case "progTrailer":
				fail(func() {
					d.stream(w, r, target, []int{0, 1, 2}, "trailer", "pin: failed to fetch all nodes: merkledag: not found")
				})
			case "progStall":
				fail(func() { d.stream(w, r, target, []int{0, 1, 2}, "stall", "") })
			case "flat":
				fail(func() { d.stream(w, r, target, []int{0, 2}, "flat", "") })
			case "progForever":
				fail(func() { d.stream(w, r, target, []int{0, 1, 2}, "forever", "") })
			case "progDrop":
				fail(func() { d.stream(w, r, target, []int{0, 1}, "drop", "") })
			case "commitDrop": // pinned, but the connection breaks before the final message
				if ok {
					commit()
					lg.Eff = "commitfail"
					respond = func() { d.stream(w, r, target, []int{0, 1}, "drop", "") }
				} else {
					fail(func() { d.stream(w, r, target, []int{0, 1}, "drop", "") })
				}
			}
		}
	}
	// a new recursive pin is as deep as the request said; an existing one stays as it is
	for _, c := range []string{"c1", "c2"} {
		switch {
		case !hasR(d.pins[c]):
			d.held[c] = ""
		case hasR(prePins[c]):
		case short == "add" && lg.Depth != "":
			d.held[c] = lg.Depth
		default:
			d.held[c] = "full"
		}
	}
	d.reqs = append(d.reqs, lg)
	d.mu.Unlock()
	respond()
}

// stream writes a pin/add progress stream the way go-ipfs-cmds does: chunked
// 200 with a declared X-Stream-Error trailer, one JSON object per emitted
// value (AddPinOutput{Pins, Progress omitempty}), flushed each.
func (d *daemon) stream(w http.ResponseWriter, r *http.Request, target string, msgs []int, end, trailer string) {
	h := w.Header()
	h.Set("Trailer", "X-Stream-Error")
	h.Set("X-Chunked-Output", "1")
	h.Set("Content-Type", "application/json")
	w.WriteHeader(http.StatusOK)
	fl, _ := w.(http.Flusher)
	emit := func(p int) error {
		var err error
		if p == 0 {
			_, err = fmt.Fprint(w, "{\"Pins\":null}\n")
		} else {
			_, err = fmt.Fprintf(w, "{\"Pins\":null,\"Progress\":%d}\n", p)
		}
		if fl != nil {
			fl.Flush()
		}
		return err
	}
	for _, p := range msgs {
		emit(p)
	}
	switch end {
	case "pins":
		fmt.Fprintf(w, "{\"Pins\":[\"%s\"]}\n", target)
	case "trailer":
		h.Set("X-Stream-Error", trailer)
	case "stall":
		d.wait(r, true)
		panic(http.ErrAbortHandler)
	case "flat", "forever":
		// the same value again and again / ever increasing values, every 40 ms
		last := msgs[len(msgs)-1]
		t := time.NewTicker(40 * time.Millisecond)
		defer t.Stop()
		d.block()
		for {
			select {
			case <-r.Context().Done():
				d.clientGone()
				panic(http.ErrAbortHandler)
			case <-d.done:
				panic(http.ErrAbortHandler)
			case <-t.C:
				if end == "forever" {
					last++
				}
				if emit(last) != nil {
					// the write failed: the client closed the connection
					select {
					case <-r.Context().Done():
					case <-time.After(200 * time.Millisecond):
					}
					d.clientGone()
					panic(http.ErrAbortHandler)
				}
			}
		}
	case "drop":
		panic(http.ErrAbortHandler)
	}
}

func (d *daemon) swarmConnect(w http.ResponseWriter, r *http.Request, args []string) {
	d.mu.Lock()
	idx := 0
	if len(args) > 0 {
		idx = d.origins[args[0]]
	}
	if idx == 0 {
		idx = -1 // a swarm/connect to something that is not an origin of this pin
	}
	d.swarm[idx] = true
	beh := "ok"
	if idx > 0 && idx <= len(d.obeh) {
		beh = d.obeh[idx-1]
	}
	d.mu.Unlock()
	switch beh {
	case "err":
		jsonErr(w, "connect failure: dial backoff")
	case "drop":
		panic(http.ErrAbortHandler)
	case "stall":
		d.wait(r, false)
		panic(http.ErrAbortHandler)
	default:
		w.Header().Set("Content-Type", "application/json")
		json.NewEncoder(w).Encode(map[string]interface{}{"Strings": []string{"connect success"}})
	}
}
