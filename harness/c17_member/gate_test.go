//go:build verifgate
// +build verifgate

package c17

// C01 AckDurable under commit() vs Shutdown() interleavings: schedules derived
// from the TLC state graph of spec/RaftCommitGate.tla are forced on a real
// single-peer raft.Consensus through the add-only gate in commit()
// ("commit.beforeLock"): S1 = Shutdown completes before the call starts,
// S2 = the call passes the leader check, Shutdown completes, then the call
// takes the lock, S3 = the call completes before Shutdown.

import (
	"context"
	"encoding/json"
	"fmt"
	"io/ioutil"
	"os"
	"sync"
	"testing"
	"time"

	"verifharness/hx"
	"verifharness/rig"

	"github.com/ipfs/ipfs-cluster/consensus/raft"
	"github.com/ipfs/ipfs-cluster/datastore/inmem"

	peer "github.com/libp2p/go-libp2p-core/peer"
)

type gateCase struct {
	ID        int      `json:"id"`
	Cls       string   `json:"cls"`
	Kind      string   `json:"kind"`
	Tour      []string `json:"tour"`
	Result    string   `json:"result"`
	Committed bool     `json:"committed"`
}

type gateCtl struct {
	reached chan struct{}
	release chan struct{}
	once    sync.Once
}

var (
	gateMu sync.Mutex
	gates  = map[peer.ID]*gateCtl{}
)

func installGate() {
	raft.VerifGate = func(point string, pid peer.ID) {
		if point != "commit.beforeLock" {
			return
		}
		gateMu.Lock()
		g := gates[pid]
		gateMu.Unlock()
		if g == nil {
			return
		}
		first := false
		g.once.Do(func() { first = true; close(g.reached) })
		if first {
			<-g.release
		}
	}
}

func (r *run) gateCase(c *gateCase) error {
	n := r.nodes["p1"]
	if err := r.start(n, false); err != nil {
		return err
	}
	defer func() {
		if n.rp != nil {
			r.stop(n)
		}
	}()
	isPin := c.Kind == "pin"
	if !isPin { // something to unpin
		if _, err := r.submit(&stepT{A: "pin", At: "p1", C: "c1"}, 1, true); err != nil {
			return fmt.Errorf("preparatory pin failed: %v", err)
		}
	}
	st := &stepT{A: c.Kind, At: "p1", C: "c1"}
	shutdown := func() {
		ctx, cancel := context.WithTimeout(context.Background(), 60*time.Second)
		n.rp.Cons.Shutdown(ctx)
		cancel()
		r.emit("down", "p", "p1")
	}
	var id string
	var err error
	switch c.Cls {
	case "S1":
		shutdown()
		id, err = r.submit(st, 2, isPin)
	case "S3":
		id, err = r.submit(st, 2, isPin)
		shutdown()
	case "S2":
		g := &gateCtl{reached: make(chan struct{}), release: make(chan struct{})}
		gateMu.Lock()
		gates[n.id] = g
		gateMu.Unlock()
		done := make(chan struct{})
		go func() {
			id, err = r.submit(st, 2, isPin)
			close(done)
		}()
		select {
		case <-g.reached:
		case <-done:
			return fmt.Errorf("the call returned without reaching the gate (err=%v)", err)
		case <-time.After(30 * time.Second):
			close(g.release)
			return fmt.Errorf("gate commit.beforeLock not reached within 30s")
		}
		shutdown()
		close(g.release)
		select {
		case <-done:
		case <-time.After(120 * time.Second):
			return fmt.Errorf("the gated call did not return within 120s")
		}
		gateMu.Lock()
		delete(gates, n.id)
		gateMu.Unlock()
	default:
		return fmt.Errorf("unknown schedule class %q", c.Cls)
	}
	real := "err"
	if err == nil {
		real = "ack"
	}
	// what is durably committed: the peer's state as read from its data folder after the shutdown
	cfg := n.rp.RaftCfg
	r.stop(n)
	n.rp = nil
	off, oerr := raft.OfflineState(cfg, inmem.New())
	if oerr != nil {
		return fmt.Errorf("OfflineState: %v", oerr)
	}
	pins, oerr := off.List(context.Background())
	if oerr != nil {
		return oerr
	}
	got := r.gen.Project(pins, r.sc.Cids)
	committed := got["c1"] == "none"
	if isPin {
		committed = got["c1"] == id
	}
	r.emit("snapshot", "p", "p1", "st", got)
	if real == "ack" && !committed {
		r.violation("ack:not-committed:gate:"+c.Cls+":"+c.Kind, fmt.Sprintf("%s submitted at the leader returned nil (acknowledged) in schedule %s (%v) but the peer's durable state is %v: nothing was committed",
			c.Kind, c.Cls, c.Tour, got), 0)
		return nil
	}
	if real != c.Result {
		return fmt.Errorf("SPEC-DRIFT: schedule %s %s: the call returned %q (err=%v), the step model says %q (AckDurable holds: committed=%v)", c.Cls, c.Kind, real, err, c.Result, committed)
	}
	return nil
}

func TestCommitGate(t *testing.T) {
	rig.Quiet()
	res := hx.NewResult()
	defer res.Write()
	installHooks()
	installGate()
	cases, err := hx.LoadCases()
	if err != nil {
		t.Fatal(err)
	}
	base, err := ioutil.TempDir(os.Getenv("VERIF_WORK"), "c01gate-")
	if err != nil {
		t.Fatal(err)
	}
	defer os.RemoveAll(base)
	sem := make(chan struct{}, hx.EnvInt("VERIF_PAR", 6))
	var wg sync.WaitGroup
	runs := []*run{}
	for _, raw := range cases {
		var c gateCase
		if err := json.Unmarshal(raw, &c); err != nil {
			t.Fatal(err)
		}
		if _, isReplay := hx.ReplayCase(); isReplay {
			var w struct {
				Script struct {
					Gate gateCase `json:"gate"`
				} `json:"script"`
			}
			if json.Unmarshal(raw, &w) == nil && w.Script.Gate.Cls != "" {
				c = w.Script.Gate
			}
		}
		if c.Cls == "" {
			t.Fatal("no schedule")
		}
		sc := &scriptT{ID: 7000 + c.ID, Src: "gate", Prop: "C01", Peers: []string{"p1"}, Cids: []string{"c1"}}
		sc.Gate, _ = json.Marshal(c)
		names := hx.NewNames(hx.Seed()*1000003 + int64(sc.ID))
		gen := hx.NewPinGen(names, hx.Seed()*7919+int64(sc.ID))
		gen.TagKey = tagKey
		r := &run{res: res, sc: sc, prop: "C01", gen: gen, nodes: map[string]*node{}, current: map[string]string{},
			base: fmt.Sprintf("%s/run%d", base, sc.ID)}
		key, pid, err := rig.NewKey()
		if err != nil {
			t.Fatal(err)
		}
		r.nodes["p1"] = &node{name: "p1", key: key, id: pid, dir: r.base + "/p1"}
		names.SetPeer("p1", pid)
		r.emit("reset", "peers", sc.Peers, "cids", sc.Cids, "up", []string{"p1"})
		runs = append(runs, r)
		wg.Add(1)
		sem <- struct{}{}
		cc := c
		go func() {
			defer wg.Done()
			defer func() { <-sem }()
			if err := r.gateCase(&cc); err != nil {
				res.Infra("gate case %d (%s %s): %v", cc.ID, cc.Cls, cc.Kind, err)
			}
			res.Case(map[string]interface{}{"gate": cc}, cc.Cls == "S2")
			if !r.failed {
				res.AddTraces(1)
			}
		}()
	}
	wg.Wait()
	tp := os.Getenv("VERIF_TRACE")
	if tp == "" {
		tp = os.DevNull
	}
	f, err := os.Create(tp)
	if err != nil {
		t.Fatal(err)
	}
	defer f.Close()
	enc := json.NewEncoder(f)
	for _, r := range runs {
		for _, e := range r.events {
			enc.Encode(e)
		}
	}
}
