//go:build verifhooks
// +build verifhooks

package c17

import (
	"context"

	"github.com/ipfs/ipfs-cluster/api"
	"github.com/ipfs/ipfs-cluster/consensus/raft"
	"github.com/ipfs/ipfs-cluster/state"
	"github.com/ipfs/ipfs-cluster/state/dsstate"

	ds "github.com/ipfs/go-datastore"
	peer "github.com/libp2p/go-libp2p-core/peer"
)

// installHooks connects the add-only verif hooks of consensus/raft and
// state/dsstate (present in $VERIF_REPO when its verif_on.go files exist).
func installHooks() {
	hooksOn = true
	raft.VerifHook = func(ev string, pid peer.ID, st state.State, t raft.LogOpType, pin *api.Pin) {
		if ev != "Apply" {
			return
		}
		onApply(pid, func() ([]*api.Pin, error) { return st.List(context.Background()) }, t == raft.LogOpPin, pin)
	}
	dsstate.VerifHook = func(ev string, st *dsstate.State, store ds.Read) {
		if ev != "Unmarshal" {
			return
		}
		onUnmarshal(store, func() ([]*api.Pin, error) { return st.List(context.Background()) })
	}
}
