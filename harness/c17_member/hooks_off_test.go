//go:build !verifhooks
// +build !verifhooks

package c17

// Without the hooks only the API-level observations (R) are made.
func installHooks() {}
