package c17

// C01 "every pinset a peer SERVES is the result of a prefix of the committed
// sequence" under apply failures: behaviours of spec/RaftPinsetMC.tla with the
// ApplyFails action (TLC witnesses), projected on one peer, are executed on a
// real single-peer raft.Consensus whose pinset store (under dsstate) refuses
// the write of the entries TLC chose; after every operation the pinset is read
// through Consensus.State(): an error is fine, a pinset must be one of the
// prefix results TLC computed.

import (
	"context"
	"encoding/json"
	"fmt"
	"io/ioutil"
	"os"
	"testing"
	"time"

	"verifharness/hx"
	"verifharness/rig"

	ds "github.com/ipfs/go-datastore"
	peer "github.com/libp2p/go-libp2p-core/peer"
)

type servedOp struct {
	K    string `json:"k"`
	Cid  string `json:"cid"`
	V    string `json:"v"`
	Fail bool   `json:"fail"`
}

type servedCase struct {
	ID       int                 `json:"id"`
	Cids     []string            `json:"cids"`
	Ops      []servedOp          `json:"ops"`
	Prefixes []map[string]string `json:"prefixes"` // ApplyPrefix(n), n = 0..len(ops), computed by TLC
}

func (r *run) servedCase(c *servedCase) error {
	n := r.nodes["p1"]
	n.boot = true
	rp, err := rig.NewRaftPeer(rig.RaftOpts{Key: n.key, Dir: n.dir, FaultStore: true,
		BeforeConsensus: func(id peer.ID, store ds.Datastore) {
			regMu.Lock()
			byPeer[id] = r
			byStore[store] = r
			storeOf[store] = n.name
			regMu.Unlock()
		}})
	n.boot = false
	if err != nil {
		return err
	}
	n.rp, n.up = rp, true
	defer r.stop(n)
	ids := make([]string, len(c.Ops)+1) // op index (1-based) -> the variant (op id) used on the real peer
	// rename TLC's prefix result n to the real variants: the value of a CID is the one written by
	// the last pin of that (cid, value) among the first n operations
	project := func(pre map[string]string, n int) map[string]string {
		out := map[string]string{}
		for cid, v := range pre {
			out[cid] = v
			for j := n; j >= 1 && v != "none"; j-- {
				if o := c.Ops[j-1]; o.K == "pin" && o.Cid == cid && o.V == v {
					out[cid] = ids[j]
					break
				}
			}
		}
		return out
	}
	read := func(i int, when string) bool {
		ctx, cancel := context.WithTimeout(context.Background(), 20*time.Second)
		defer cancel()
		st, err := rp.Cons.State(ctx)
		if err != nil {
			r.emit("served", "p", "p1", "st", "error")
			return true // serving an error is allowed
		}
		l, err := st.List(ctx)
		if err != nil {
			return true
		}
		got := r.gen.Project(l, c.Cids)
		for n, pre := range c.Prefixes[:i+1] {
			if eqMap(got, project(pre, n)) {
				return true
			}
		}
		r.violation("served:not-a-prefix-result", fmt.Sprintf("%s the peer serves %v through Consensus.State(); no prefix of the %d committed operations gives that pinset (%v)",
			when, got, i, c.Ops[:i]), i)
		return false
	}
	for i, op := range c.Ops {
		// a successful read first: a peer that caches what it serves is then exposed
		if !read(i, fmt.Sprintf("before operation %d", i+1)) {
			return nil
		}
		if op.Fail {
			rp.Fault.Arm()
		}
		st := &stepT{A: op.K, At: "p1", C: op.Cid}
		id, err := r.submit(st, i+1, op.K == "pin")
		if op.Fail && rp.Fault.Disarm() {
			return fmt.Errorf("case %d: the injected write error was not reached by %s(%s)", c.ID, op.K, op.Cid)
		}
		_ = err // an unacknowledged operation is allowed; committed it is (single peer, raft applied it or failed to)
		ids[i+1] = id
		time.Sleep(50 * time.Millisecond)
		if !read(i+1, fmt.Sprintf("after operation %d (%s %s, write refused: %v)", i+1, op.K, op.Cid, op.Fail)) {
			return nil
		}
		r.res.Count(1)
	}
	return nil
}

func TestServedView(t *testing.T) {
	rig.Quiet()
	res := hx.NewResult()
	defer res.Write()
	installHooks()
	cases, err := hx.LoadCases()
	if err != nil {
		t.Fatal(err)
	}
	base, err := ioutil.TempDir(os.Getenv("VERIF_WORK"), "c01served-")
	if err != nil {
		t.Fatal(err)
	}
	defer os.RemoveAll(base)
	for _, raw := range cases {
		var c servedCase
		if err := json.Unmarshal(raw, &c); err != nil {
			t.Fatal(err)
		}
		if _, isReplay := hx.ReplayCase(); isReplay {
			var w struct {
				Script struct {
					Gate servedCase `json:"gate"`
				} `json:"script"`
			}
			if json.Unmarshal(raw, &w) == nil && len(w.Script.Gate.Ops) > 0 {
				c = w.Script.Gate
			}
		}
		sc := &scriptT{ID: 8000 + c.ID, Src: "served", Prop: "C01", Peers: []string{"p1"}, Cids: c.Cids}
		sc.Gate, _ = json.Marshal(c)
		names := hx.NewNames(hx.Seed()*1000003 + int64(sc.ID))
		gen := hx.NewPinGen(names, hx.Seed()*7919+int64(sc.ID))
		gen.TagKey = tagKey
		r := &run{res: res, sc: sc, prop: "C01", gen: gen, nodes: map[string]*node{}, current: map[string]string{},
			base: fmt.Sprintf("%s/run%d", base, sc.ID)}
		key, pid, err := rig.NewKey()
		if err != nil {
			t.Fatal(err)
		}
		r.nodes["p1"] = &node{name: "p1", key: key, id: pid, dir: r.base + "/p1"}
		names.SetPeer("p1", pid)
		if err := r.servedCase(&c); err != nil {
			res.Infra("served case %d: %v", c.ID, err)
		}
		hasFail := false
		for _, o := range c.Ops {
			hasFail = hasFail || o.Fail
		}
		res.Case(map[string]interface{}{"served": c.Ops}, hasFail)
		if !r.failed {
			res.AddTraces(1)
		}
	}
}
