// C06 (cluster-wide view): real Cluster.Status / Cluster.StatusAll on three real
// Cluster peers (loopback libp2p hosts, shared harness pinset, scripted pin
// trackers), with members unreachable, judged by TLC (spec/GlobalStatusObs.tla).
package c06g

import (
	"context"
	"encoding/json"
	"fmt"
	"os"
	"sort"
	"strings"
	"testing"
	"time"

	"verifharness/hx"
	"verifharness/rig"

	"github.com/ipfs/ipfs-cluster/api"

	cid "github.com/ipfs/go-cid"
	peer "github.com/libp2p/go-libp2p-core/peer"
	peerstore "github.com/libp2p/go-libp2p-core/peerstore"
)

type sit struct {
	Members    []string          `json:"members"`
	Everywhere bool              `json:"everywhere"`
	Allocs     []string          `json:"allocs"`
	Down       []string          `json:"down"`
	Report     map[string]string `json:"report"`
	InPinset   bool              `json:"inpinset"`
}

type rec struct {
	Call string            `json:"call"`
	Sit  sit               `json:"sit"`
	View map[string]string `json:"view"`
	By   string            `json:"by"`
}

func has(l []string, x string) bool {
	for _, y := range l {
		if y == x {
			return true
		}
	}
	return false
}

func TestDriver(t *testing.T) {
	rig.Quiet()
	res := hx.NewResult()
	defer res.Write()
	raw, err := hx.LoadCases()
	if err != nil {
		t.Fatal(err)
	}
	var sits []sit
	for _, r := range raw {
		var s sit
		if err := json.Unmarshal(r, &s); err != nil {
			t.Fatal(err)
		}
		sits = append(sits, s)
	}
	// group by down-set: a closed host cannot be reopened
	groups := map[string][]sit{}
	for _, s := range sits {
		d := append([]string{}, s.Down...)
		sort.Strings(d)
		groups[strings.Join(d, ",")] = append(groups[strings.Join(d, ",")], s)
	}
	tf, err := os.Create(os.Getenv("VERIF_TRACE"))
	if err != nil {
		t.Fatal(err)
	}
	defer tf.Close()
	enc := json.NewEncoder(tf)
	names := []string{"p1", "p2", "p3"}
	keys := []string{}
	for k := range groups {
		keys = append(keys, k)
	}
	sort.Strings(keys)
	ctx := context.Background()
	for _, k := range keys {
		shared := rig.NewSharedState()
		rigs := map[string]*rig.Rig{}
		nm := hx.NewNames(hx.Seed())
		var cur sit
		for _, n := range names {
			r, err := rig.NewRig(rig.Opts{Shared: shared})
			if err != nil {
				res.Infra("rig: %v", err)
				return
			}
			rigs[n] = r
			nm.SetPeer(n, r.ID)
			self := n
			r.Tracker.StatusOf = func(c cid.Cid) *api.PinInfo {
				st := api.TrackerStatusFromString(cur.Report[self])
				return &api.PinInfo{Cid: c, Peer: nm.Peer(self), PinInfoShort: api.PinInfoShort{Status: st, TS: time.Now()}}
			}
			r.Tracker.All = func(f api.TrackerStatus) []*api.PinInfo {
				var out []*api.PinInfo
				for _, p := range shared.Pins() {
					st := api.TrackerStatusRemote
					if cur.Everywhere || has(cur.Allocs, self) {
						st = api.TrackerStatusFromString(cur.Report[self])
					}
					out = append(out, &api.PinInfo{Cid: p.Cid, Peer: nm.Peer(self), PinInfoShort: api.PinInfoShort{Status: st, TS: time.Now()}})
				}
				return out
			}
		}
		for _, a := range names {
			for _, b := range names {
				if a != b {
					rigs[a].Host.Peerstore().AddAddrs(rigs[b].ID, rigs[b].Host.Addrs(), peerstore.PermanentAddrTTL)
				}
			}
		}
		down := []string{}
		if k != "" {
			down = strings.Split(k, ",")
		}
		for _, d := range down {
			rigs[d].Cluster.Shutdown(ctx)
			rigs[d].Host.Close()
		}
		ci := nm.Cid("c1")
		for _, s := range groups[k] {
			cur = s
			var by string
			for _, m := range s.Members {
				if !has(s.Down, m) {
					by = m
					break
				}
			}
			if by == "" {
				continue // nobody to ask
			}
			shared.Reset()
			shared.SetPeers(nm.Peers(s.Members))
			if s.InPinset {
				p := api.PinWithOpts(ci, api.PinOptions{ReplicationFactorMin: 1, ReplicationFactorMax: 3, Name: "g"})
				if s.Everywhere {
					p.ReplicationFactorMin, p.ReplicationFactorMax = -1, -1
				} else {
					p.Allocations = nm.Peers(s.Allocs)
				}
				shared.State.Add(ctx, p)
			}
			c := rigs[by].Cluster
			g, err := c.Status(ctx, ci)
			if err != nil {
				res.Infra("Status: %v", err)
				return
			}
			view := map[string]string{}
			for pstr, pi := range g.PeerMap {
				pid, _ := peer.Decode(pstr)
				view[nm.PeerName(pid)] = pi.Status.String()
			}
			enc.Encode(rec{Call: "status", Sit: s, View: view, By: by})
			res.Case(map[string]interface{}{"call": "status", "sit": s, "view": view}, len(s.Down) > 0 || !s.InPinset)
			if s.InPinset {
				gs, err := c.StatusAll(ctx, api.TrackerStatusUndefined)
				if err != nil {
					res.Infra("StatusAll: %v", err)
					return
				}
				view2 := map[string]string{}
				n := 0
				for _, g := range gs {
					if !g.Cid.Equals(ci) {
						continue
					}
					n++
					for pstr, pi := range g.PeerMap {
						pid, _ := peer.Decode(pstr)
						view2[nm.PeerName(pid)] = pi.Status.String()
					}
				}
				if n > 1 {
					view2["duplicate-entries"] = fmt.Sprint(n)
				}
				enc.Encode(rec{Call: "statusall", Sit: s, View: view2, By: by})
				res.Case(map[string]interface{}{"call": "statusall", "sit": s, "view": view2}, len(s.Down) > 0)
			}
		}
		for _, n := range names {
			if !has(down, n) {
				rigs[n].Close()
			}
		}
	}
}
