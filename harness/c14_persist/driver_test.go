// C14 driver: replays TLC-generated scripts of spec/Persist.tla on the real
// code and records, for every step, the inputs and the state projected from
// the real objects before and after.  The records are judged by TLC
// (spec/PersistTrace.tla); nothing is decided here.
//
//	xfer   real cmdutils state managers (raft: data folder in a temp dir; crdt:
//	       leveldb / badger store in a temp dir) ExportState -> ImportState,
//	       and dsstate Marshal -> Unmarshal
//	snap   raft.SnapshotSave, raft.OfflineState, a real raft.Consensus started
//	       on the saved snapshot
//	rot    raft.SnapshotSave / raft.CleanupRaft (dataBackupHelper.makeBackup)
//	       on a temp dir, listing after every step, folder contents identified
//	       by a marker pin read back with raft.OfflineState
//	pstore pstoremgr.Manager with real libp2p hosts
package c14

import (
	"bytes"
	"context"
	"crypto/ed25519"
	"crypto/sha256"
	"encoding/binary"
	"encoding/json"
	"fmt"
	"io"
	"io/ioutil"
	"math/rand"
	"os"
	"os/exec"
	"path/filepath"
	"runtime/debug"
	"sort"
	"strconv"
	"strings"
	"sync"
	"testing"
	"time"

	"verifharness/hx"
	"verifharness/rig"

	ipfscluster "github.com/ipfs/ipfs-cluster"
	"github.com/ipfs/ipfs-cluster/api"
	"github.com/ipfs/ipfs-cluster/cmdutils"
	"github.com/ipfs/ipfs-cluster/config"
	"github.com/ipfs/ipfs-cluster/consensus/crdt"
	"github.com/ipfs/ipfs-cluster/consensus/raft"
	"github.com/ipfs/ipfs-cluster/datastore/badger"
	"github.com/ipfs/ipfs-cluster/datastore/inmem"
	"github.com/ipfs/ipfs-cluster/datastore/leveldb"
	"github.com/ipfs/ipfs-cluster/pstoremgr"
	"github.com/ipfs/ipfs-cluster/state"
	"github.com/ipfs/ipfs-cluster/state/dsstate"

	hraft "github.com/hashicorp/raft"
	cid "github.com/ipfs/go-cid"
	ds "github.com/ipfs/go-datastore"
	query "github.com/ipfs/go-datastore/query"
	libp2p "github.com/libp2p/go-libp2p"
	crypto "github.com/libp2p/go-libp2p-core/crypto"
	peer "github.com/libp2p/go-libp2p-core/peer"
	peerstore "github.com/libp2p/go-libp2p-core/peerstore"
	rpc "github.com/libp2p/go-libp2p-gorpc"
	ma "github.com/multiformats/go-multiaddr"
	mh "github.com/multiformats/go-multihash"
)

// ---------------------------------------------------------------- scripts

type absEntry struct {
	C string `json:"c"`
	V string `json:"v"`
}

type dirState struct {
	Data string   `json:"data"`
	Old  []string `json:"old"`
}

type step struct {
	Act  string     `json:"act"`
	Ps   []absEntry `json:"ps"`
	Exp  *dirState  `json:"exp"`
	Keep int        `json:"keep"`
}

type bookEnt struct {
	P     string   `json:"p"`
	Addrs []string `json:"addrs"`
	Prio  int      `json:"prio"`
}

type junkLine struct {
	Pos  int    `json:"pos"`
	Kind string `json:"kind"`
}

type script struct {
	ID    int        `json:"id"`
	M     string     `json:"m"`
	Kind  string     `json:"kind"`
	SKind string     `json:"skind"`
	Path  string     `json:"path"`
	Src   []absEntry `json:"src"`
	Tgt0  []absEntry `json:"tgt0"`
	Steps []step     `json:"steps"`
	Keep  int        `json:"keep"`
	Old   []string   `json:"old"`
	Book  []bookEnt  `json:"book"`
	Junk  []junkLine `json:"junk"`
	Fault int        `json:"fault"`
	Iters int        `json:"iters"`
	NA    int        `json:"na"`
	NB    int        `json:"nb"`
	NT    bool       `json:"nontrivial"`
}

type entry struct {
	C string                 `json:"c"`
	V map[string]interface{} `json:"v"`
}

type line struct {
	T string `json:"t"`
	P string `json:"p"`
	K string `json:"k"`
}

type info struct {
	P     string   `json:"p"`
	Addrs []string `json:"addrs"`
}

// ---------------------------------------------------------------- environment

type env struct {
	seed  int64
	base  string
	mu    sync.Mutex
	tr    *hx.Tracer
	res   *hx.Result
	peers []peer.ID // allocation peers
}

func h64(parts ...interface{}) int64 {
	s := sha256.Sum256([]byte(fmt.Sprint(parts...)))
	return int64(binary.BigEndian.Uint64(s[:8]) >> 1)
}

func mkCid(tag string, parts ...interface{}) cid.Cid {
	sum := sha256.Sum256([]byte(tag + fmt.Sprint(parts...)))
	h, _ := mh.Encode(sum[:], mh.SHA2_256)
	switch sum[0] % 3 {
	case 0:
		return cid.NewCidV0(h)
	case 1:
		return cid.NewCidV1(cid.Raw, h)
	default:
		return cid.NewCidV1(cid.DagProtobuf, h)
	}
}

func keyFor(parts ...interface{}) (crypto.PrivKey, peer.ID) {
	sum := sha256.Sum256([]byte("key/" + fmt.Sprint(parts...)))
	priv := ed25519.NewKeyFromSeed(sum[:])
	k, err := crypto.UnmarshalEd25519PrivateKey(priv)
	if err != nil {
		panic(err)
	}
	id, err := peer.IDFromPrivateKey(k)
	if err != nil {
		panic(err)
	}
	return k, id
}

// names of one script: abstract CID name <-> concrete CID
type names struct {
	e    *env
	sid  int
	cids map[string]cid.Cid
	rev  map[string]string
}

func (e *env) names(sid int) *names {
	return &names{e: e, sid: sid, cids: map[string]cid.Cid{}, rev: map[string]string{}}
}

func (n *names) cid(name string) cid.Cid {
	if c, ok := n.cids[name]; ok {
		return c
	}
	c := mkCid("cid/", n.e.seed, n.sid, name)
	n.cids[name] = c
	n.rev[c.String()] = name
	return c
}

func (n *names) cidName(c cid.Cid) string {
	if s, ok := n.rev[c.String()]; ok {
		return s
	}
	return "?" + c.String()
}

var trickyNames = []string{"", "plain", "with space", "quote\"back\\slash", "uni-é世界", "new\nline", "{\"json\":1}", "null", strings.Repeat("x", 300)}

// pin makes the concrete, well-formed pin an abstract (cid, value) stands for:
// all pin types, both modes, several factor pairs, names, metadata, expiry at
// second granularity, allocations, references, update sources.  Mode always
// agrees with MaxDepth (the state stores the depth only), no user allocations
// (not part of the state), no origins (C08 codec defect, owned elsewhere).
func (n *names) pin(c, v string) *api.Pin {
	rng := rand.New(rand.NewSource(h64("pin", n.e.seed, n.sid, c, v)))
	p := &api.Pin{Cid: n.cid(c)}
	factors := [][2]int{{-1, -1}, {1, 1}, {1, 3}, {2, 3}, {0, 0}, {3, 5}}
	f := factors[rng.Intn(len(factors))]
	switch rng.Intn(7) {
	case 0, 1, 2:
		p.Type, p.MaxDepth, p.Mode = api.DataType, -1, api.PinModeRecursive
	case 3:
		p.Type, p.MaxDepth, p.Mode = api.DataType, 0, api.PinModeDirect
	case 4:
		p.Type, p.MaxDepth, p.Mode = api.MetaType, 0, api.PinModeDirect
		r := mkCid("ref/", n.e.seed, n.sid, c, v)
		p.Reference = &r
	case 5:
		p.Type, p.MaxDepth, p.Mode = api.ClusterDAGType, 0, api.PinModeDirect
		r := mkCid("ref/", n.e.seed, n.sid, c, v)
		p.Reference = &r
		f = [2]int{-1, -1}
	case 6:
		p.Type, p.MaxDepth, p.Mode = api.ShardType, 1, api.PinModeRecursive
		if rng.Intn(2) == 0 {
			r := mkCid("ref/", n.e.seed, n.sid, c, v)
			p.Reference = &r
		}
	}
	p.ReplicationFactorMin, p.ReplicationFactorMax = f[0], f[1]
	if f[0] > 0 {
		k := f[0] + rng.Intn(f[1]-f[0]+1)
		perm := rng.Perm(len(n.e.peers))
		for i := 0; i < k && i < len(perm); i++ {
			p.Allocations = append(p.Allocations, n.e.peers[perm[i]])
		}
	}
	p.Name = v + ":" + trickyNames[rng.Intn(len(trickyNames))]
	for i, k := 0, rng.Intn(4); i < k; i++ {
		if p.Metadata == nil {
			p.Metadata = map[string]string{}
		}
		p.Metadata[fmt.Sprintf("k%d-%s", rng.Intn(5), trickyNames[rng.Intn(5)])] = trickyNames[rng.Intn(len(trickyNames))]
	}
	switch rng.Intn(4) {
	case 0:
		p.ExpireAt = time.Unix(time.Now().Unix()+int64(rng.Intn(1000000)), 0)
	case 1:
		p.ExpireAt = time.Unix(1500000000+int64(rng.Intn(1000000)), 0) // already expired
	case 2:
		p.ExpireAt = time.Unix(4102444800+int64(rng.Intn(1000)), 0).UTC() // far future, UTC location
	}
	if rng.Intn(3) == 0 {
		p.ShardSize = uint64(rng.Int63())
	}
	if rng.Intn(4) == 0 {
		p.PinUpdate = mkCid("upd/", n.e.seed, n.sid, c, v)
	}
	return p
}

// proj projects a real pin, field by field, to the value the specification compares.
func (n *names) proj(p *api.Pin) entry {
	meta := [][]string{}
	for k, v := range p.Metadata {
		meta = append(meta, []string{k, v})
	}
	sort.Slice(meta, func(i, j int) bool { return meta[i][0] < meta[j][0] })
	allocs := []string{}
	for _, a := range p.Allocations {
		allocs = append(allocs, peer.Encode(a))
	}
	ua := []string{}
	for _, a := range p.UserAllocations {
		ua = append(ua, peer.Encode(a))
	}
	orig := []string{}
	for _, o := range p.Origins {
		if o == nil {
			orig = append(orig, "<nil>")
		} else {
			orig = append(orig, o.String())
		}
	}
	ref := ""
	if p.Reference != nil {
		ref = p.Reference.String()
	}
	upd := ""
	if p.PinUpdate.Defined() {
		upd = p.PinUpdate.String()
	}
	exp := "0"
	if !p.ExpireAt.IsZero() && p.ExpireAt.Unix() != 0 {
		exp = strconv.FormatInt(p.ExpireAt.Unix(), 10) + "." + strconv.Itoa(p.ExpireAt.Nanosecond())
	}
	return entry{C: n.cidName(p.Cid), V: map[string]interface{}{
		"cid": p.Cid.String(), "type": int(p.Type), "mode": int(p.Mode), "depth": int(p.MaxDepth),
		"rmin": p.ReplicationFactorMin, "rmax": p.ReplicationFactorMax, "name": p.Name, "meta": meta,
		"expire": exp, "allocs": allocs, "ua": ua, "origins": orig, "ref": ref, "update": upd,
		"shard": strconv.FormatUint(p.ShardSize, 10),
	}}
}

func (n *names) projAll(pins []*api.Pin) []entry {
	out := []entry{}
	for _, p := range pins {
		out = append(out, n.proj(p))
	}
	sort.Slice(out, func(i, j int) bool { return out[i].C < out[j].C })
	return out
}

func (n *names) pins(abs []absEntry) []*api.Pin {
	out := []*api.Pin{}
	for _, a := range abs {
		out = append(out, n.pin(a.C, a.V))
	}
	return out
}

func (e *env) emit(kv ...interface{}) {
	e.tr.Emit("step", kv...)
	e.res.Count(1) // one executed and recorded step
}

// guard runs an operation under test; a panic inside it is an outcome to be judged.
func guard(f func() error) (err error) {
	defer func() {
		if r := recover(); r != nil {
			err = fmt.Errorf("PANIC: %v", r)
		}
	}()
	return f()
}

func errStr(err error) string {
	if err == nil {
		return ""
	}
	return err.Error()
}

// ---------------------------------------------------------------- configs

func raftCfg(dataFolder string, keep int) *raft.Config {
	cfg := &raft.Config{}
	cfg.Default()
	cfg.DataFolder = dataFolder
	cfg.BackupsRotate = keep
	cfg.WaitForLeaderTimeout = 60 * time.Second
	cfg.RaftConfig.HeartbeatTimeout = 250 * time.Millisecond
	cfg.RaftConfig.ElectionTimeout = 250 * time.Millisecond
	cfg.RaftConfig.LeaderLeaseTimeout = 250 * time.Millisecond
	cfg.RaftConfig.CommitTimeout = 50 * time.Millisecond
	return cfg
}

func mkConfigs(base string, keep int, customNS bool) (*cmdutils.Configs, error) {
	cl := &ipfscluster.Config{}
	if err := cl.Default(); err != nil {
		return nil, err
	}
	cl.SetBaseDir(base)
	rc := raftCfg("", keep)
	rc.SetBaseDir(base)
	cc := &crdt.Config{}
	cc.Default()
	cc.SetBaseDir(base)
	bc := &badger.Config{}
	bc.Default()
	bc.SetBaseDir(base)
	lc := &leveldb.Config{}
	lc.Default()
	lc.SetBaseDir(base)
	if customNS { // otherwise the components' defaults, "/r" and "/c"
		rc.DatastoreNamespace = "/verif/raftns"
		cc.DatastoreNamespace = "/verif/crdtns"
	}
	return &cmdutils.Configs{Cluster: cl, Raft: rc, Crdt: cc, Badger: bc, LevelDB: lc}, nil
}

func stateMgr(kind, base string, ident *config.Identity, customNS bool) (cmdutils.StateManager, *cmdutils.Configs, error) {
	cfgs, err := mkConfigs(base, 3, customNS)
	if err != nil {
		return nil, nil, err
	}
	var m cmdutils.StateManager
	switch kind {
	case "raft":
		m, err = cmdutils.NewStateManager("raft", "", ident, cfgs)
	case "crdt-leveldb":
		m, err = cmdutils.NewStateManager("crdt", "leveldb", ident, cfgs)
	case "crdt-badger":
		m, err = cmdutils.NewStateManager("crdt", "badger", ident, cfgs)
	default:
		err = fmt.Errorf("unknown kind %s", kind)
	}
	return m, cfgs, err
}

// namespaces the real consensus components keep their state under, plus none
var namespaces = []string{"", raft.DefaultDatastoreNamespace, crdt.DefaultDatastoreNamespace}

func memState(pins []*api.Pin) (state.State, error) {
	return nsState(inmem.New(), "", pins)
}

func nsState(store ds.Datastore, ns string, pins []*api.Pin) (state.State, error) {
	st, err := dsstate.New(store, ns, dsstate.DefaultHandle())
	if err != nil {
		return nil, err
	}
	for _, p := range pins {
		if err := st.Add(context.Background(), p); err != nil {
			return nil, err
		}
	}
	return st, nil
}

// populate puts pins into the state a manager manages, by the means a running
// peer would have: a Raft snapshot in the data folder, or committed CRDT deltas.
func populate(kind string, m cmdutils.StateManager, cfgs *cmdutils.Configs, ident *config.Identity, pins []*api.Pin) error {
	ctx := context.Background()
	if kind == "raft" {
		if len(pins) == 0 {
			return nil // an empty Raft peer has no snapshot at all
		}
		st, err := memState(pins)
		if err != nil {
			return err
		}
		return raft.SnapshotSave(cfgs.Raft, st, []peer.ID{ident.ID})
	}
	if len(pins) == 0 {
		return nil // nothing was ever committed on this peer
	}
	store, err := m.GetStore()
	if err != nil {
		return err
	}
	defer store.Close()
	st, err := m.GetOfflineState(store)
	if err != nil {
		return err
	}
	for _, p := range pins {
		if err := st.Add(ctx, p); err != nil {
			return err
		}
	}
	if bs, ok := st.(state.BatchingState); ok {
		return bs.Commit(ctx)
	}
	return nil
}

func listMgr(m cmdutils.StateManager) ([]*api.Pin, error) {
	store, err := m.GetStore()
	if err != nil {
		return nil, err
	}
	defer store.Close()
	st, err := m.GetOfflineState(store)
	if err != nil {
		return nil, err
	}
	return st.List(context.Background())
}

// ---------------------------------------------------------------- (a) xfer

func (e *env) runXfer(s *script) error {
	n := e.names(s.ID)
	dir, err := ioutil.TempDir(e.base, "xfer-")
	if err != nil {
		return err
	}
	defer os.RemoveAll(dir)
	srcPins := n.pins(s.Src)
	tgtPins := n.pins(s.Tgt0)
	src := n.projAll(srcPins)

	if s.Path == "serial" && s.Fault > 0 {
		return e.runMarshalFault(s, n, dir, srcPins, src)
	}
	if s.Path == "serial" {
		rng := rand.New(rand.NewSource(h64("serial", e.seed, s.ID)))
		// (1) dsstate Marshal -> Unmarshal, source and target under seeded namespaces
		nsA, nsB := namespaces[rng.Intn(len(namespaces))], namespaces[rng.Intn(len(namespaces))]
		a, err := nsState(inmem.New(), nsA, srcPins)
		if err != nil {
			return err
		}
		b, err := nsState(inmem.New(), nsB, tgtPins)
		if err != nil {
			return err
		}
		pre, err := b.List(context.Background())
		if err != nil {
			return err
		}
		var buf bytes.Buffer
		opErr := guard(func() error {
			if err := a.(*dsstate.State).Marshal(&buf); err != nil {
				return err
			}
			return b.(*dsstate.State).Unmarshal(&buf)
		})
		post, err := b.List(context.Background())
		if err != nil {
			return err
		}
		e.emit("sid", s.ID, "m", "xfer", "act", "Reserialize", "via", "dsstate", "src", src, "pre", n.projAll(pre),
			"post", n.projAll(post), "err", errStr(opErr), "fresh", len(pre) == 0, "ns", nsA+">"+nsB)

		// (2) the same through Raft: SnapshotSave, then OfflineState into a store that already holds the
		// target's pins under the namespace of the Raft configuration (default "/r" or a custom one)
		folder := filepath.Join(dir, "raft")
		cfg := raftCfg(folder, 3)
		if rng.Intn(3) == 0 {
			cfg.DatastoreNamespace = "/verif/ns"
		}
		_, id := keyFor("serial", e.seed, s.ID)
		sst, err := nsState(inmem.New(), nsA, srcPins)
		if err != nil {
			return err
		}
		store := inmem.New()
		tst, err := nsState(store, cfg.DatastoreNamespace, tgtPins)
		if err != nil {
			return err
		}
		pre2, err := tst.List(context.Background())
		if err != nil {
			return err
		}
		var post2 []*api.Pin
		opErr = guard(func() error {
			if err := raft.SnapshotSave(cfg, sst, []peer.ID{id}); err != nil {
				return err
			}
			ost, err := raft.OfflineState(cfg, store)
			if err != nil {
				return err
			}
			post2, err = ost.List(context.Background())
			return err
		})
		e.emit("sid", s.ID, "m", "xfer", "act", "Reserialize", "via", "snapshot", "src", src, "pre", n.projAll(pre2),
			"post", n.projAll(post2), "err", errStr(opErr), "fresh", len(pre2) == 0, "ns", nsA+">"+cfg.DatastoreNamespace)
		return nil
	}

	// export / import rounds: every import, re-export and read goes through ONE target manager
	privB, idB := keyFor("xferB", e.seed, s.ID)
	identB := &config.Identity{ID: idB}
	db := filepath.Join(dir, "b")
	os.MkdirAll(db, 0700)
	mb, cfB, err := stateMgr(s.Kind, db, identB, h64("nsB", e.seed, s.ID)%4 == 0)
	if err != nil {
		return err
	}
	if err := populate(s.Kind, mb, cfB, identB, tgtPins); err != nil {
		return fmt.Errorf("populate target: %v", err)
	}
	steps := s.Steps
	if len(steps) == 0 { // old script format: one round
		steps = []step{{Act: "Export", Ps: s.Src}, {Act: "Import"}}
	}
	skinds := []string{"raft", "crdt-leveldb", "raft", "crdt-badger", "crdt-leveldb"}
	rng := rand.New(rand.NewSource(h64("rounds", e.seed, s.ID)))
	decode := func(b []byte, opErr error) ([]entry, error) {
		stream := []entry{}
		dec := json.NewDecoder(bytes.NewReader(b))
		for {
			var p api.Pin
			err := dec.Decode(&p)
			if err == io.EOF {
				break
			}
			if err != nil {
				if opErr == nil {
					opErr = fmt.Errorf("stream does not decode: %v", err)
				}
				break
			}
			stream = append(stream, n.proj(&p))
		}
		return stream, opErr
	}
	var buf bytes.Buffer
	var stream, cur []entry
	skind := s.SKind
	round := 0
	for _, st := range steps {
		switch st.Act {
		case "Export": // on another peer ("elsewhere"), a fresh one per round
			round++
			if round > 1 || skind == "" {
				skind = skinds[rng.Intn(len(skinds))]
			}
			_, idA := keyFor("xferA", e.seed, s.ID, round)
			identA := &config.Identity{ID: idA}
			da := filepath.Join(dir, fmt.Sprintf("a%d", round))
			os.MkdirAll(da, 0700)
			ma_, cfA, err := stateMgr(skind, da, identA, h64("nsA", e.seed, s.ID, round)%4 == 0)
			if err != nil {
				return err
			}
			pins := n.pins(st.Ps)
			if round > 1 { // later rounds carry other values than the first
				pins = nil
				for _, a := range st.Ps {
					pins = append(pins, n.pin(a.C, fmt.Sprintf("%s.r%d", a.V, round)))
				}
			}
			if err := populate(skind, ma_, cfA, identA, pins); err != nil {
				return fmt.Errorf("populate source: %v", err)
			}
			cur = n.projAll(pins)
			buf.Reset()
			expErr := guard(func() error { return ma_.ExportState(&buf) })
			stream, expErr = decode(buf.Bytes(), expErr)
			e.emit("sid", s.ID, "m", "xfer", "act", "Export", "kind", s.Kind, "skind", skind, "src", cur, "stream", stream,
				"err", errStr(expErr), "round", round)
		case "Import":
			pre, err := listMgr(mb)
			if err != nil {
				return fmt.Errorf("list target before import: %v", err)
			}
			impErr := guard(func() error { return mb.ImportState(bytes.NewReader(buf.Bytes())) })
			post, err := listMgr(mb)
			if err != nil && impErr == nil {
				impErr = fmt.Errorf("target unreadable after import: %v", err)
			}
			e.emit("sid", s.ID, "m", "xfer", "act", "Import", "kind", s.Kind, "skind", skind, "src", cur, "stream", stream,
				"pre", n.projAll(pre), "post", n.projAll(post), "err", errStr(impErr), "round", round)
		case "ReExport": // the manager that imported exports: the stream must be what it holds
			held, err := listMgr(mb)
			if err != nil {
				return fmt.Errorf("list target before re-export: %v", err)
			}
			var b2 bytes.Buffer
			expErr := guard(func() error { return mb.ExportState(&b2) })
			st2, expErr := decode(b2.Bytes(), expErr)
			e.emit("sid", s.ID, "m", "xfer", "act", "Export", "kind", s.Kind, "skind", s.Kind, "src", n.projAll(held), "stream", st2,
				"err", errStr(expErr), "round", round, "reexport", true)
		default:
			return fmt.Errorf("xfer: unknown action %q", st.Act)
		}
	}
	// the imported state is a Raft snapshot: a peer started on it must hold the pinset
	if s.Kind == "raft" && round > 0 && (hx.Thorough() || h64("startpeer", e.seed, s.ID)%3 == 0) {
		got, opErr, infra := startPeer(cfB.Raft.GetDataFolder(), privB, cfB.Raft.DatastoreNamespace, nil)
		if infra != nil {
			got, opErr, infra = startPeer(cfB.Raft.GetDataFolder(), privB, cfB.Raft.DatastoreNamespace, nil)
		}
		if infra != nil {
			return infra
		}
		e.emit("sid", s.ID, "m", "xfer", "act", "StartPeer", "saved", cur, "got", n.projAll(got), "err", errStr(opErr), "afterimport", true)
	}
	return nil
}

// faultyDS is a datastore whose queries yield an error in place of their k-th result.
type faultyDS struct {
	ds.Datastore
	k int
}

func (f *faultyDS) Query(q query.Query) (query.Results, error) {
	res, err := f.Datastore.Query(q)
	if err != nil {
		return nil, err
	}
	all, err := res.Rest()
	if err != nil {
		return nil, err
	}
	out := make([]query.Result, 0, len(all))
	for i, en := range all {
		if i+1 == f.k {
			out = append(out, query.Result{Error: fmt.Errorf("verif: injected failure of query result %d", f.k)})
			continue
		}
		out = append(out, query.Result{Entry: en})
	}
	i := 0
	return query.ResultsFromIterator(q, query.Iterator{
		Next: func() (query.Result, bool) {
			if i >= len(out) {
				return query.Result{}, false
			}
			i++
			return out[i-1], true
		},
		Close: func() error { return nil },
	}), nil
}

// runMarshalFault: Marshal (directly, and under SnapshotSave) and List (what ExportState does) over a
// datastore whose query fails at the k-th result.  Outcome: ok + what the dump deserialises to.
func (e *env) runMarshalFault(s *script, n *names, dir string, srcPins []*api.Pin, src []entry) error {
	ctx := context.Background()
	ns := namespaces[int(h64("fns", e.seed, s.ID)%int64(len(namespaces)))]
	for _, via := range []string{"dsstate", "snapshot", "list"} {
		fds := &faultyDS{Datastore: inmem.New(), k: s.Fault}
		a2, err := dsstate.New(fds, ns, dsstate.DefaultHandle())
		if err != nil {
			return err
		}
		for _, p := range srcPins {
			if err := a2.Add(ctx, p); err != nil {
				return err
			}
		}
		var got []*api.Pin
		var opErr error
		switch via {
		case "dsstate":
			var buf bytes.Buffer
			opErr = guard(func() error { return a2.Marshal(&buf) })
			if opErr == nil {
				b, err := dsstate.New(inmem.New(), "", dsstate.DefaultHandle())
				if err != nil {
					return err
				}
				if err := b.Unmarshal(&buf); err != nil {
					opErr = fmt.Errorf("dump reported success but does not deserialise: %v", err)
				} else if got, err = b.List(ctx); err != nil {
					return err
				}
			}
		case "snapshot":
			cfg := raftCfg(filepath.Join(dir, "fraft"), 3)
			_, id := keyFor("fault", e.seed, s.ID)
			opErr = guard(func() error { return raft.SnapshotSave(cfg, a2, []peer.ID{id}) })
			if opErr == nil {
				ost, err := raft.OfflineState(cfg, inmem.New())
				if err != nil {
					opErr = fmt.Errorf("snapshot reported success but does not read back: %v", err)
				} else if got, err = ost.List(ctx); err != nil {
					return err
				}
			}
		case "list":
			opErr = guard(func() error {
				var err error
				got, err = a2.List(ctx)
				return err
			})
			if opErr != nil {
				got = nil
			}
		}
		e.emit("sid", s.ID, "m", "xfer", "act", "Marshal", "via", via, "src", src, "fault", s.Fault, "ok", opErr == nil,
			"got", n.projAll(got), "err", errStr(opErr), "ns", ns)
	}
	return nil
}

// ---------------------------------------------------------------- (b) snap

func snapMeta(folder string) (bool, int, int) {
	if _, err := os.Stat(filepath.Join(folder, "snapshots")); err != nil {
		return false, 0, 0
	}
	store, err := hraft.NewFileSnapshotStore(folder, 5, ioutil.Discard)
	if err != nil {
		return false, 0, 0
	}
	metas, err := store.List()
	if err != nil || len(metas) == 0 {
		return false, 0, 0
	}
	return true, int(metas[0].Index), int(metas[0].Term)
}

func startPeer(folder string, priv crypto.PrivKey, ns string, stray []*api.Pin) ([]*api.Pin, error, error) {
	ctx := context.Background()
	h, err := libp2p.New(ctx, libp2p.Identity(priv), libp2p.ListenAddrStrings("/ip4/127.0.0.1/tcp/0"))
	if err != nil {
		return nil, nil, err
	}
	defer h.Close()
	cfg := raftCfg(folder, 3)
	if ns != "" {
		cfg.DatastoreNamespace = ns
	}
	store := inmem.New()
	if len(stray) > 0 { // the store is not empty when the snapshot gets restored
		if _, err := nsState(store, cfg.DatastoreNamespace, stray); err != nil {
			return nil, nil, err
		}
	}
	cc, err := raft.NewConsensus(h, cfg, store, false)
	if err != nil {
		return nil, err, nil
	}
	defer cc.Shutdown(ctx)
	cc.SetClient(rpc.NewClientWithServer(h, "/verif/c14/0.0.1", rpc.NewServer(h, "/verif/c14/0.0.1")))
	select {
	case <-cc.Ready(ctx):
	case <-time.After(90 * time.Second):
		return nil, nil, fmt.Errorf("raft peer not ready within 90s")
	}
	st, err := cc.State(ctx)
	if err != nil {
		return nil, err, nil
	}
	pins, err := st.List(ctx)
	return pins, err, nil
}

func (e *env) runSnap(s *script) error {
	n := e.names(s.ID)
	dir, err := ioutil.TempDir(e.base, "snap-")
	if err != nil {
		return err
	}
	defer os.RemoveAll(dir)
	folder := filepath.Join(dir, "raft")
	cfg := raftCfg(folder, 3)
	priv, id := keyFor("snap", e.seed, s.ID)
	saved := []entry{}
	for _, st := range s.Steps {
		switch st.Act {
		case "SnapSave":
			pins := n.pins(st.Ps)
			ms, err := memState(pins)
			if err != nil {
				return err
			}
			had, pi, pt := snapMeta(folder)
			opErr := guard(func() error { return raft.SnapshotSave(cfg, ms, []peer.ID{id}) })
			_, i2, t2 := snapMeta(folder)
			saved = n.projAll(pins)
			e.emit("sid", s.ID, "m", "snap", "act", "SnapSave", "saved", saved, "had", had, "preidx", pi, "preterm", pt,
				"idx", i2, "term", t2, "err", errStr(opErr))
		case "Offline":
			var got []*api.Pin
			opErr := guard(func() error {
				ost, err := raft.OfflineState(cfg, inmem.New())
				if err != nil {
					return err
				}
				got, err = ost.List(context.Background())
				return err
			})
			e.emit("sid", s.ID, "m", "snap", "act", "Offline", "saved", saved, "got", n.projAll(got), "err", errStr(opErr))
		case "StartPeer":
			// every other peer is started on a store that already holds a pin the snapshot does not have
			// (only when there is a snapshot to restore: otherwise the store IS the state)
			var stray []*api.Pin
			if had, _, _ := snapMeta(folder); had && h64("stray", e.seed, s.ID)%2 == 0 {
				stray = []*api.Pin{n.pin("c9", "vS")}
			}
			got, opErr, infra := startPeer(folder, priv, "", stray)
			if infra != nil {
				got, opErr, infra = startPeer(folder, priv, "", stray) // once more (loaded machine)
			}
			if infra != nil {
				return infra
			}
			e.emit("sid", s.ID, "m", "snap", "act", "StartPeer", "saved", saved, "got", n.projAll(got), "err", errStr(opErr),
				"dirty", len(stray) > 0)
			// the peer took a snapshot when it shut down: the folder must still read the same
			var again []*api.Pin
			opErr = guard(func() error {
				ost, err := raft.OfflineState(cfg, inmem.New())
				if err != nil {
					return err
				}
				again, err = ost.List(context.Background())
				return err
			})
			e.emit("sid", s.ID, "m", "snap", "act", "Offline", "saved", saved, "got", n.projAll(again), "err", errStr(opErr), "afterpeer", true)
		default:
			return fmt.Errorf("snap: unknown action %q", st.Act)
		}
	}
	return nil
}

// ---------------------------------------------------------------- (c) rot

func (e *env) markerState(n *names, marker string) (state.State, error) {
	p := api.PinCid(n.cid(marker))
	p.Name = marker
	return memState([]*api.Pin{p})
}

// content identifies what a folder holds: "absent", "nosnap" or the marker of its snapshot.
func content(n *names, folder string) (string, error) {
	if _, err := os.Stat(folder); os.IsNotExist(err) {
		return "absent", nil
	}
	cfg := raftCfg(folder, 1)
	_, found, err := raft.LastStateRaw(cfg)
	if err != nil {
		return "", err
	}
	if !found {
		return "nosnap", nil
	}
	st, err := raft.OfflineState(cfg, inmem.New())
	if err != nil {
		return "", err
	}
	pins, err := st.List(context.Background())
	if err != nil {
		return "", err
	}
	if len(pins) != 1 {
		return fmt.Sprintf("?%d-pins", len(pins)), nil
	}
	return n.cidName(pins[0].Cid), nil
}

func listDirs(n *names, base string, maxIdx int) (*dirState, []string, error) {
	d := &dirState{Old: make([]string, maxIdx+1)}
	var err error
	if d.Data, err = content(n, filepath.Join(base, "raft")); err != nil {
		return nil, nil, err
	}
	known := map[string]bool{"raft": true}
	for i := 0; i <= maxIdx; i++ {
		nm := fmt.Sprintf("raft.old.%d", i)
		known[nm] = true
		if d.Old[i], err = content(n, filepath.Join(base, nm)); err != nil {
			return nil, nil, err
		}
	}
	extra := []string{}
	ents, err := ioutil.ReadDir(base)
	if err != nil {
		return nil, nil, err
	}
	for _, en := range ents {
		if !known[en.Name()] {
			extra = append(extra, en.Name())
		}
	}
	return d, extra, nil
}

func (e *env) runRot(s *script) error {
	n := e.names(s.ID)
	base, err := ioutil.TempDir(e.base, "rot-")
	if err != nil {
		return err
	}
	defer os.RemoveAll(base)
	_, id := keyFor("rot", e.seed, s.ID)
	maxIdx := len(s.Old) - 1 // data.old.0 .. data.old.maxIdx are watched (two-digit in the wide scripts)
	for i := 0; i <= maxIdx; i++ {
		n.cid(fmt.Sprintf("b%d", i))
	}
	for i := 1; i <= 40; i++ {
		n.cid(fmt.Sprintf("s%d", i))
	}
	// pre-existing backups: genuine Raft data folders, each holding a snapshot with its marker
	for i, c := range s.Old {
		if c == "absent" {
			continue
		}
		st, err := e.markerState(n, c)
		if err != nil {
			return err
		}
		if err := raft.SnapshotSave(raftCfg(filepath.Join(base, fmt.Sprintf("raft.old.%d", i)), s.Keep), st, []peer.ID{id}); err != nil {
			return err
		}
	}
	cfg := raftCfg(filepath.Join(base, "raft"), s.Keep)
	pre, extra, err := listDirs(n, base, maxIdx)
	if err != nil {
		return err
	}
	if len(extra) > 0 || pre.Data != "absent" || fmt.Sprint(pre.Old) != fmt.Sprint(s.Old) {
		return fmt.Errorf("rot: could not construct the initial folders %v (got %v %v)", s.Old, pre, extra)
	}
	nsave := 0
	for _, st := range s.Steps {
		var opErr error
		marker := ""
		switch st.Act {
		case "RotSave":
			nsave++
			marker = fmt.Sprintf("s%d", nsave)
			ms, err := e.markerState(n, marker)
			if err != nil {
				return err
			}
			opErr = guard(func() error { return raft.SnapshotSave(cfg, ms, []peer.ID{id}) })
		case "RotClean":
			opErr = guard(func() error { return raft.CleanupRaft(cfg) })
		case "RotRekeep":
			cfg.BackupsRotate = st.Keep
		case "RotMkLogs":
			if err := os.MkdirAll(filepath.Join(base, "raft"), 0700); err != nil {
				return err
			}
			if err := ioutil.WriteFile(filepath.Join(base, "raft", "raft.db"), []byte("not a snapshot"), 0600); err != nil {
				return err
			}
		default:
			return fmt.Errorf("rot: unknown action %q", st.Act)
		}
		post, extra, err := listDirs(n, base, maxIdx)
		if err != nil {
			return err
		}
		e.emit("sid", s.ID, "m", "rot", "act", st.Act, "keep", cfg.BackupsRotate, "marker", marker, "pre", pre, "post", post,
			"exp", st.Exp, "extra", extra, "err", errStr(opErr))
		pre = post
	}
	return nil
}

// ---------------------------------------------------------------- (d) pstore

type addrBook struct {
	ids   map[string]peer.ID
	rid   map[peer.ID]string
	addrs map[string]line // concrete address string (with /p2p) -> line
}

func concreteAddr(kind, pname string, idx int) string {
	switch kind {
	case "dns4":
		return fmt.Sprintf("/dns4/%s.cluster.example.com/tcp/9096", pname)
	case "dns6":
		return fmt.Sprintf("/dns6/%s.cluster.example.com/tcp/9096", pname)
	case "ip4":
		return fmt.Sprintf("/ip4/10.0.%d.1/tcp/9096", idx)
	case "ip4b":
		return fmt.Sprintf("/ip4/10.0.%d.2/tcp/9097", idx)
	case "ip6":
		return fmt.Sprintf("/ip6/fd00::%d/tcp/9096", idx)
	}
	return "/ip4/127.0.0.9/tcp/1"
}

var junkText = map[string][]string{
	"garbage": {"this is not an address", "# peers", "192.168.1.7:9096", "ip4/1.2.3.4/tcp/1", " /ip4/1.2.3.4/tcp/9096"},
	"empty":   {""},
	"badma":   {"/ip4/999.0.0.1/tcp/9096", "/ip4/1.2.3.4/tcp/9096/p2p/notapeerid", "/nonsense/1", "/", "/ip4/1.2.3.4/tcp"},
	// the last one ends in CR: bufio.ScanLines drops it, the line is a well-formed address of a CRLF file
	"nop2p":   {"/ip4/10.9.9.9/tcp/9096", "/dns4/nobody.example.com/tcp/9096", "/ip4/10.9.9.8/tcp/9096\r"},
	"toolong": {strings.Repeat("x", 70000), "/ip4/1.2.3.4/tcp/9096/p2p/" + strings.Repeat("Q", 70000)},
}

func classify(ab *addrBook, s string, junk map[string]string) line {
	if l, ok := ab.addrs[s]; ok {
		return l
	}
	if k, ok := junk[s]; ok {
		return line{T: k}
	}
	return line{T: "?" + s}
}

func (e *env) runPstore(s *script) error {
	ctx := context.Background()
	dir, err := ioutil.TempDir(e.base, "ps-")
	if err != nil {
		return err
	}
	defer os.RemoveAll(dir)
	path := filepath.Join(dir, "peerstore")
	rng := rand.New(rand.NewSource(h64("pstore", e.seed, s.ID)))
	ab := &addrBook{ids: map[string]peer.ID{}, rid: map[peer.ID]string{}, addrs: map[string]line{}}
	keyA, idA := keyFor("pstore", e.seed, s.ID, "p1")
	keyB, idB := keyFor("pstore", e.seed, s.ID, "q")
	ab.ids["p1"], ab.rid[idA] = idA, "p1"
	ab.ids["q"], ab.rid[idB] = idB, "q"
	hA, err := libp2p.New(ctx, libp2p.Identity(keyA), libp2p.NoListenAddrs)
	if err != nil {
		return err
	}
	defer hA.Close()
	hB, err := libp2p.New(ctx, libp2p.Identity(keyB), libp2p.NoListenAddrs)
	if err != nil {
		return err
	}
	defer hB.Close()
	pmA := pstoremgr.New(ctx, hA, path)
	peers := []peer.ID{}
	pnames := []string{}
	for i, b := range s.Book {
		id, ok := ab.ids[b.P]
		if !ok {
			_, id = keyFor("pstore", e.seed, s.ID, b.P)
			ab.ids[b.P], ab.rid[id] = id, b.P
		}
		peers = append(peers, id)
		pnames = append(pnames, b.P)
		var mas []ma.Multiaddr
		for _, k := range b.Addrs {
			cs := concreteAddr(k, b.P, i+1)
			a, err := ma.NewMultiaddr(cs)
			if err != nil {
				return err
			}
			mas = append(mas, a)
			ab.addrs[cs+"/p2p/"+peer.Encode(id)] = line{T: "addr", P: b.P, K: k}
		}
		rng.Shuffle(len(mas), func(x, y int) { mas[x], mas[y] = mas[y], mas[x] })
		if len(mas) > 0 {
			hA.Peerstore().AddAddrs(id, mas, peerstore.PermanentAddrTTL)
		}
		if b.Prio >= 0 {
			pmA.SetPriority(id, b.Prio)
		}
	}
	rng.Shuffle(len(peers), func(x, y int) { peers[x], peers[y] = peers[y], peers[x] })

	projInfos := func(pis []peer.AddrInfo) []info {
		out := []info{}
		for _, pi := range pis {
			in := info{P: "?" + peer.Encode(pi.ID), Addrs: []string{}}
			if nm, ok := ab.rid[pi.ID]; ok {
				in.P = nm
			}
			for _, a := range pi.Addrs {
				l := classify(ab, a.String()+"/p2p/"+peer.Encode(pi.ID), nil)
				if l.T == "addr" && l.P == in.P {
					in.Addrs = append(in.Addrs, l.K)
				} else {
					in.Addrs = append(in.Addrs, "?"+a.String())
				}
			}
			out = append(out, in)
		}
		return out
	}
	readFile := func(junk map[string]string) ([]line, []string, error) {
		b, err := ioutil.ReadFile(path)
		if err != nil {
			return nil, nil, err
		}
		raw := strings.Split(string(b), "\n")
		if len(raw) > 0 && raw[len(raw)-1] == "" {
			raw = raw[:len(raw)-1]
		}
		out := []line{}
		for _, r := range raw {
			out = append(out, classify(ab, r, junk))
		}
		return out, raw, nil
	}

	// Save (what Cluster.Shutdown does: SavePeerstoreForPeers = PeerInfos + SavePeerstore)
	var infos []peer.AddrInfo
	saveErr := guard(func() error {
		infos = pmA.PeerInfos(peers)
		return pmA.SavePeerstore(infos)
	})
	file, raw, err := readFile(nil)
	if err != nil {
		return err
	}
	pinfos := projInfos(infos)
	e.emit("sid", s.ID, "m", "pstore", "act", "PSave", "book", s.Book, "peers", pnames, "self", "p1",
		"infos", pinfos, "file", file, "err", errStr(saveErr))

	// somebody edits the file
	junk := map[string]string{}
	for _, j := range s.Junk {
		opts := junkText[j.Kind]
		txt := opts[rng.Intn(len(opts))]
		for junk[txt] != "" && junk[txt] != j.Kind {
			txt += " "
		}
		junk[txt] = j.Kind
		junk[strings.TrimRight(txt, "\r")] = j.Kind
		pos := j.Pos
		if pos > len(raw) {
			pos = len(raw)
		}
		raw = append(raw[:pos], append([]string{txt}, raw[pos:]...)...)
	}
	if len(s.Junk) > 0 {
		if err := ioutil.WriteFile(path, []byte(strings.Join(raw, "\n")+"\n"), 0600); err != nil {
			return err
		}
		if file, _, err = readFile(junk); err != nil {
			return err
		}
	}

	jkset := map[string]bool{}
	for _, j := range s.Junk {
		jkset[j.Kind] = true
	}
	jks := []string{}
	for k := range jkset {
		jks = append(jks, k)
	}
	sort.Strings(jks)
	jk := strings.Join(jks, "+")
	if jk == "" {
		jk = "clean-file"
	}

	// Load on a fresh peer
	pmB := pstoremgr.New(ctx, hB, path)
	loaded := []line{}
	fatal := ""
	func() {
		defer func() {
			if r := recover(); r != nil {
				fatal = fmt.Sprint(r)
			}
		}()
		for _, a := range pmB.LoadPeerstore() {
			if a == nil {
				loaded = append(loaded, line{T: "nil"})
				continue
			}
			loaded = append(loaded, classify(ab, a.String(), junk))
		}
	}()
	e.emit("sid", s.ID, "m", "pstore", "act", "PLoad", "file", file, "loaded", loaded, "fatal", fatal != "", "panic", fatal,
		"junk", len(s.Junk), "jk", jk)

	// Import (what the daemon does at start-up), then list everybody in priority order
	fatal = ""
	var infos2 []peer.AddrInfo
	func() {
		defer func() {
			if r := recover(); r != nil {
				fatal = fmt.Sprint(r)
			}
		}()
		pmB.ImportPeersFromPeerstore(false, peerstore.PermanentAddrTTL)
		all := append([]peer.ID{}, peers...)
		all = append(all, idB)
		infos2 = pmB.PeerInfos(all)
	}()
	pinfos2 := projInfos(infos2)
	// the import step is judged against what a (non-fatal) load returns
	loadedOK := []line{}
	for _, l := range loaded {
		if l.T != "nil" {
			loadedOK = append(loadedOK, l)
		}
	}
	e.emit("sid", s.ID, "m", "pstore", "act", "PImport", "loaded", loadedOK, "self2", "q", "infos2", pinfos2,
		"fatal", fatal != "", "panic", fatal, "junk", len(s.Junk), "jk", jk)
	if fatal == "" {
		e.emit("sid", s.ID, "m", "pstore", "act", "PRound", "infos", pinfos, "infos2", pinfos2, "junk", len(s.Junk), "jk", jk)
	}
	return nil
}

// ---------------------------------------------------------------- (e) plock

type seg struct {
	L    string `json:"l"`
	From int    `json:"from"`
	To   int    `json:"to"`
}

// runPlock: SavePeerstore(list A) / SavePeerstore(list B) / LoadPeerstore of ONE Manager running
// concurrently.  Every load result (and the final file) is projected to segments of the three lists
// (Z = initial content) and judged by TLC (WholeSegs): no timing is asserted.
func (e *env) runPlock(s *script) error {
	ctx := context.Background()
	dir, err := ioutil.TempDir(e.base, "plock-")
	if err != nil {
		return err
	}
	defer os.RemoveAll(dir)
	path := filepath.Join(dir, "peerstore")
	sizes := map[string]int{"Z": 3, "A": s.NA, "B": s.NB}
	lists := map[string][]peer.AddrInfo{}
	where := map[string]seg{} // address string -> (list, index)
	for li, l := range []string{"Z", "A", "B"} {
		for i := 1; i <= sizes[l]; i++ {
			_, id := keyFor("plock", e.seed, l, (i-1)%7)
			a, err := ma.NewMultiaddr(fmt.Sprintf("/ip4/10.%d.%d.%d/tcp/%d", li+1, i/250, i%250+1, 9000+li))
			if err != nil {
				return err
			}
			lists[l] = append(lists[l], peer.AddrInfo{ID: id, Addrs: []ma.Multiaddr{a}})
			where[a.String()+"/p2p/"+peer.Encode(id)] = seg{L: l, From: i, To: i}
		}
	}
	project := func(addrs []ma.Multiaddr) []seg {
		out := []seg{}
		for _, a := range addrs {
			cur := seg{L: "?", From: 0, To: 0}
			if a != nil {
				if w, ok := where[a.String()]; ok {
					cur = w
				}
			}
			if k := len(out) - 1; k >= 0 && out[k].L == cur.L && cur.L != "?" && out[k].To+1 == cur.From {
				out[k].To = cur.To
			} else {
				out = append(out, cur)
			}
		}
		if len(out) > 40 {
			out = out[:40]
		}
		return out
	}
	pm := pstoremgr.New(ctx, nil, path)
	if err := pm.SavePeerstore(lists["Z"]); err != nil {
		return err
	}
	var mu sync.Mutex
	seen := map[string]int{}
	record := func(act string, segs []seg) {
		b, _ := json.Marshal(segs)
		mu.Lock()
		seen[act+string(b)]++
		first := seen[act+string(b)] == 1
		mu.Unlock()
		if first { // identical results are judged once
			e.emit("sid", s.ID, "m", "plock", "act", act, "segs", segs, "sizes", sizes)
		}
	}
	for it := 0; it < s.Iters; it++ {
		var wg sync.WaitGroup
		startc := make(chan struct{})
		run := func(f func()) {
			wg.Add(1)
			go func() {
				defer wg.Done()
				<-startc
				f()
			}()
		}
		run(func() { pm.SavePeerstore(lists["A"]) })
		run(func() { pm.SavePeerstore(lists["B"]) })
		for k := 0; k < 3; k++ {
			run(func() {
				for j := 0; j < 3; j++ {
					record("CLoad", project(pm.LoadPeerstore()))
				}
			})
		}
		close(startc)
		wg.Wait()
		record("CFinal", project(pm.LoadPeerstore()))
	}
	mu.Lock()
	total := 0
	for _, c := range seen {
		total += c
	}
	mu.Unlock()
	e.res.Set("plock_loads_observed", total)
	return nil
}

// ---------------------------------------------------------------- main

// peakRSSMB reads the high-water mark of this process' resident set (VmHWM).
func peakRSSMB() int {
	b, err := ioutil.ReadFile("/proc/self/status")
	if err != nil {
		return -1
	}
	for _, l := range strings.Split(string(b), "\n") {
		if strings.HasPrefix(l, "VmHWM:") {
			f := strings.Fields(l)
			if len(f) >= 2 {
				kb, _ := strconv.Atoi(f[1])
				return kb / 1024
			}
		}
	}
	return -1
}

func TestDriver(t *testing.T) {
	rig.Quiet()
	res := hx.NewResult()
	defer res.Write()
	raws, err := hx.LoadCases()
	if err != nil {
		res.Infra("cannot load scripts: %v", err)
		return
	}
	tracePath := os.Getenv("VERIF_TRACE")
	if tracePath == "" {
		tracePath = filepath.Join(os.TempDir(), fmt.Sprintf("c14-trace-%d.ndjson", os.Getpid()))
	}
	tr, err := hx.OpenTrace(tracePath)
	if err != nil {
		res.Infra("cannot open trace: %v", err)
		return
	}
	// scratch space: under os.TempDir() (vcheck points TMPDIR into the work dir of the check, which it removes
	// whatever happens to this process); never inside /repo or /verif
	base, err := ioutil.TempDir("", "verif-c14-")
	if err != nil {
		res.Infra("cannot create scratch dir: %v", err)
		return
	}
	defer os.RemoveAll(base)
	e := &env{seed: hx.Seed(), base: base, tr: tr, res: res}
	for i := 0; i < 6; i++ {
		_, id := keyFor("alloc", e.seed, i)
		e.peers = append(e.peers, id)
	}

	var scripts []*script
	for _, r := range raws {
		s := &script{}
		if err := json.Unmarshal(r, s); err != nil {
			res.Infra("bad script: %v", err)
			return
		}
		scripts = append(scripts, s)
	}
	// The cmdutils state managers never close the go-ds-crdt / ipfs-lite instances they create (they are
	// one-shot command-line helpers), so every export/import on a crdt manager leaves its datastore caches and
	// memtables reachable from leaked goroutines (~20-60 MB each).  Those scripts therefore run in short-lived
	// child processes of this test binary, a few at a time; everything else runs here.
	child := os.Getenv("VERIF_C14_CHILD") != ""
	var local, heavy []*script
	for _, s := range scripts {
		if !child && s.M == "xfer" && s.Path == "json" {
			heavy = append(heavy, s)
		} else {
			local = append(local, s)
		}
	}
	workers := hx.EnvInt("VERIF_C14_WORKERS", 6)
	if child {
		workers = 2
	}
	ch := make(chan *script)
	var wg sync.WaitGroup
	for w := 0; w < workers; w++ {
		wg.Add(1)
		go func() {
			defer wg.Done()
			for s := range ch {
				var err error
				func() {
					defer func() {
						if r := recover(); r != nil {
							err = fmt.Errorf("driver panic: %v\n%s", r, debug.Stack())
						}
					}()
					switch s.M {
					case "xfer":
						err = e.runXfer(s)
					case "snap":
						err = e.runSnap(s)
					case "rot":
						err = e.runRot(s)
					case "pstore":
						err = e.runPstore(s)
					case "plock":
						err = e.runPlock(s)
					default:
						err = fmt.Errorf("unknown machine %q", s.M)
					}
				}()
				if err != nil {
					res.Infra("script %d (%s): %v", s.ID, s.M, err)
				}
			}
		}()
	}
	for _, s := range local {
		ch <- s
	}
	close(ch)

	// child processes: chunks of heavy scripts, at most three at a time
	const chunk = 12
	var childTraces []string
	childPeak, childLines := 0, 0
	var cmu sync.Mutex
	sem := make(chan struct{}, 3)
	var cwg sync.WaitGroup
	for i := 0; i < len(heavy); i += chunk {
		j := i + chunk
		if j > len(heavy) {
			j = len(heavy)
		}
		part := heavy[i:j]
		k := i / chunk
		in := filepath.Join(base, fmt.Sprintf("chunk-%d.ndjson", k))
		out := filepath.Join(base, fmt.Sprintf("chunk-%d.out.json", k))
		trp := filepath.Join(base, fmt.Sprintf("chunk-%d.trace.ndjson", k))
		var b bytes.Buffer
		for _, s := range part {
			l, _ := json.Marshal(s)
			b.Write(l)
			b.WriteByte('\n')
		}
		if err := ioutil.WriteFile(in, b.Bytes(), 0600); err != nil {
			res.Infra("cannot write chunk: %v", err)
			break
		}
		cmu.Lock()
		childTraces = append(childTraces, trp)
		cmu.Unlock()
		cwg.Add(1)
		sem <- struct{}{}
		go func() {
			defer cwg.Done()
			defer func() { <-sem }()
			cmd := exec.Command(os.Args[0], "-test.run", "^TestDriver$", "-test.timeout", "40m")
			cmd.Env = append(os.Environ(), "VERIF_C14_CHILD=1", "VERIF_IN="+in, "VERIF_OUT="+out, "VERIF_TRACE="+trp,
				"VERIF_REPLAY=")
			o, err := cmd.CombinedOutput()
			rb, rerr := ioutil.ReadFile(out)
			var cr struct {
				Evaluations int                    `json:"evaluations"`
				Infra       []string               `json:"infra"`
				Extra       map[string]interface{} `json:"extra"`
			}
			if rerr != nil || json.Unmarshal(rb, &cr) != nil {
				tail := string(o)
				if len(tail) > 1500 {
					tail = tail[len(tail)-1500:]
				}
				res.Infra("child process for scripts %d..%d failed (%v): %s", part[0].ID, part[len(part)-1].ID, err, tail)
				return
			}
			for _, m := range cr.Infra {
				res.Infra("%s", m)
			}
			res.Count(cr.Evaluations)
			cmu.Lock()
			if p, ok := cr.Extra["driver_peak_rss_mb"].(float64); ok && int(p) > childPeak {
				childPeak = int(p)
			}
			if l, ok := cr.Extra["trace_lines"].(float64); ok {
				childLines += int(l)
			}
			cmu.Unlock()
		}()
	}
	wg.Wait()
	cwg.Wait()
	if !child {
		for _, s := range scripts {
			id := map[string]interface{}{"m": s.M, "kind": s.Kind, "path": s.Path, "src": s.Src, "tgt0": s.Tgt0,
				"skind": s.SKind, "steps": s.Steps, "keep": s.Keep, "old": s.Old, "book": s.Book, "junk": s.Junk, "fault": s.Fault, "iters": s.Iters, "na": s.NA, "nb": s.NB}
			res.Case(id, s.NT)
			res.Count(-1) // evaluations = recorded steps (counted in emit)
		}
	}
	// the children's records go behind ours, in the same file
	lines := tr.Lines()
	tr.Close()
	if len(childTraces) > 0 {
		f, err := os.OpenFile(tracePath, os.O_APPEND|os.O_WRONLY, 0644)
		if err != nil {
			res.Infra("cannot append to the trace: %v", err)
		} else {
			for _, p := range childTraces {
				if b, err := ioutil.ReadFile(p); err == nil {
					f.Write(b)
				}
			}
			f.Close()
		}
	}
	res.Set("trace_lines", lines+childLines)
	res.Set("driver_peak_rss_mb", peakRSSMB())
	res.Set("driver_child_peak_rss_mb", childPeak)
}
