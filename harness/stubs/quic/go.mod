module github.com/libp2p/go-libp2p-quic-transport

go 1.16
