// Package libp2pquic is a compile-only stand-in for go-libp2p-quic-transport:
// quic-go v0.21.1 refuses to build with the sandbox Go toolchain and only
// clusterhost.go and api/rest/restapi.go import it (as a libp2p option).
// The harness never dials QUIC addresses.
package libp2pquic

import (
	"errors"

	"github.com/libp2p/go-libp2p-core/connmgr"
	ic "github.com/libp2p/go-libp2p-core/crypto"
	"github.com/libp2p/go-libp2p-core/pnet"
	tpt "github.com/libp2p/go-libp2p-core/transport"
)

// NewTransport mirrors the real constructor's signature.
func NewTransport(key ic.PrivKey, psk pnet.PSK, gater connmgr.ConnectionGater) (tpt.Transport, error) {
	return nil, errors.New("quic transport stubbed out in the verification harness")
}
