// C07 driver, CRDT clause: real crdt.Consensus replicas (real topic validator,
// real go-ds-crdt, gossipsub with signed messages) whose trusted_peers come
// from the JSON configuration; the script publishes pins on chosen replicas
// and calls Trust/Distrust; after every event the pinset of every replica is
// recorded once it has settled. The trace is judged by TLC
// (spec/RPCAuthPubsubTrace.tla).
package c07

import (
	"context"
	"encoding/json"
	"fmt"
	"os"
	"sort"
	"strings"
	"sync"
	"sync/atomic"
	"testing"
	"time"

	"verifharness/hx"
	"verifharness/rig"

	"github.com/ipfs/ipfs-cluster/api"
	"github.com/ipfs/ipfs-cluster/consensus/crdt"
	"github.com/ipfs/ipfs-cluster/datastore/inmem"

	ds "github.com/ipfs/go-datastore"
	logging "github.com/ipfs/go-log/v2"
	query "github.com/ipfs/go-datastore/query"

	host "github.com/libp2p/go-libp2p-core/host"
	"github.com/libp2p/go-libp2p-core/network"
	peer "github.com/libp2p/go-libp2p-core/peer"
	rpc "github.com/libp2p/go-libp2p-gorpc"
	dual "github.com/libp2p/go-libp2p-kad-dht/dual"
	pubsub "github.com/libp2p/go-libp2p-pubsub"
	mh "github.com/multiformats/go-multihash"
)

type trustCfg struct {
	All bool     `json:"all"`
	Set []string `json:"set"`
}

type psEvent struct {
	Ev string `json:"ev"` // publish | trust | distrust | link | addpeer | startup | release | forge
	R  string `json:"r"`
	P  string `json:"p,omitempty"`
	// forge: a third host sends R a raw gossipsub message naming As as author and
	// carrying the last heads broadcast of Of; Sig = none | bad | other
	As  string `json:"as,omitempty"`
	Of  string `json:"of,omitempty"`
	Sig string `json:"sig,omitempty"`
}

type psScript struct {
	ID     int                 `json:"id"`
	Trust  map[string]trustCfg `json:"trust"`
	Events []psEvent           `json:"events"`
	// Relay names nodes that are plain gossipsub members of the topic (no crdt
	// component, no validator): they forward what they receive and never sign.
	Relay []string `json:"relay,omitempty"`
	// Links lists the initial connections (nil: full mesh); the event "link"
	// adds one later. Connectivity is not part of the model (a delivery may or
	// may not happen), so links are not written to the trace.
	Links [][]string `json:"links,omitempty"`
	// Block lists pairs of nodes that can never be connected (connection gater
	// on both sides): delivery between them is necessarily relayed.
	Block [][]string `json:"block,omitempty"`
	// Quiet lists replicas whose rebroadcast_interval is one hour: within a
	// script they broadcast their heads only when they publish themselves.
	Quiet []string `json:"quiet,omitempty"`
	// Down lists replicas whose setup() is not started with the world: the event
	// "startup" starts it and holds it inside crdt.New (datastore gate) until the
	// event "release".
	Down []string `json:"down,omitempty"`
}

// gateStore is the datastore given to a replica that starts late: its query
// on go-ds-crdt's heads namespace can be held back, which keeps setup() between
// "subscribed to the topic" and "go-ds-crdt running" for as long as the script
// wants (a large datastore read at start-up, made deterministic).
type gateStore struct {
	ds.Batching
	armed   int32
	once    sync.Once
	reached chan struct{}
	release chan struct{}
}

func newGateStore() *gateStore {
	return &gateStore{Batching: inmem.New().(ds.Batching), reached: make(chan struct{}), release: make(chan struct{})}
}

func (s *gateStore) Query(q query.Query) (query.Results, error) {
	if atomic.LoadInt32(&s.armed) == 1 && strings.HasSuffix(q.Prefix, "/h") {
		s.once.Do(func() { close(s.reached) })
		<-s.release
	}
	return s.Batching.Query(q)
}

type upd struct {
	S string `json:"s"`
	N int    `json:"n"`
}

// trackerSvc is what the crdt component needs on its local RPC client.
type trackerSvc struct{}

func (trackerSvc) Track(ctx context.Context, in *api.Pin, out *struct{}) error   { return nil }
func (trackerSvc) Untrack(ctx context.Context, in *api.Pin, out *struct{}) error { return nil }

type replica struct {
	relay bool
	ready bool
	store *gateStore
	topic string
	mu    sync.Mutex
	last  map[peer.ID][]byte // relay: last broadcast seen per author
	name  string
	h    host.Host
	dht  *dual.DHT
	gate *blockGater
	ps   *pubsub.PubSub
	cons *crdt.Consensus
}

func (r *replica) close() {
	ctx, cancel := context.WithTimeout(context.Background(), 20*time.Second)
	defer cancel()
	if r.cons != nil {
		r.cons.Shutdown(ctx)
	}
	if r.dht != nil {
		r.dht.Close()
	}
	if r.h != nil {
		r.h.Close()
	}
}

type psWorld struct {
	reps  map[string]*replica
	order []string
	names *hx.Names
	n     int
}

func (w *psWorld) close() {
	for _, r := range w.reps {
		r.close()
	}
}

func newPsWorld(sc *psScript) (w *psWorld, err error) {
	ctx := context.Background()
	w = &psWorld{reps: map[string]*replica{}, names: hx.NewNames(hx.Seed())}
	defer func() {
		if err != nil {
			w.close()
		}
	}()
	for n := range sc.Trust {
		w.order = append(w.order, n)
	}
	sort.Strings(w.order)
	for _, n := range w.order {
		// Replicas run on hosts made by ipfscluster.NewClusterHost (the repository's
		// pubsub options). Only relays and the second node of a blocked pair are
		// harness hosts: the latter needs a connection gater, which refuses the
		// other node in both directions.
		harness := isIn(sc.Relay, n)
		for _, b := range sc.Block {
			if b[1] == n {
				harness = true
			}
		}
		r := &replica{name: n, last: map[peer.ID][]byte{}}
		var err error
		if harness {
			r.gate = &blockGater{}
			r.h, r.ps, r.dht, err = gatedHost(r.gate)
		} else {
			r.h, r.ps, r.dht, err = clusterHost()
		}
		if err != nil {
			return w, err
		}
		w.reps[n] = r
		w.names.SetPeer(n, r.h.ID())
	}
	for _, b := range sc.Block {
		if w.reps[b[0]].gate != nil {
			return w, fmt.Errorf("blocked pair %v: first node must be a cluster host", b)
		}
		w.reps[b[1]].gate.block(w.reps[b[0]].h.ID())
	}
	for _, n := range w.order {
		r := w.reps[n]
		clusterName := fmt.Sprintf("c07-%d-%d", hx.Seed(), sc.ID)
		th, err := mh.Sum([]byte(clusterName), mh.MD5, -1) // as crdt.Consensus.setup names the topic
		if err != nil {
			return w, err
		}
		r.topic = th.B58String()
		if isIn(sc.Relay, n) {
			r.relay = true
			topic, err := r.ps.Join(r.topic)
			if err != nil {
				return w, err
			}
			sub, err := topic.Subscribe()
			if err != nil {
				return w, err
			}
			go func() {
				for {
					m, err := sub.Next(ctx)
					if err != nil {
						return
					}
					if len(m.Data) == 0 {
						continue // rebroadcast of an empty head list
					}
					r.mu.Lock()
					r.last[m.GetFrom()] = append([]byte{}, m.Data...)
					r.mu.Unlock()
				}
			}()
			continue
		}
		tc := sc.Trust[n]
		tp := []string{}
		for _, p := range tc.Set {
			tp = append(tp, peer.Encode(w.reps[p].h.ID()))
		}
		if tc.All {
			tp = append(tp, "*")
		}
		cfg, err := crdtConfig(tp, func(m map[string]interface{}) {
			m["cluster_name"] = clusterName
			m["rebroadcast_interval"] = "600ms"
			if isIn(sc.Quiet, n) {
				m["rebroadcast_interval"] = "1h"
			}
		})
		if err != nil {
			return w, err
		}
		var store ds.Datastore = inmem.New()
		if isIn(sc.Down, n) {
			r.store = newGateStore()
			store = r.store
		}
		cons, err := crdt.New(r.h, r.dht, r.ps, cfg, store)
		if err != nil {
			return w, err
		}
		r.cons = cons
		if r.store != nil {
			continue // setup() starts with the event "startup"
		}
		if err := r.start(); err != nil {
			return w, err
		}
		if err := r.waitReady(); err != nil {
			return w, err
		}
	}
	links := sc.Links
	if links == nil { // full mesh
		for i, x := range w.order {
			for _, y := range w.order[i+1:] {
				links = append(links, []string{x, y})
			}
		}
	}
	for _, l := range links {
		if err := w.link(l[0], l[1]); err != nil {
			return w, err
		}
	}
	time.Sleep(1500 * time.Millisecond) // gossipsub subscriptions / mesh
	return w, nil
}

// start hands the component its RPC client, which lets setup() run.
func (r *replica) start() error {
	srv := rpc.NewServer(r.h, "c07mock")
	if err := srv.RegisterName("PinTracker", &trackerSvc{}); err != nil {
		return err
	}
	r.cons.SetClient(rpc.NewClientWithServer(r.h, "c07mock", srv))
	return nil
}

func (r *replica) waitReady() error {
	select {
	case <-r.cons.Ready(context.Background()):
		r.ready = true
		return nil
	case <-time.After(60 * time.Second):
		return fmt.Errorf("crdt replica %s not ready", r.name)
	}
}

func isIn(l []string, x string) bool {
	for _, y := range l {
		if x == y {
			return true
		}
	}
	return false
}

func (w *psWorld) link(x, y string) error {
	cctx, cancel := context.WithTimeout(context.Background(), 20*time.Second)
	defer cancel()
	if err := w.reps[x].h.Connect(cctx, peer.AddrInfo{ID: w.reps[y].h.ID(), Addrs: w.reps[y].h.Addrs()}); err != nil {
		return fmt.Errorf("connect %s-%s: %v", x, y, err)
	}
	return nil
}

func (w *psWorld) cidName(u upd) string { return fmt.Sprintf("u-%s-%d", u.S, u.N) }

// pins lists a replica's pinset as abstract updates; unknown CIDs are errors.
func (w *psWorld) pins(r *replica) ([]upd, error) {
	ctx, cancel := context.WithTimeout(context.Background(), 20*time.Second)
	defer cancel()
	st, err := r.cons.State(ctx)
	if err != nil {
		return nil, err
	}
	ps, err := st.List(ctx)
	if err != nil {
		return nil, err
	}
	out := []upd{}
	for _, p := range ps {
		nm := w.names.CidName(p.Cid)
		var u upd
		parts := strings.Split(nm, "-")
		if len(parts) != 3 || parts[0] != "u" {
			return nil, fmt.Errorf("unknown cid %s in pinset of %s", nm, r.name)
		}
		u.S = parts[1]
		fmt.Sscanf(parts[2], "%d", &u.N)
		out = append(out, u)
	}
	sort.Slice(out, func(i, j int) bool { return out[i].N < out[j].N })
	return out, nil
}

func (w *psWorld) snapshot() (map[string][]upd, string, error) {
	m := map[string][]upd{}
	for _, n := range w.order {
		if w.reps[n].relay || !w.reps[n].ready {
			continue
		}
		p, err := w.pins(w.reps[n])
		if err != nil {
			return nil, "", err
		}
		m[n] = p
	}
	b, _ := json.Marshal(m)
	return m, string(b), nil
}

// settle waits until no pinset changed for `quiet` (at least `min`, at most `max`).
func (w *psWorld) settle(min, quiet, max time.Duration) (map[string][]upd, error) {
	start := time.Now()
	last, lastS, err := w.snapshot()
	if err != nil {
		return nil, err
	}
	lastChange := time.Now()
	for {
		time.Sleep(100 * time.Millisecond)
		cur, curS, err := w.snapshot()
		if err != nil {
			return nil, err
		}
		if curS != lastS {
			last, lastS, lastChange = cur, curS, time.Now()
		}
		if time.Since(start) >= min && time.Since(lastChange) >= quiet {
			return last, nil
		}
		if time.Since(start) > max {
			return last, nil
		}
	}
}

type bufEv struct {
	ev string
	kv []interface{}
}

// psBuf keeps the events of one script together (scripts run in parallel).
type psBuf struct{ evs []bufEv }

func (b *psBuf) Emit(ev string, kv ...interface{}) { b.evs = append(b.evs, bufEv{ev, kv}) }

var flushMu sync.Mutex

func (b *psBuf) flush(tr *hx.Tracer) {
	flushMu.Lock()
	defer flushMu.Unlock()
	for _, e := range b.evs {
		tr.Emit(e.ev, e.kv...)
	}
}

func runPsScript(sc *psScript, out *hx.Tracer, res *hx.Result) error {
	tr := &psBuf{}
	w, err := newPsWorld(sc)
	if err != nil {
		return err
	}
	defer w.close()
	ctx := context.Background()
	tj := map[string]interface{}{}
	for n, t := range sc.Trust {
		set := t.Set
		if set == nil {
			set = []string{}
		}
		tj[n] = map[string]interface{}{"all": t.All, "set": set}
	}
	quiet := sc.Quiet
	if quiet == nil {
		quiet = []string{}
	}
	down := sc.Down
	if down == nil {
		down = []string{}
	}
	tr.Emit("init", "script", sc.ID, "trust", tj, "quiet", quiet, "down", down)
	observe := func() error {
		snap, err := w.settle(1300*time.Millisecond, 1300*time.Millisecond, 20*time.Second)
		if err != nil {
			return err
		}
		for _, n := range w.order {
			if w.reps[n].relay || !w.reps[n].ready {
				continue
			}
			tr.Emit("observe", "r", n, "pins", snap[n])
			res.Count(1)
		}
		return nil
	}
	for _, e := range sc.Events {
		r := w.reps[e.R]
		if r == nil {
			return fmt.Errorf("unknown replica %q", e.R)
		}
		switch e.Ev {
		case "link":
			if err := w.link(e.R, e.P); err != nil {
				return err
			}
		case "publish":
			w.n++
			u := upd{S: e.R, N: w.n}
			p := api.PinCid(w.names.Cid(w.cidName(u)))
			p.ReplicationFactorMin, p.ReplicationFactorMax = -1, -1
			if err := r.cons.LogPin(ctx, p); err != nil {
				return fmt.Errorf("LogPin on %s: %v", e.R, err)
			}
			tr.Emit("publish", "r", e.R, "u", u)
		case "trust":
			if err := r.cons.Trust(ctx, w.reps[e.P].h.ID()); err != nil {
				return err
			}
			tr.Emit("trust", "r", e.R, "p", e.P)
		case "distrust":
			if err := r.cons.Distrust(ctx, w.reps[e.P].h.ID()); err != nil {
				return err
			}
			tr.Emit("distrust", "r", e.R, "p", e.P)
		case "addpeer":
			// what the open join handshake (Cluster.PeerAdd) does to the component
			if err := r.cons.AddPeer(ctx, w.reps[e.P].h.ID()); err != nil {
				return err
			}
			tr.Emit("addpeer", "r", e.R, "p", e.P)
		case "startup":
			if r.store == nil {
				return fmt.Errorf("replica %s is not down", e.R)
			}
			atomic.StoreInt32(&r.store.armed, 1)
			if err := r.start(); err != nil {
				return err
			}
			tr.Emit("setup", "r", e.R)
			select {
			case <-r.store.reached:
			case <-time.After(30 * time.Second):
				return fmt.Errorf("replica %s: go-ds-crdt never read its heads", e.R)
			}
			tr.Emit("window", "r", e.R)
			time.Sleep(time.Second) // the subscription reaches the other peers
		case "release":
			atomic.StoreInt32(&r.store.armed, 0)
			close(r.store.release)
			if err := r.waitReady(); err != nil {
				return err
			}
			tr.Emit("ready", "r", e.R)
		case "forge":
			sig, err := w.forge(sc, e)
			if err != nil {
				return err
			}
			tr.Emit("forge", "as", e.As, "of", e.Of, "sig", sig, "kind", e.Sig, "to", e.R)
		default:
			return fmt.Errorf("unknown event %q", e.Ev)
		}
		if err := observe(); err != nil {
			return err
		}
	}
	// the blocked pairs must really have stayed apart, and only the scripted links may exist
	for _, b := range sc.Block {
		x, y := w.reps[b[0]], w.reps[b[1]]
		if x.h.Network().Connectedness(y.h.ID()) == network.Connected || y.h.Network().Connectedness(x.h.ID()) == network.Connected {
			return fmt.Errorf("blocked pair %s-%s is connected", b[0], b[1])
		}
	}
	tr.flush(out)
	res.Case(map[string]interface{}{"script": sc.ID, "trust": sc.Trust, "events": sc.Events}, true)
	return nil
}

// TestPubsub replays the scripts of $VERIF_IN and writes the trace to $VERIF_TRACE.
func TestPubsub(t *testing.T) {
	rig.Quiet()
	if os.Getenv("C07_DEBUG") != "" {
		logging.SetLogLevel("pubsub", "debug")
		logging.SetLogLevel("crdt", "debug")
	}
	res := hx.NewResult()
	defer res.Write()
	lines, err := hx.LoadCases()
	if err != nil {
		res.Infra("loading scripts: %v", err)
		return
	}
	tr, err := hx.OpenTrace(os.Getenv("VERIF_TRACE"))
	if err != nil {
		res.Infra("trace: %v", err)
		return
	}
	defer tr.Close()
	var scripts []*psScript
	for _, l := range lines {
		sc := &psScript{}
		if err := json.Unmarshal(l, sc); err != nil {
			res.Infra("bad script: %v", err)
			return
		}
		scripts = append(scripts, sc)
	}
	parallel(len(scripts), hx.EnvInt("C07_PAR", 4), func(i int) {
		if err := runPsScript(scripts[i], tr, res); err != nil {
			res.Infra("pubsub script %d: %v", scripts[i].ID, err)
		}
	})
}
