// C07 driver, forged pubsub messages: a third host speaks the gossipsub wire
// protocol by hand and sends a replica a message that NAMES a peer as author
// without being able to sign as that peer (no signature, a signature that does
// not verify, a signature made with another key). The payload is the genuine
// heads broadcast of another replica, captured by a relay node of the script,
// so that an accepting replica can really fetch and merge the DAG.
package c07

import (
	"context"
	"crypto/rand"
	"fmt"
	"io"
	"io/ioutil"
	"sync"
	"time"

	libp2p "github.com/libp2p/go-libp2p"
	crypto "github.com/libp2p/go-libp2p-core/crypto"
	host "github.com/libp2p/go-libp2p-core/host"
	"github.com/libp2p/go-libp2p-core/network"
	peer "github.com/libp2p/go-libp2p-core/peer"
	protocol "github.com/libp2p/go-libp2p-core/protocol"
	pubsub "github.com/libp2p/go-libp2p-pubsub"
	pb "github.com/libp2p/go-libp2p-pubsub/pb"
	"github.com/libp2p/go-msgio/protoio"
)

const meshsub = protocol.ID("/meshsub/1.1.0")

// craft builds the raw message. sig: none | bad | other.
func craft(topic string, author peer.ID, data []byte, sig string, other crypto.PrivKey) (*pb.Message, error) {
	seqno := make([]byte, 8)
	rand.Read(seqno)
	m := &pb.Message{From: []byte(author), Data: data, Seqno: seqno, Topic: &topic}
	switch sig {
	case "none":
	case "bad":
		m.Signature = make([]byte, 64)
		rand.Read(m.Signature)
	case "other":
		// a valid signature, but by the sender's own key (which it announces)
		body, err := m.Marshal()
		if err != nil {
			return nil, err
		}
		s, err := other.Sign(append([]byte("libp2p-pubsub:"), body...))
		if err != nil {
			return nil, err
		}
		k, err := crypto.MarshalPublicKey(other.GetPublic())
		if err != nil {
			return nil, err
		}
		m.Signature, m.Key = s, k
	default:
		return nil, fmt.Errorf("unknown signature kind %q", sig)
	}
	return m, nil
}

// rawSend opens a gossipsub stream from x to `to` and writes one RPC carrying a
// subscription to the topic and the message.
func rawSend(x host.Host, to peer.ID, topic string, m *pb.Message) error {
	ctx, cancel := context.WithTimeout(context.Background(), 20*time.Second)
	defer cancel()
	st, err := x.NewStream(ctx, to, meshsub)
	if err != nil {
		return err
	}
	yes := true
	r := &pb.RPC{Subscriptions: []*pb.RPC_SubOpts{{Subscribe: &yes, Topicid: &topic}}, Publish: []*pb.Message{m}}
	if err := protoio.NewDelimitedWriter(st).WriteMsg(r); err != nil {
		st.Reset()
		return err
	}
	time.Sleep(300 * time.Millisecond)
	return st.Close()
}

// forge performs one "forge" event and returns the signature class of the model.
func (w *psWorld) forge(sc *psScript, e psEvent) (string, error) {
	ctx := context.Background()
	target := w.reps[e.R]
	author := w.reps[e.As].h.ID()
	of := w.reps[e.Of].h.ID()
	// the genuine broadcast of `of`, as seen by a relay of the script
	var data []byte
	for _, n := range sc.Relay {
		rl := w.reps[n]
		rl.mu.Lock()
		if d, ok := rl.last[of]; ok {
			data = d
		}
		rl.mu.Unlock()
	}
	if data == nil {
		return "", fmt.Errorf("forge: no relay has seen a broadcast of %s", e.Of)
	}
	x, err := plainHost()
	if err != nil {
		return "", err
	}
	defer x.Close()
	x.SetStreamHandler(meshsub, func(s network.Stream) { io.Copy(ioutil.Discard, s) })
	// control: a harness gossipsub node with the LAX policy and no validator must
	// accept the unsigned variant; this shows that the hand-made RPC is well formed
	// and is processed by a gossipsub peer (else the event proves nothing)
	if e.Sig == "none" {
		y, err := plainHost()
		if err != nil {
			return "", err
		}
		defer y.Close()
		yps, err := pubsub.NewGossipSub(ctx, y, pubsub.WithMessageSignaturePolicy(pubsub.LaxSign))
		if err != nil {
			return "", err
		}
		tp, err := yps.Join(target.topic)
		if err != nil {
			return "", err
		}
		sub, err := tp.Subscribe()
		if err != nil {
			return "", err
		}
		got := make(chan peer.ID, 1)
		var once sync.Once
		go func() {
			for {
				m, err := sub.Next(ctx)
				if err != nil {
					return
				}
				once.Do(func() { got <- m.GetFrom() })
			}
		}()
		cctx, cancel := context.WithTimeout(ctx, 20*time.Second)
		err = x.Connect(cctx, peer.AddrInfo{ID: y.ID(), Addrs: y.Addrs()})
		cancel()
		if err != nil {
			return "", err
		}
		m, err := craft(target.topic, author, data, e.Sig, x.Peerstore().PrivKey(x.ID()))
		if err != nil {
			return "", err
		}
		if err := rawSend(x, y.ID(), target.topic, m); err != nil {
			return "", fmt.Errorf("forge control: %v", err)
		}
		select {
		case from := <-got:
			if from != author {
				return "", fmt.Errorf("forge control: author %s", from)
			}
		case <-time.After(10 * time.Second):
			return "", fmt.Errorf("forge control: a lax gossipsub node did not take the hand-made message")
		}
	}
	cctx, cancel := context.WithTimeout(ctx, 20*time.Second)
	err = x.Connect(cctx, peer.AddrInfo{ID: target.h.ID(), Addrs: target.h.Addrs()})
	cancel()
	if err != nil {
		return "", err
	}
	m, err := craft(target.topic, author, data, e.Sig, x.Peerstore().PrivKey(x.ID()))
	if err != nil {
		return "", err
	}
	if err := rawSend(x, target.h.ID(), target.topic, m); err != nil {
		return "", fmt.Errorf("forge: %v", err)
	}
	if e.Sig == "none" {
		return "none", nil
	}
	return "bad", nil
}

var _ = libp2p.New
