// C07 driver, RPC part: a real Cluster "a" (real newRPCServer / authorization
// function / RPC policy) with a REAL consensus component (crdt.Consensus
// configured through its JSON trusted_peers list, or raft.Consensus) and
// harness fakes elsewhere; two more libp2p hosts "b" and "c" with plain gorpc
// clients. Every endpoint found by reflection on the *RPCAPI types is called
// from a (local), b and c after every step of a TLC-generated Trust/Distrust
// script; the observable is rpc.IsAuthorizationError(err) versus anything
// else. The records are judged by TLC (spec/RPCAuthTrace.tla), not here.
package c07

import (
	"bufio"
	"context"
	"crypto/sha256"
	"encoding/json"
	"fmt"
	"io/ioutil"
	"os"
	"reflect"
	"sort"
	"strings"
	"sync"
	"testing"
	"time"

	"verifharness/hx"
	"verifharness/rig"

	ipfscluster "github.com/ipfs/ipfs-cluster"
	"github.com/ipfs/ipfs-cluster/allocator/ascendalloc"
	"github.com/ipfs/ipfs-cluster/api"
	"github.com/ipfs/ipfs-cluster/config"
	"github.com/ipfs/ipfs-cluster/consensus/crdt"
	"github.com/ipfs/ipfs-cluster/consensus/raft"
	"github.com/ipfs/ipfs-cluster/datastore/inmem"
	"github.com/ipfs/ipfs-cluster/version"

	cid "github.com/ipfs/go-cid"
	ipns "github.com/ipfs/go-ipns"
	libp2p "github.com/libp2p/go-libp2p"
	"github.com/libp2p/go-libp2p-core/control"
	host "github.com/libp2p/go-libp2p-core/host"
	"github.com/libp2p/go-libp2p-core/network"
	peer "github.com/libp2p/go-libp2p-core/peer"
	rpc "github.com/libp2p/go-libp2p-gorpc"
	dht "github.com/libp2p/go-libp2p-kad-dht"
	dual "github.com/libp2p/go-libp2p-kad-dht/dual"
	pubsub "github.com/libp2p/go-libp2p-pubsub"
	record "github.com/libp2p/go-libp2p-record"
	routedhost "github.com/libp2p/go-libp2p/p2p/host/routed"
	ma "github.com/multiformats/go-multiaddr"
	"github.com/ugorji/go/codec"
)

// ----------------------------------------------------------------- scripts

type cfgJ struct {
	Mode string   `json:"mode"` // raft | crdt
	All  bool     `json:"all"`
	List []string `json:"list"`
}

type actJ struct {
	A string `json:"a"` // trust | distrust
	P string `json:"p"`
}

type script struct {
	ID    int      `json:"id"`
	Cfg   cfgJ     `json:"cfg"`
	Holes []string `json:"holes"` // policy entries removed; ["*"] = all
	Acts  []actJ   `json:"acts"`
	// Tracing selects the other constructor branch of newRPCServer (stats handler).
	Tracing bool `json:"tracing"`
}

type callJ struct {
	E     string `json:"e"`
	P     string `json:"p"`
	Local bool   `json:"local"`
	Auth  bool   `json:"auth"`
	Err   string `json:"err,omitempty"`
}

type trustJ struct {
	P       string `json:"p"`
	Trusted bool   `json:"trusted"`
}

type stepRec struct {
	Script int      `json:"script"`
	Step   int      `json:"step"`
	Cfg    cfgJ     `json:"cfg"`
	Holes  []string `json:"holes"`
	Hist   []actJ   `json:"hist"`
	Calls  []callJ  `json:"calls"`
	Trust  []trustJ `json:"trust"`
}

// --------------------------------------------------------------- endpoints

type endpoint struct {
	Svc, Method string
	Arg, Reply  reflect.Type
}

func (e endpoint) name() string { return e.Svc + "." + e.Method }

// endpoints lists every method of the registered RPC API types by reflection,
// exactly as gorpc's Register sees them.
func endpoints() []endpoint {
	var out []endpoint
	for _, c := range []interface{}{&ipfscluster.ClusterRPCAPI{}, &ipfscluster.PinTrackerRPCAPI{},
		&ipfscluster.IPFSConnectorRPCAPI{}, &ipfscluster.ConsensusRPCAPI{}, &ipfscluster.PeerMonitorRPCAPI{}} {
		t := reflect.TypeOf(c)
		svc := ipfscluster.RPCServiceID(c)
		for i := 0; i < t.NumMethod(); i++ {
			m := t.Method(i)
			if m.Type.NumIn() != 4 || m.Type.NumOut() != 1 {
				continue // not an RPC method for gorpc
			}
			out = append(out, endpoint{Svc: svc, Method: m.Name, Arg: m.Type.In(2), Reply: m.Type.In(3)})
		}
	}
	sort.Slice(out, func(i, j int) bool { return out[i].name() < out[j].name() })
	return out
}

// ------------------------------------------------------------------- hosts

// blockGater is a libp2p ConnectionGater refusing (both directions) the peers
// put on its list: it keeps two hosts apart whatever the DHT discovers.
type blockGater struct {
	mu      sync.Mutex
	blocked map[peer.ID]bool
}

func (g *blockGater) block(p peer.ID) {
	g.mu.Lock()
	if g.blocked == nil {
		g.blocked = map[peer.ID]bool{}
	}
	g.blocked[p] = true
	g.mu.Unlock()
}
func (g *blockGater) ok(p peer.ID) bool {
	g.mu.Lock()
	defer g.mu.Unlock()
	return !g.blocked[p]
}
func (g *blockGater) InterceptPeerDial(p peer.ID) bool               { return g.ok(p) }
func (g *blockGater) InterceptAddrDial(p peer.ID, _ ma.Multiaddr) bool { return g.ok(p) }
func (g *blockGater) InterceptAccept(network.ConnMultiaddrs) bool    { return true }
func (g *blockGater) InterceptSecured(_ network.Direction, p peer.ID, _ network.ConnMultiaddrs) bool {
	return g.ok(p)
}
func (g *blockGater) InterceptUpgraded(network.Conn) (bool, control.DisconnectReason) { return true, 0 }

// swarmSecret is the cluster secret (libp2p private network key) shared by
// every host of a run: the hosts under test come from ipfscluster.NewClusterHost,
// which always sets up a private network.
func swarmSecret() []byte {
	sum := sha256.Sum256([]byte(fmt.Sprintf("c07-secret-%d", hx.Seed())))
	return sum[:]
}

// clusterHost builds host, pubsub and DHT exactly as a cluster peer does
// (ipfscluster.NewClusterHost -> newHost, newPubSub, newDHT): the pubsub
// signature policy and the transports are the repository's, not the harness's.
func clusterHost() (host.Host, *pubsub.PubSub, *dual.DHT, error) {
	ident, err := config.NewIdentity()
	if err != nil {
		return nil, nil, nil, err
	}
	cfg := &ipfscluster.Config{}
	if err := cfg.Default(); err != nil {
		return nil, nil, nil, err
	}
	cfg.Secret = swarmSecret()
	la, _ := ma.NewMultiaddr("/ip4/127.0.0.1/tcp/0")
	cfg.ListenAddr = []ma.Multiaddr{la}
	return ipfscluster.NewClusterHost(context.Background(), ident, cfg, inmem.New())
}

// plainHost is a harness-owned libp2p host in the same private network.
func plainHost(opts ...libp2p.Option) (host.Host, error) {
	opts = append([]libp2p.Option{libp2p.ListenAddrStrings("/ip4/127.0.0.1/tcp/0"),
		libp2p.PrivateNetwork(swarmSecret())}, opts...)
	return libp2p.New(context.Background(), opts...)
}

func gatedHost(g *blockGater) (host.Host, *pubsub.PubSub, *dual.DHT, error) {
	ctx := context.Background()
	h, err := plainHost(libp2p.ConnectionGater(g))
	if err != nil {
		return nil, nil, nil, err
	}
	ps, err := pubsub.NewGossipSub(ctx, h, pubsub.WithMessageSigning(true), pubsub.WithStrictSignatureVerification(true))
	if err != nil {
		h.Close()
		return nil, nil, nil, err
	}
	idht, err := dual.New(ctx, h,
		dual.DHTOption(dht.NamespacedValidator("pk", record.PublicKeyValidator{})),
		dual.DHTOption(dht.NamespacedValidator("ipns", ipns.Validator{KeyBook: h.Peerstore()})),
		dual.DHTOption(dht.Concurrency(10)),
		dual.DHTOption(dht.RoutingTableRefreshPeriod(200*time.Millisecond)),
		dual.DHTOption(dht.RoutingTableRefreshQueryTimeout(100*time.Millisecond)))
	if err != nil {
		h.Close()
		return nil, nil, nil, err
	}
	return routedhost.Wrap(h, idht), ps, idht, nil
}

// crdtConfig builds a crdt.Config through the JSON loader, so that the
// trusted_peers parsing ('*', list) is the repository's.
func crdtConfig(trusted []string, mutate func(m map[string]interface{})) (*crdt.Config, error) {
	def := &crdt.Config{}
	if err := def.Default(); err != nil {
		return nil, err
	}
	raw, err := def.ToJSON()
	if err != nil {
		return nil, err
	}
	m := map[string]interface{}{}
	if err := json.Unmarshal(raw, &m); err != nil {
		return nil, err
	}
	if trusted == nil {
		trusted = []string{}
	}
	m["trusted_peers"] = trusted
	if mutate != nil {
		mutate(m)
	}
	raw, _ = json.Marshal(m)
	cfg := &crdt.Config{}
	if err := cfg.LoadJSON(raw); err != nil {
		return nil, err
	}
	return cfg, nil
}

// ----------------------------------------------------------------- cluster

type world struct {
	cl      *ipfscluster.Cluster
	cons    ipfscluster.Consensus
	a       host.Host
	dht     *dual.DHT
	api     *rig.FakeAPI
	cfg     *ipfscluster.Config
	dir     string
	remotes map[string]host.Host
	clients map[string]*rpc.Client
	eps     []endpoint
	holes   []string
	mode    string
	someCid cid.Cid
	unknown peer.ID
}

func (w *world) close() {
	if w.cl != nil {
		ctx, cancel := context.WithTimeout(context.Background(), 30*time.Second)
		w.cl.Shutdown(ctx)
		cancel()
	}
	for _, h := range w.remotes {
		h.Close()
	}
	if w.dht != nil {
		w.dht.Close()
	}
	if w.a != nil {
		w.a.Close()
	}
	if w.dir != "" {
		os.RemoveAll(w.dir)
	}
}

func newWorld(sc *script, names *hx.Names) (w *world, err error) {
	ctx := context.Background()
	w = &world{remotes: map[string]host.Host{}, clients: map[string]*rpc.Client{}, eps: endpoints()}
	defer func() {
		if err != nil {
			w.close()
		}
	}()
	w.dir, err = ioutil.TempDir("", "verif-c07-")
	if err != nil {
		return w, err
	}
	for _, n := range []string{"b", "c"} {
		h, err := plainHost()
		if err != nil {
			return w, err
		}
		w.remotes[n] = h
		w.clients[n] = rpc.NewClient(h, version.RPCProtocol)
	}
	store := inmem.New()
	w.mode = sc.Cfg.Mode
	switch sc.Cfg.Mode {
	case "crdt":
		h, ps, idht, err := clusterHost()
		if err != nil {
			return w, err
		}
		w.a, w.dht = h, idht
		tp := []string{}
		for _, n := range sc.Cfg.List {
			tp = append(tp, peer.Encode(w.remotes[n].ID()))
		}
		if sc.Cfg.All {
			tp = append(tp, "*")
		}
		ccfg, err := crdtConfig(tp, nil)
		if err != nil {
			return w, err
		}
		cons, err := crdt.New(h, idht, ps, ccfg, store)
		if err != nil {
			return w, err
		}
		w.cons = cons
	case "raft":
		h, _, idht, err := clusterHost()
		if err != nil {
			return w, err
		}
		w.a, w.dht = h, idht
		rcfg := &raft.Config{}
		if err := rcfg.Default(); err != nil {
			return w, err
		}
		rcfg.DataFolder = w.dir + "/raft"
		cons, err := raft.NewConsensus(h, rcfg, store, false)
		if err != nil {
			return w, err
		}
		w.cons = cons
	default:
		return w, fmt.Errorf("unknown mode %q", sc.Cfg.Mode)
	}
	cfg := &ipfscluster.Config{}
	if err := cfg.Default(); err != nil {
		return w, err
	}
	cfg.SetBaseDir(w.dir)
	cfg.Peername = "c07-a"
	cfg.MDNSInterval = 0
	cfg.LeaveOnShutdown = false
	cfg.StateSyncInterval = time.Hour
	cfg.PinRecoverInterval = time.Hour
	cfg.PeerWatchInterval = time.Hour
	cfg.MonitorPingInterval = time.Hour
	cfg.Tracing = sc.Tracing
	// a private copy of the policy: entries missing for a registered method are
	// added (closed) to get through Config.Validate and removed again below, so
	// that such a method really has no entry when it is called.
	pol := map[string]ipfscluster.RPCEndpointType{}
	for k, v := range ipfscluster.DefaultRPCPolicy {
		pol[k] = v
	}
	holes := map[string]bool{}
	for _, e := range w.eps {
		if _, ok := pol[e.name()]; !ok {
			pol[e.name()] = ipfscluster.RPCClosed
			holes[e.name()] = true
		}
	}
	cfg.RPCPolicy = pol
	w.cfg = cfg
	w.api = &rig.FakeAPI{}
	inf := &rig.FakeInformer{MetricName: "freespace", Value: "100"}
	cl, err := ipfscluster.NewCluster(ctx, w.a, w.dht, cfg, store, w.cons, []ipfscluster.API{w.api},
		rig.NewFakeIPFS(), &rig.FakeTracker{ID: w.a.ID()}, rig.NewFakeMonitor(), ascendalloc.NewAllocator(),
		[]ipfscluster.Informer{inf}, &rig.FakeTracer{})
	if err != nil {
		return w, err
	}
	w.cl = cl
	select {
	case <-cl.Ready():
	case <-time.After(60 * time.Second):
		return w, fmt.Errorf("cluster not ready after 60s")
	}
	for _, hname := range sc.Holes {
		if hname == "*" {
			for k := range pol {
				holes[k] = true
			}
		} else {
			holes[hname] = true
		}
	}
	for k := range holes {
		delete(pol, k)
		w.holes = append(w.holes, k)
	}
	sort.Strings(w.holes)
	for n, h := range w.remotes {
		cctx, cancel := context.WithTimeout(ctx, 20*time.Second)
		err := h.Connect(cctx, peer.AddrInfo{ID: w.a.ID(), Addrs: w.a.Addrs()})
		cancel()
		if err != nil {
			return w, fmt.Errorf("connect %s -> a: %v", n, err)
		}
	}
	names.SetPeer("a", w.a.ID())
	names.SetPeer("b", w.remotes["b"].ID())
	names.SetPeer("c", w.remotes["c"].ID())
	w.someCid = names.Cid("c1")
	w.unknown = names.Peer("nobody")
	return w, nil
}

// arg builds a harmless, well-formed argument of the endpoint's declared type.
func (w *world) arg(e endpoint, caller string) interface{} {
	selfAddr := func() api.Multiaddr {
		m, _ := ma.NewMultiaddr(fmt.Sprintf("%s/p2p/%s", w.a.Addrs()[0], peer.Encode(w.a.ID())))
		return api.NewMultiaddrWithValue(m)
	}
	pin := func() *api.Pin {
		p := api.PinCid(w.someCid)
		p.ReplicationFactorMin = -1
		p.ReplicationFactorMax = -1
		return p
	}
	switch e.Arg {
	case reflect.TypeOf(struct{}{}):
		return struct{}{}
	case reflect.TypeOf(&api.Pin{}):
		return pin()
	case reflect.TypeOf(&api.PinPath{}):
		return &api.PinPath{Path: "/ipfs/" + w.someCid.String(), PinOptions: pin().PinOptions}
	case reflect.TypeOf(cid.Cid{}):
		return w.someCid
	case reflect.TypeOf(peer.ID("")):
		if strings.Contains(e.Method, "Add") {
			if w.mode == "crdt" && caller != "a" {
				// the join handshake as a joining peer performs it: PeerAdd(own ID).
				// (crdt has no membership; in Raft adding a host that runs no raft
				// would cost the single-voter cluster its quorum.)
				return w.remotes[caller].ID()
			}
			return w.a.ID() // already a member: no membership change
		}
		return w.unknown // not a member: nothing to remove
	case reflect.TypeOf(api.Multiaddr{}):
		return selfAddr() // Join(self) returns at once
	case reflect.TypeOf(api.TrackerStatus(0)):
		return api.TrackerStatusUndefined
	case reflect.TypeOf(""):
		switch e.Method {
		case "PinLs":
			return "recursive"
		case "Resolve":
			return "/ipfs/" + w.someCid.String()
		}
		return "ping"
	case reflect.TypeOf(&api.NodeWithMeta{}):
		return &api.NodeWithMeta{Cid: w.someCid, Data: []byte("c07")}
	}
	if e.Arg.Kind() == reflect.Ptr {
		return reflect.New(e.Arg.Elem()).Interface()
	}
	return reflect.Zero(e.Arg).Interface()
}

type outcome int

const (
	oAuthorized outcome = iota
	oRefused
	oInfra
)

// call invokes one endpoint; caller "a" is the cluster's own client (local).
func (w *world) call(caller string, e endpoint) (outcome, string) {
	ctx, cancel := context.WithTimeout(context.Background(), 60*time.Second)
	defer cancel()
	reply := reflect.New(e.Reply.Elem()).Interface()
	var err error
	if caller == "a" {
		err = w.api.RPC().CallContext(ctx, "", e.Svc, e.Method, w.arg(e, caller), reply)
	} else {
		err = w.clients[caller].CallContext(ctx, w.a.ID(), e.Svc, e.Method, w.arg(e, caller), reply)
	}
	switch {
	case err == nil:
		return oAuthorized, ""
	case rpc.IsAuthorizationError(err):
		return oRefused, "authorization"
	case ctx.Err() != nil:
		return oInfra, "timeout: " + err.Error()
	case rpc.IsClientError(err) && caller != "a":
		// the gorpc client could not complete the exchange (e.g. it could not
		// decode the reply body of an executed call): look at the response
		// header on a raw stream instead
		return w.rawProbe(caller, e, err)
	case rpc.IsClientError(err):
		return oInfra, "client error: " + err.Error()
	case rpc.IsServerError(err) && strings.Contains(err.Error(), "can't find"):
		// listed by reflection but not registered: nobody can invoke it
		return oRefused, err.Error()
	}
	// the method ran (its own error) or failed after the authorization step
	return oAuthorized, trunc(err.Error())
}

// rawProbe speaks the gorpc wire protocol by hand (msgpack ServiceID + args)
// and reads only the Response header, which carries the error class.
func (w *world) rawProbe(caller string, e endpoint, cause error) (outcome, string) {
	ctx, cancel := context.WithTimeout(context.Background(), 60*time.Second)
	defer cancel()
	st, err := w.remotes[caller].NewStream(ctx, w.a.ID(), version.RPCProtocol)
	if err != nil {
		return oInfra, "raw probe: " + err.Error()
	}
	defer st.Reset()
	st.SetDeadline(time.Now().Add(60 * time.Second))
	h := &codec.MsgpackHandle{}
	bw := bufio.NewWriter(st)
	enc := codec.NewEncoder(bw, h)
	if err := enc.Encode(rpc.ServiceID{Name: e.Svc, Method: e.Method}); err != nil {
		return oInfra, "raw probe: " + err.Error()
	}
	if err := enc.Encode(w.arg(e, caller)); err != nil {
		return oInfra, "raw probe: " + err.Error()
	}
	if err := bw.Flush(); err != nil {
		return oInfra, "raw probe: " + err.Error()
	}
	var resp struct {
		Service rpc.ServiceID
		Error   string
		ErrType int
	}
	if err := codec.NewDecoder(bufio.NewReader(st), h).Decode(&resp); err != nil {
		return oInfra, "raw probe: " + err.Error()
	}
	const authorizationErr = 3 // gorpc errors.go: nonRPCErr, serverErr, clientErr, authorizationErr
	isAuth := resp.ErrType == authorizationErr
	if isAuth != strings.Contains(resp.Error, "does not have permissions") {
		return oInfra, fmt.Sprintf("raw probe: ambiguous response %d %q", resp.ErrType, resp.Error)
	}
	if isAuth {
		return oRefused, "authorization (raw probe)"
	}
	if strings.Contains(resp.Error, "can't find") {
		return oRefused, resp.Error
	}
	return oAuthorized, "raw probe after: " + trunc(cause.Error())
}

func trunc(s string) string {
	if len(s) > 80 {
		return s[:80]
	}
	return s
}

func (w *world) observe(sc *script, step int, names *hx.Names, res *hx.Result) *stepRec {
	ctx := context.Background()
	r := &stepRec{Script: sc.ID, Step: step, Cfg: sc.Cfg, Holes: w.holes, Hist: append([]actJ{}, sc.Acts[:step]...),
		Calls: []callJ{}, Trust: []trustJ{}}
	if r.Cfg.List == nil {
		r.Cfg.List = []string{}
	}
	if r.Holes == nil {
		r.Holes = []string{}
	}
	for _, p := range []string{"b", "c"} {
		r.Trust = append(r.Trust, trustJ{P: p, Trusted: w.cons.IsTrustedPeer(ctx, names.Peer(p))})
	}
	// remote callers first, the local caller (whose calls all execute) last
	for _, caller := range []string{"c", "b", "a"} {
		for _, e := range w.eps {
			o, msg := w.call(caller, e)
			if o == oInfra {
				// one retry: a transient stream problem is not an observation
				time.Sleep(200 * time.Millisecond)
				o, msg = w.call(caller, e)
			}
			if o == oInfra {
				res.Infra("script %d step %d: %s -> %s: %s", sc.ID, step, caller, e.name(), msg)
				continue
			}
			c := callJ{E: e.name(), P: caller, Local: caller == "a", Auth: o == oAuthorized}
			if !c.Auth || msg != "" {
				c.Err = msg
			}
			r.Calls = append(r.Calls, c)
		}
	}
	return r
}

func runScript(sc *script, tr *hx.Tracer, res *hx.Result) error {
	names := hx.NewNames(hx.Seed())
	w, err := newWorld(sc, names)
	if err != nil {
		return err
	}
	defer w.close()
	ctx := context.Background()
	emit := func(r *stepRec) {
		b, _ := json.Marshal(r)
		var m map[string]interface{}
		json.Unmarshal(b, &m)
		kv := []interface{}{}
		for k, v := range m {
			kv = append(kv, k, v)
		}
		tr.Emit("step", kv...)
		nontrivial := 0
		for _, c := range r.Calls {
			if !c.Local {
				nontrivial++
			}
		}
		res.Count(len(r.Calls) + len(r.Trust) - 1)
		res.Case(map[string]interface{}{"cfg": r.Cfg, "holes": len(r.Holes), "hist": r.Hist, "tracing": sc.Tracing,
			"remote_calls": nontrivial, "sample": r.Calls[:3]}, true)
	}
	emit(w.observe(sc, 0, names, res))
	for i, a := range sc.Acts {
		pid := names.Peer(a.P)
		switch a.A {
		case "trust":
			err = w.cons.Trust(ctx, pid)
		case "distrust":
			err = w.cons.Distrust(ctx, pid)
		default:
			if !strings.HasPrefix(a.A, "call:") {
				err = fmt.Errorf("unknown act %q", a.A)
				break
			}
			// remote peer a.P invokes one open endpoint; the sweep that follows shows
			// whether that bought it anything
			err = fmt.Errorf("no endpoint %q", a.A)
			for _, e := range w.eps {
				if "call:"+e.name() == a.A {
					err = nil
					if o, msg := w.call(a.P, e); o == oInfra {
						err = fmt.Errorf("%s from %s: %s", e.name(), a.P, msg)
					}
				}
			}
		}
		if err != nil {
			return fmt.Errorf("script %d act %d: %v", sc.ID, i, err)
		}
		emit(w.observe(sc, i+1, names, res))
	}
	return nil
}

// TestRPC replays the scripts of $VERIF_IN and writes one record per step to $VERIF_TRACE.
func TestRPC(t *testing.T) {
	rig.Quiet()
	res := hx.NewResult()
	defer res.Write()
	lines, err := hx.LoadCases()
	if err != nil {
		res.Infra("loading scripts: %v", err)
		return
	}
	tr, err := hx.OpenTrace(os.Getenv("VERIF_TRACE"))
	if err != nil {
		res.Infra("trace: %v", err)
		return
	}
	defer tr.Close()
	res.Set("endpoints_by_reflection", len(endpoints()))
	var scripts []*script
	for _, l := range lines {
		sc := &script{}
		if err := json.Unmarshal(l, sc); err != nil {
			res.Infra("bad script: %v", err)
			return
		}
		scripts = append(scripts, sc)
	}
	parallel(len(scripts), hx.EnvInt("C07_PAR", 4), func(i int) {
		if err := runScript(scripts[i], tr, res); err != nil {
			res.Infra("script %d: %v", scripts[i].ID, err)
		}
	})
}

// parallel runs f(0..n-1) on k workers.
func parallel(n, k int, f func(i int)) {
	ch := make(chan int)
	done := make(chan struct{})
	for w := 0; w < k; w++ {
		go func() {
			for i := range ch {
				f(i)
			}
			done <- struct{}{}
		}()
	}
	for i := 0; i < n; i++ {
		ch <- i
	}
	close(ch)
	for w := 0; w < k; w++ {
		<-done
	}
}
