package hx

import (
	"sync"

	"crypto/ed25519"
	"crypto/sha256"
	"fmt"
	"sort"

	cid "github.com/ipfs/go-cid"
	crypto "github.com/libp2p/go-libp2p-core/crypto"
	peer "github.com/libp2p/go-libp2p-core/peer"
	mh "github.com/multiformats/go-multihash"
)

// Names maps the specification's model values (c1, c2, p1 ...) to concrete
// values, deterministically from the seed, and back.
type Names struct {
	mu     sync.Mutex
	seed   int64
	cids   map[string]cid.Cid
	rcids  map[string]string
	peers  map[string]peer.ID
	rpeers map[peer.ID]string
	// CidV1 makes odd-numbered CIDs version 1 (both versions are exercised).
	MixVersions bool
}

// NewNames creates a table for a seed.
func NewNames(seed int64) *Names {
	return &Names{seed: seed, cids: map[string]cid.Cid{}, rcids: map[string]string{},
		peers: map[string]peer.ID{}, rpeers: map[peer.ID]string{}, MixVersions: true}
}

// Cid returns the concrete CID of an abstract name.
func (n *Names) Cid(name string) cid.Cid {
	n.mu.Lock()
	defer n.mu.Unlock()
	if c, ok := n.cids[name]; ok {
		return c
	}
	sum := sha256.Sum256([]byte(fmt.Sprintf("cid/%d/%s", n.seed, name)))
	h, _ := mh.Encode(sum[:], mh.SHA2_256)
	var c cid.Cid
	if n.MixVersions && len(name) > 0 && (name[len(name)-1]-'0')%2 == 0 {
		c = cid.NewCidV1(cid.Raw, h)
	} else {
		c = cid.NewCidV0(h)
	}
	n.cids[name] = c
	n.rcids[c.String()] = name
	return c
}

// CidName returns the abstract name of a concrete CID ("?<cid>" when unknown).
func (n *Names) CidName(c cid.Cid) string {
	n.mu.Lock()
	defer n.mu.Unlock()
	if s, ok := n.rcids[c.String()]; ok {
		return s
	}
	return "?" + c.String()
}

// Peer returns the concrete peer ID of an abstract name.
func (n *Names) Peer(name string) peer.ID {
	n.mu.Lock()
	if p, ok := n.peers[name]; ok {
		n.mu.Unlock()
		return p
	}
	n.mu.Unlock()
	sum := sha256.Sum256([]byte(fmt.Sprintf("peer/%d/%s", n.seed, name)))
	priv := ed25519.NewKeyFromSeed(sum[:])
	pk, err := crypto.UnmarshalEd25519PublicKey(priv.Public().(ed25519.PublicKey))
	if err != nil {
		panic(err)
	}
	p, err := peer.IDFromPublicKey(pk)
	if err != nil {
		panic(err)
	}
	n.SetPeer(name, p)
	return p
}

// SetPeer binds an abstract name to an existing peer ID (e.g. a live host).
func (n *Names) SetPeer(name string, p peer.ID) {
	n.mu.Lock()
	n.peers[name] = p
	n.rpeers[p] = name
	n.mu.Unlock()
}

// PeerName returns the abstract name of a peer ID.
func (n *Names) PeerName(p peer.ID) string {
	n.mu.Lock()
	defer n.mu.Unlock()
	if s, ok := n.rpeers[p]; ok {
		return s
	}
	return "?" + p.Pretty()
}

// Peers maps a list of names.
func (n *Names) Peers(names []string) []peer.ID {
	out := make([]peer.ID, 0, len(names))
	for _, s := range names {
		out = append(out, n.Peer(s))
	}
	return out
}

// PeerNames maps peer IDs to names (order preserved).
func (n *Names) PeerNames(ps []peer.ID) []string {
	out := make([]string, 0, len(ps))
	for _, p := range ps {
		out = append(out, n.PeerName(p))
	}
	return out
}

// SortedPeerNames maps and sorts.
func (n *Names) SortedPeerNames(ps []peer.ID) []string {
	out := n.PeerNames(ps)
	sort.Strings(out)
	return out
}
