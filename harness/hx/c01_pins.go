package hx

// Concretisation of the abstract pin values of spec/RaftPinset.tla (C01, C17):
// (cid name, variant name) -> a well-formed api.Pin drawn from the whole value
// space that survives the msgpack log form and the protobuf store form, and
// the field-by-field comparators the drivers use (never Pin.Equals).
//
// Limit: pins carry no Origins (a pin with Origins cannot be msgpack-decoded
// from the raft log at the pinned commit: that is C08's finding).

import (
	"fmt"
	"math/rand"
	"sort"
	"strings"
	"time"

	"github.com/ipfs/ipfs-cluster/api"

	cid "github.com/ipfs/go-cid"
	peer "github.com/libp2p/go-libp2p-core/peer"
)

// PinGen produces and remembers the concrete pin of every (cid, variant).
type PinGen struct {
	Names *Names
	rng   *rand.Rand
	pins  map[string]*api.Pin
	byCid map[string][]string // cid name -> variants generated so far
	// TagKey, when set, adds Metadata[TagKey] = variant to every generated pin,
	// so that hooks can identify the operation a pin belongs to.
	TagKey string
}

// NewPinGen creates a generator; all choices derive from seed.
func NewPinGen(names *Names, seed int64) *PinGen {
	return &PinGen{Names: names, rng: rand.New(rand.NewSource(seed)), pins: map[string]*api.Pin{}, byCid: map[string][]string{}}
}

var pinNames = []string{"", "a", "name with spaces", "ünicöde-名前", "x/y?z#w", strings.Repeat("n", 300)}

func (g *PinGen) somePeers() []peer.ID {
	n := g.rng.Intn(4)
	out := make([]peer.ID, 0, n)
	perm := g.rng.Perm(5)
	for i := 0; i < n; i++ {
		out = append(out, g.Names.Peer(fmt.Sprintf("alloc%d", perm[i])))
	}
	return out
}

func (g *PinGen) fresh(c cid.Cid) *api.Pin {
	r := g.rng
	p := &api.Pin{Cid: c}
	switch r.Intn(6) {
	case 0:
		p.Type, p.MaxDepth = api.MetaType, 0
	case 1:
		p.Type, p.MaxDepth = api.ClusterDAGType, 0
	case 2:
		p.Type, p.MaxDepth = api.ShardType, api.PinDepth(1+r.Intn(2))
	case 3:
		p.Type, p.MaxDepth = api.DataType, 0
	default:
		p.Type, p.MaxDepth = api.DataType, -1
	}
	p.Mode = modeOf(p.MaxDepth)
	p.Allocations = g.somePeers()
	f := [][2]int{{-1, -1}, {1, 1}, {1, 3}, {2, 3}, {0, 0}, {2, 2}}[r.Intn(6)]
	p.ReplicationFactorMin, p.ReplicationFactorMax = f[0], f[1]
	p.Name = pinNames[r.Intn(len(pinNames))]
	if r.Intn(3) == 0 {
		p.ShardSize = uint64(r.Int63())
	}
	if r.Intn(2) == 0 {
		p.UserAllocations = g.somePeers()
	}
	switch r.Intn(4) {
	case 0:
		p.ExpireAt = time.Unix(time.Now().Unix()+int64(3600+r.Intn(1000000)), 0)
	case 1:
		p.ExpireAt = time.Unix(int64(1000000+r.Intn(1000000)), 0) // long expired
	}
	switch r.Intn(4) {
	case 0:
		p.Metadata = map[string]string{}
	case 1:
		p.Metadata = map[string]string{"k": "v"}
	case 2:
		p.Metadata = map[string]string{"k": "", "": "empty key", "k2": "é\n\"q\""}
	}
	if r.Intn(3) == 0 {
		p.PinUpdate = g.Names.Cid(fmt.Sprintf("upd%d", r.Intn(3)))
	}
	if r.Intn(3) == 0 {
		ref := g.Names.Cid(fmt.Sprintf("ref%d", r.Intn(3)))
		p.Reference = &ref
	}
	return p
}

func modeOf(d api.PinDepth) api.PinMode {
	if d == 0 {
		return api.PinModeDirect
	}
	return api.PinModeRecursive
}

// mutateOne changes exactly one stored field of a copy of p.
func (g *PinGen) mutateOne(p *api.Pin) *api.Pin {
	q := ClonePin(p)
	switch g.rng.Intn(9) {
	case 0:
		if q.Type == api.DataType {
			q.MaxDepth = -1 - q.MaxDepth // -1 <-> 0
			q.Mode = modeOf(q.MaxDepth)
		} else {
			q.Name += "'"
		}
	case 1:
		q.Allocations = append(append([]peer.ID{}, q.Allocations...), g.Names.Peer("allocX"))
	case 2:
		if len(q.Allocations) > 1 {
			q.Allocations[0], q.Allocations[1] = q.Allocations[1], q.Allocations[0]
		} else {
			q.Allocations = []peer.ID{g.Names.Peer("allocY")}
		}
	case 3:
		q.Name += "'"
	case 4:
		m := map[string]string{}
		for k, v := range q.Metadata {
			m[k] = v
		}
		if _, ok := m["k"]; ok {
			delete(m, "k")
		} else {
			m["k"] = "added"
		}
		q.Metadata = m
	case 5:
		q.ExpireAt = time.Unix(q.ExpireAt.Unix()+7+int64(g.rng.Intn(100000)), 0)
		if q.ExpireAt.Unix() <= 0 {
			q.ExpireAt = time.Unix(5000000, 0)
		}
	case 6:
		q.ReplicationFactorMax++
		if q.ReplicationFactorMax == 0 {
			q.ReplicationFactorMax = 1
		}
	case 7:
		if q.Type == api.DataType {
			q.Type = api.MetaType
			q.MaxDepth = 0
			q.Mode = api.PinModeDirect
		} else {
			q.Type = api.DataType
			q.MaxDepth = -1
			q.Mode = api.PinModeRecursive
		}
	default:
		if q.Reference == nil {
			ref := g.Names.Cid("refZ")
			q.Reference = &ref
		} else {
			q.Reference = nil
		}
	}
	return q
}

// Pin returns the concrete pin of (cid name, variant).
func (g *PinGen) Pin(cidName, variant string) *api.Pin {
	key := cidName + "/" + variant
	if p, ok := g.pins[key]; ok {
		return ClonePin(p)
	}
	c := g.Names.Cid(cidName)
	var p *api.Pin
	for try := 0; ; try++ {
		others := g.byCid[cidName]
		if len(others) > 0 && g.rng.Intn(2) == 0 {
			p = g.mutateOne(g.pins[cidName+"/"+others[g.rng.Intn(len(others))]])
		} else {
			p = g.fresh(c)
		}
		ok := true
		for _, o := range others {
			if StoredDiff(p, g.pins[cidName+"/"+o]) == "" {
				ok = false
			}
		}
		if ok || try > 50 {
			break
		}
	}
	if g.TagKey != "" {
		if p.Metadata == nil {
			p.Metadata = map[string]string{}
		}
		p.Metadata[g.TagKey] = variant
	}
	g.pins[key] = p
	g.byCid[cidName] = append(g.byCid[cidName], variant)
	return ClonePin(p)
}

// ClonePin deep-copies a pin.
func ClonePin(p *api.Pin) *api.Pin {
	q := *p
	q.Allocations = append([]peer.ID(nil), p.Allocations...)
	q.UserAllocations = append([]peer.ID(nil), p.UserAllocations...)
	if p.Metadata != nil {
		q.Metadata = map[string]string{}
		for k, v := range p.Metadata {
			q.Metadata[k] = v
		}
	}
	if p.Reference != nil {
		r := *p.Reference
		q.Reference = &r
	}
	q.Origins = nil
	return &q
}

func peersStr(ps []peer.ID) string {
	s := make([]string, len(ps))
	for i, p := range ps {
		s[i] = p.Pretty()
	}
	return strings.Join(s, ",")
}

func metaStr(m map[string]string) string {
	ks := make([]string, 0, len(m))
	for k := range m {
		ks = append(ks, k)
	}
	sort.Strings(ks)
	var b strings.Builder
	for _, k := range ks {
		fmt.Fprintf(&b, "%q=%q;", k, m[k])
	}
	return b.String()
}

func expStr(t time.Time) string {
	if t.IsZero() || t.Unix() == 0 {
		return "never"
	}
	return fmt.Sprint(t.Unix())
}

func refStr(c *cid.Cid) string {
	if c == nil {
		return "nil"
	}
	return c.String()
}

// StoredDiff compares, field by field, every field of a pin that the shared
// pinset stores (UserAllocations and the derived Mode option are not stored;
// Mode is compared through MaxDepth and separately as derived). It returns ""
// when equal, else the name of the first differing field with both values.
func StoredDiff(got, want *api.Pin) string {
	if got == nil || want == nil {
		return "nil pin"
	}
	type f struct{ n, a, b string }
	fs := []f{
		{"cid", got.Cid.String(), want.Cid.String()},
		{"type", fmt.Sprint(uint64(got.Type)), fmt.Sprint(uint64(want.Type))},
		{"max_depth", fmt.Sprint(got.MaxDepth), fmt.Sprint(want.MaxDepth)},
		{"mode", fmt.Sprint(int(got.Mode)), fmt.Sprint(int(modeOf(want.MaxDepth)))},
		{"allocations", peersStr(got.Allocations), peersStr(want.Allocations)},
		{"reference", refStr(got.Reference), refStr(want.Reference)},
		{"replication_factor_min", fmt.Sprint(got.ReplicationFactorMin), fmt.Sprint(want.ReplicationFactorMin)},
		{"replication_factor_max", fmt.Sprint(got.ReplicationFactorMax), fmt.Sprint(want.ReplicationFactorMax)},
		{"name", got.Name, want.Name},
		{"shard_size", fmt.Sprint(got.ShardSize), fmt.Sprint(want.ShardSize)},
		{"expire_at", expStr(got.ExpireAt), expStr(want.ExpireAt)},
		{"metadata", metaStr(got.Metadata), metaStr(want.Metadata)},
		{"pin_update", got.PinUpdate.String(), want.PinUpdate.String()},
	}
	for _, x := range fs {
		if x.a != x.b {
			return fmt.Sprintf("%s: got %q want %q", x.n, trunc(x.a), trunc(x.b))
		}
	}
	return ""
}

// HandoffDiff compares what the statement promises about the tracker
// hand-off: same CID, type, mode and allocations as stored.
func HandoffDiff(got, want *api.Pin) string {
	if got == nil || want == nil {
		return "nil pin"
	}
	if got.Cid.String() != want.Cid.String() {
		return fmt.Sprintf("cid: got %s want %s", got.Cid, want.Cid)
	}
	if got.Type != want.Type {
		return fmt.Sprintf("type: got %d want %d", got.Type, want.Type)
	}
	if got.Mode != modeOf(want.MaxDepth) {
		return fmt.Sprintf("mode: got %d want %d", got.Mode, modeOf(want.MaxDepth))
	}
	if got.MaxDepth != want.MaxDepth {
		return fmt.Sprintf("max_depth: got %d want %d", got.MaxDepth, want.MaxDepth)
	}
	if peersStr(got.Allocations) != peersStr(want.Allocations) {
		return fmt.Sprintf("allocations: got %s want %s", trunc(peersStr(got.Allocations)), trunc(peersStr(want.Allocations)))
	}
	return ""
}

func trunc(s string) string {
	if len(s) > 120 {
		return s[:120] + "..."
	}
	return s
}

// Project maps a real pinset to the specification's form: cid name -> variant
// name (or "?<first difference>" when the stored pin equals no known variant,
// "?unknown-cid" for a CID the driver never created). cids lists the cid
// names of the model; absent ones map to "none".
func (g *PinGen) Project(pins []*api.Pin, cids []string) map[string]string {
	out := map[string]string{}
	for _, c := range cids {
		out[c] = "none"
	}
	for _, p := range pins {
		name := g.Names.CidName(p.Cid)
		if _, ok := out[name]; !ok {
			out[name] = "?unknown-cid"
			continue
		}
		out[name] = g.Variant(name, p, StoredDiff)
	}
	return out
}

// Variant names the variant of cidName that p equals under diff.
func (g *PinGen) Variant(cidName string, p *api.Pin, diff func(got, want *api.Pin) string) string {
	first := ""
	for _, v := range g.byCid[cidName] {
		d := diff(p, g.pins[cidName+"/"+v])
		if d == "" {
			return v
		}
		if first == "" {
			first = d
		}
	}
	return "?" + first
}

// VariantsMatching lists every known variant of cidName that p equals under
// diff (the hand-off comparison cannot tell variants apart that differ only in
// fields the statement does not mention).
func (g *PinGen) VariantsMatching(cidName string, p *api.Pin, diff func(got, want *api.Pin) string) []string {
	out := []string{}
	for _, v := range g.byCid[cidName] {
		if diff(p, g.pins[cidName+"/"+v]) == "" {
			out = append(out, v)
		}
	}
	return out
}
