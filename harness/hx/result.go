// Package hx is the shared toolbox of the verification drivers: the result
// file every driver writes for tools/vcheck.py, case loading, the NDJSON trace
// writer and the abstract-name tables (c1.. -> real CIDs, p1.. -> real peer IDs).
package hx

import (
	"bufio"
	"crypto/sha1"
	"encoding/hex"
	"encoding/json"
	"fmt"
	"os"
	"strconv"
	"sync"
)

// Violation is one property violation observed on real-code behaviour.
// Key identifies the failing input / call site / history class; it is what
// known_findings.json is matched against, so keep it narrow and stable.
type Violation struct {
	Key  string      `json:"key"`
	What string      `json:"what"`
	Case interface{} `json:"case"`
}

// Result is the driver -> orchestrator contract (written to $VERIF_OUT).
type Result struct {
	mu          sync.Mutex
	Evaluations int                    `json:"evaluations"`
	Distinct    int                    `json:"distinct_nontrivial"`
	Samples     []interface{}          `json:"samples"`
	Violations  []Violation            `json:"violations"`
	InfraMsgs   []string               `json:"infra"`
	Traces      int                    `json:"traces"`
	Extra       map[string]interface{} `json:"extra"`
	seen        map[string]bool
	vkeys       map[string]int
	MaxSamples  int `json:"-"`
}

// NewResult creates an empty result.
func NewResult() *Result {
	return &Result{Extra: map[string]interface{}{}, seen: map[string]bool{}, vkeys: map[string]int{}, MaxSamples: 4}
}

// Hash returns a short content hash of any JSON-able value.
func Hash(v interface{}) string {
	b, _ := json.Marshal(v)
	s := sha1.Sum(b)
	return hex.EncodeToString(s[:8])
}

// Case counts one executed case. nontrivial says whether it is non-trivial by
// the property's stated rule; id is the abstract content of the case (hashed to
// count distinct ones).
func (r *Result) Case(id interface{}, nontrivial bool) {
	r.mu.Lock()
	defer r.mu.Unlock()
	r.Evaluations++
	if nontrivial {
		h := Hash(id)
		if !r.seen[h] {
			r.seen[h] = true
			r.Distinct++
		}
	}
	if len(r.Samples) < r.MaxSamples {
		r.Samples = append(r.Samples, id)
	}
}

// Count adds n evaluations without a sample.
func (r *Result) Count(n int) {
	r.mu.Lock()
	r.Evaluations += n
	r.mu.Unlock()
}

// Violation records a violation (at most 5 cases are kept per key).
func (r *Result) Violation(key, what string, c interface{}) {
	r.mu.Lock()
	defer r.mu.Unlock()
	r.vkeys[key]++
	if r.vkeys[key] > 5 {
		return
	}
	r.Violations = append(r.Violations, Violation{Key: key, What: what, Case: c})
}

// Infra records an infrastructure problem (never a verdict).
func (r *Result) Infra(format string, a ...interface{}) {
	r.mu.Lock()
	defer r.mu.Unlock()
	if len(r.InfraMsgs) < 50 {
		r.InfraMsgs = append(r.InfraMsgs, fmt.Sprintf(format, a...))
	}
}

// AddTraces counts traces that were replayed step by step with every step matching.
func (r *Result) AddTraces(n int) {
	r.mu.Lock()
	r.Traces += n
	r.mu.Unlock()
}

// Set stores an extra coverage key.
func (r *Result) Set(k string, v interface{}) {
	r.mu.Lock()
	r.Extra[k] = v
	r.mu.Unlock()
}

// Write writes the result to $VERIF_OUT (or stdout when unset).
func (r *Result) Write() error {
	r.mu.Lock()
	defer r.mu.Unlock()
	if r.Samples == nil {
		r.Samples = []interface{}{}
	}
	if r.Violations == nil {
		r.Violations = []Violation{}
	}
	if r.InfraMsgs == nil {
		r.InfraMsgs = []string{}
	}
	b, err := json.MarshalIndent(r, "", " ")
	if err != nil {
		return err
	}
	p := os.Getenv("VERIF_OUT")
	if p == "" {
		fmt.Println(string(b))
		return nil
	}
	return os.WriteFile(p, b, 0644)
}

// Seed returns $VERIF_SEED (default 1).
func Seed() int64 {
	n, err := strconv.ParseInt(os.Getenv("VERIF_SEED"), 10, 64)
	if err != nil {
		return 1
	}
	return n
}

// Thorough reports whether $VERIF_TIER is "thorough".
func Thorough() bool { return os.Getenv("VERIF_TIER") == "thorough" }

// EnvInt reads an integer environment variable with a default.
func EnvInt(name string, def int) int {
	n, err := strconv.Atoi(os.Getenv(name))
	if err != nil {
		return def
	}
	return n
}

// ReplayCase returns the stored case of a replay file ($VERIF_REPLAY) or nil.
func ReplayCase() (json.RawMessage, bool) {
	p := os.Getenv("VERIF_REPLAY")
	if p == "" {
		return nil, false
	}
	b, err := os.ReadFile(p)
	if err != nil {
		return nil, false
	}
	var w struct {
		Case json.RawMessage `json:"case"`
	}
	if json.Unmarshal(b, &w) != nil || len(w.Case) == 0 {
		return nil, false
	}
	return w.Case, true
}

// EachLine calls f for every non-empty line of an NDJSON file.
func EachLine(path string, f func(line []byte) error) error {
	fh, err := os.Open(path)
	if err != nil {
		return err
	}
	defer fh.Close()
	sc := bufio.NewScanner(fh)
	sc.Buffer(make([]byte, 1<<20), 1<<28)
	for sc.Scan() {
		b := sc.Bytes()
		if len(b) == 0 {
			continue
		}
		cp := make([]byte, len(b))
		copy(cp, b)
		if err := f(cp); err != nil {
			return err
		}
	}
	return sc.Err()
}

// LoadCases reads the NDJSON cases of $VERIF_IN (or the single case of $VERIF_REPLAY).
func LoadCases() ([]json.RawMessage, error) {
	if c, ok := ReplayCase(); ok {
		return []json.RawMessage{c}, nil
	}
	p := os.Getenv("VERIF_IN")
	if p == "" {
		return nil, fmt.Errorf("VERIF_IN not set")
	}
	var out []json.RawMessage
	err := EachLine(p, func(b []byte) error {
		out = append(out, json.RawMessage(b))
		return nil
	})
	return out, err
}
