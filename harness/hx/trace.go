package hx

import (
	"bufio"
	"encoding/json"
	"os"
	"sync"
)

// Tracer writes NDJSON events. One mutex assigns seq and writes the line, so
// the file order is the order in which events were emitted.
type Tracer struct {
	mu  sync.Mutex
	f   *os.File
	w   *bufio.Writer
	seq int
	run interface{}
	n   int
}

// OpenTrace opens (truncates) an NDJSON trace file.
func OpenTrace(path string) (*Tracer, error) {
	f, err := os.Create(path)
	if err != nil {
		return nil, err
	}
	return &Tracer{f: f, w: bufio.NewWriterSize(f, 1<<16)}, nil
}

// Reset starts a new trace inside the same file: emits {"ev":"reset","run":id}.
func (t *Tracer) Reset(run interface{}, kv ...interface{}) {
	t.mu.Lock()
	t.seq = 0
	t.run = run
	t.mu.Unlock()
	t.Emit("reset", kv...)
}

// Emit writes one event: ev plus key/value pairs.
func (t *Tracer) Emit(ev string, kv ...interface{}) {
	if t == nil {
		return
	}
	m := map[string]interface{}{"ev": ev}
	for i := 0; i+1 < len(kv); i += 2 {
		m[kv[i].(string)] = kv[i+1]
	}
	t.mu.Lock()
	defer t.mu.Unlock()
	t.seq++
	m["seq"] = t.seq
	if t.run != nil {
		m["run"] = t.run
	}
	b, _ := json.Marshal(m)
	t.w.Write(b)
	t.w.WriteByte('\n')
	t.n++
}

// Lines returns the number of lines written.
func (t *Tracer) Lines() int {
	t.mu.Lock()
	defer t.mu.Unlock()
	return t.n
}

// Close flushes and closes the file.
func (t *Tracer) Close() error {
	t.mu.Lock()
	defer t.mu.Unlock()
	t.w.Flush()
	return t.f.Close()
}
