package hx

import cid "github.com/ipfs/go-cid"

// SetCid binds an abstract name to an existing CID (e.g. the CID of a block
// the driver built).
func (n *Names) SetCid(name string, c cid.Cid) {
	n.cids[name] = c
	n.rcids[c.String()] = name
}
