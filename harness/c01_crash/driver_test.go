//go:build verif
// +build verif

// C01 seam 3: process-level crash points. The test binary re-executes itself
// as a CHILD (C01CRASH_CHILD=1) hosting ONE real single-peer raft.Consensus:
// real hashicorp raft, real raft.db (boltdb) + file snapshots in the data
// folder given by the parent, and - as in production (cmdutils/state.go
// raftStateManager.GetStore) - an IN-MEMORY pinset store (inmem.New()), so a
// SIGKILL loses the fsm and a restart rebuilds it from snapshot + log replay.
// The parent scripts ops over the child's stdin, SIGKILLs it after acks / while
// an op is in flight, restarts it on the same folder and records what it saw
// as an NDJSON trace ($VERIF_TRACE). No verdict is computed here: TLC validates
// the trace against spec/RaftCrashTrace.tla (tools/props/c01crash.py).
package c01crash

import (
	"bufio"
	"context"
	"encoding/base64"
	"encoding/json"
	"fmt"
	"math/rand"
	"os"
	"os/exec"
	"path/filepath"
	"strconv"
	"strings"
	"sync"
	"testing"
	"time"

	"verifharness/hx"

	"github.com/ipfs/ipfs-cluster/api"
	"github.com/ipfs/ipfs-cluster/consensus/raft"
	"github.com/ipfs/ipfs-cluster/datastore/inmem"

	libp2p "github.com/libp2p/go-libp2p"
	crypto "github.com/libp2p/go-libp2p-core/crypto"
	rpc "github.com/libp2p/go-libp2p-gorpc"
)

var cids = []string{"c1", "c2", "c3"}

// ------------------------------------------------------------------ child

type trackerSvc struct{}

func (t *trackerSvc) Track(ctx context.Context, in *api.Pin, out *struct{}) error   { return nil }
func (t *trackerSvc) Untrack(ctx context.Context, in *api.Pin, out *struct{}) error { return nil }

func childPin(names *hx.Names, cidName string, id int) *api.Pin {
	p := api.PinCid(names.Cid(cidName))
	p.Name = "v" + strconv.Itoa(id)
	p.ReplicationFactorMin = -1
	p.ReplicationFactorMax = -1
	p.Metadata = map[string]string{"op": strconv.Itoa(id)}
	return p
}

func TestChild(t *testing.T) {
	if os.Getenv("C01CRASH_CHILD") != "1" {
		t.Skip("child entry point")
	}
	out := bufio.NewWriter(os.Stdout)
	say := func(f string, a ...interface{}) { fmt.Fprintf(out, f+"\n", a...); out.Flush() }
	// stdin closed (parent gone or done) => exit at once, whatever we are doing: no orphans
	lines := make(chan string, 16)
	go func() {
		sc := bufio.NewScanner(os.Stdin)
		for sc.Scan() {
			lines <- sc.Text()
		}
		os.Exit(3)
	}()
	die := func(f string, a ...interface{}) { say("fatal "+f, a...); os.Exit(4) }
	ctx := context.Background()
	dir := os.Getenv("C01CRASH_DIR")
	kb, err := base64.StdEncoding.DecodeString(os.Getenv("C01CRASH_KEY"))
	if err != nil {
		die("key: %v", err)
	}
	key, err := crypto.UnmarshalPrivateKey(kb)
	if err != nil {
		die("key: %v", err)
	}
	h, err := libp2p.New(ctx, libp2p.Identity(key), libp2p.ListenAddrStrings("/ip4/127.0.0.1/tcp/0"))
	if err != nil {
		die("host: %v", err)
	}
	cfg := &raft.Config{}
	cfg.Default()
	cfg.DataFolder = filepath.Join(dir, "raft")
	cfg.WaitForLeaderTimeout = 30 * time.Second
	cfg.NetworkTimeout = 5 * time.Second
	cfg.CommitRetries = 1
	cfg.CommitRetryDelay = 100 * time.Millisecond
	cfg.BackupsRotate = 2
	cfg.RaftConfig.HeartbeatTimeout = 500 * time.Millisecond
	cfg.RaftConfig.ElectionTimeout = 500 * time.Millisecond
	cfg.RaftConfig.LeaderLeaseTimeout = 400 * time.Millisecond
	cfg.RaftConfig.CommitTimeout = 20 * time.Millisecond
	if os.Getenv("C01CRASH_SNAP") == "1" { // snapshots + log truncation really happen
		cfg.RaftConfig.SnapshotInterval = 30 * time.Millisecond
		cfg.RaftConfig.SnapshotThreshold = 1
		cfg.RaftConfig.TrailingLogs = uint64(hx.EnvInt("C01CRASH_TRAILING", 0))
	} else { // replay of the whole log
		cfg.RaftConfig.SnapshotInterval = time.Hour
		cfg.RaftConfig.SnapshotThreshold = 1 << 40
	}
	store := inmem.New() // production choice for raft: cmdutils/state.go raftStateManager.GetStore
	cc, err := raft.NewConsensus(h, cfg, store, false)
	if err != nil {
		die("NewConsensus: %v", err)
	}
	srv := rpc.NewServer(nil, "verif")
	if err := srv.RegisterName("PinTracker", &trackerSvc{}); err != nil {
		die("rpc: %v", err)
	}
	cc.SetClient(rpc.NewClientWithServer(nil, "verif", srv))
	select {
	case <-cc.Ready(ctx):
	case <-time.After(60 * time.Second):
		die("consensus not ready after 60s")
	}
	say("ready")
	seed, _ := strconv.ParseInt(os.Getenv("C01CRASH_SEED"), 10, 64)
	names := hx.NewNames(seed)
	for _, c := range cids {
		names.Cid(c) // fills the reverse table used by dump
	}
	for ln := range lines {
		f := strings.Fields(ln)
		switch {
		case len(f) == 3 && (f[0] == "pin" || f[0] == "unpin"):
			id, _ := strconv.Atoi(f[2])
			p := childPin(names, f[1], id)
			var err error
			if f[0] == "pin" {
				err = cc.LogPin(ctx, p)
			} else {
				err = cc.LogUnpin(ctx, p)
			}
			if err == nil {
				say("ack %d", id) // only AFTER the call returned nil
			} else {
				say("err %d %s", id, strings.ReplaceAll(err.Error(), "\n", " "))
			}
		case len(f) == 1 && f[0] == "dump":
			st, err := cc.State(ctx)
			if err != nil {
				say("nostate %s", strings.ReplaceAll(err.Error(), "\n", " "))
				continue
			}
			pins, err := st.List(ctx)
			if err != nil {
				say("nostate %s", strings.ReplaceAll(err.Error(), "\n", " "))
				continue
			}
			m := map[string]int{}
			for _, c := range cids {
				m[c] = 0
			}
			extra := 0
			for _, p := range pins {
				n := names.CidName(p.Cid)
				if _, ok := m[n]; !ok {
					extra++
					continue
				}
				id, err := strconv.Atoi(strings.TrimPrefix(p.Name, "v"))
				if err != nil || p.Metadata["op"] != strconv.Itoa(id) || id <= 0 {
					id = -1 // a stored pin that is no submitted variant
				}
				m[n] = id
			}
			b, _ := json.Marshal(map[string]interface{}{"state": m, "extra": extra})
			say("state %s", b)
		case len(f) == 1 && f[0] == "quit":
			os.Exit(0)
		}
	}
}

// ----------------------------------------------------------------- parent

type infraErr struct{ msg string }

func (e *infraErr) Error() string { return e.msg }
func infraf(f string, a ...interface{}) error { return &infraErr{fmt.Sprintf(f, a...)} }

var (
	regMu    sync.Mutex
	registry = map[*child]bool{}
)

type child struct {
	cmd   *exec.Cmd
	in    *bufio.Writer
	inRaw interface{ Close() error }
	lines chan string
	log   string
}

func startChild(dir, key string, seed int64, snap bool, trailing, n int) (*child, error) {
	cmd := exec.Command(os.Args[0], "-test.run=^TestChild$", "-test.timeout=0")
	snapv := "0"
	if snap {
		snapv = "1"
	}
	cmd.Env = append(os.Environ(), "C01CRASH_CHILD=1", "C01CRASH_DIR="+dir, "C01CRASH_KEY="+key,
		"C01CRASH_SEED="+strconv.FormatInt(seed, 10), "C01CRASH_SNAP="+snapv, "C01CRASH_TRAILING="+strconv.Itoa(trailing))
	logp := filepath.Join(dir, fmt.Sprintf("child-%d.log", n))
	lf, err := os.Create(logp)
	if err != nil {
		return nil, infraf("child log: %v", err)
	}
	defer lf.Close()
	cmd.Stderr = lf
	inp, err := cmd.StdinPipe()
	if err != nil {
		return nil, infraf("pipe: %v", err)
	}
	outp, err := cmd.StdoutPipe()
	if err != nil {
		return nil, infraf("pipe: %v", err)
	}
	if err := cmd.Start(); err != nil {
		return nil, infraf("child start: %v", err)
	}
	c := &child{cmd: cmd, in: bufio.NewWriter(inp), inRaw: inp, lines: make(chan string, 64), log: logp}
	regMu.Lock()
	registry[c] = true
	regMu.Unlock()
	go func() {
		sc := bufio.NewScanner(outp)
		sc.Buffer(make([]byte, 1<<20), 1<<20)
		for sc.Scan() {
			c.lines <- sc.Text()
		}
		close(c.lines)
	}()
	return c, nil
}

// kill SIGKILLs the child, reaps it and returns the lines it had still written.
func (c *child) kill() []string {
	c.cmd.Process.Kill() // SIGKILL
	var rest []string
	for ln := range c.lines {
		rest = append(rest, ln)
	}
	c.cmd.Wait()
	c.inRaw.Close()
	regMu.Lock()
	delete(registry, c)
	regMu.Unlock()
	return rest
}

func killAll() {
	regMu.Lock()
	cs := []*child{}
	for c := range registry {
		cs = append(cs, c)
	}
	regMu.Unlock()
	for _, c := range cs {
		c.kill()
	}
}

func (c *child) send(s string) error {
	if _, err := c.in.WriteString(s + "\n"); err != nil {
		return infraf("write to child: %v", err)
	}
	if err := c.in.Flush(); err != nil {
		return infraf("write to child: %v", err)
	}
	return nil
}

func (c *child) tail() string {
	b, _ := os.ReadFile(c.log)
	if len(b) > 1500 {
		b = b[len(b)-1500:]
	}
	return string(b)
}

// expect waits for a line with one of the prefixes.
func (c *child) expect(d time.Duration, prefixes ...string) (string, error) {
	to := time.After(d)
	for {
		select {
		case ln, ok := <-c.lines:
			if !ok {
				return "", infraf("child exited unexpectedly while waiting for %v; log tail: %s", prefixes, c.tail())
			}
			if strings.HasPrefix(ln, "fatal ") {
				return "", infraf("child: %s; log tail: %s", ln, c.tail())
			}
			for _, p := range prefixes {
				if strings.HasPrefix(ln, p) {
					return ln, nil
				}
			}
		case <-to:
			return "", infraf("timeout (%s) waiting for %v from child; log tail: %s", d, prefixes, c.tail())
		}
	}
}

type ev map[string]interface{}

type runStats struct {
	killsAfterAck, killsInflight, inflightAckSeen, obs, ops, snapshots int
}

// dump asks for the state until two consecutive answers agree (the peer is Ready; this only
// gives a lagging replay more time, it never hides a lost operation)
func dump(c *child) (json.RawMessage, error) {
	prev := ""
	for i := 0; i < 25; i++ {
		if err := c.send("dump"); err != nil {
			return nil, err
		}
		ln, err := c.expect(20*time.Second, "state ", "nostate ")
		if err != nil {
			return nil, err
		}
		if strings.HasPrefix(ln, "state ") {
			s := strings.TrimPrefix(ln, "state ")
			if s == prev {
				return json.RawMessage(s), nil
			}
			prev = s
		}
		time.Sleep(60 * time.Millisecond)
	}
	return nil, infraf("state of the child did not become stable / readable")
}

func obsEv(raw json.RawMessage) (ev, error) {
	var o struct {
		State map[string]int `json:"state"`
		Extra int            `json:"extra"`
	}
	if err := json.Unmarshal(raw, &o); err != nil {
		return nil, infraf("bad state line: %v", err)
	}
	return ev{"ev": "obs", "state": o.State, "extra": o.Extra}, nil
}

// one run = one data folder; nKills kill points, each followed by a restart and an observation
func oneRun(run int, seed int64, nKills int, st *runStats) ([]ev, error) {
	rng := rand.New(rand.NewSource(seed*1000003 + int64(run)))
	dir, err := os.MkdirTemp("", fmt.Sprintf("c01crash-%d-", run))
	if err != nil {
		return nil, infraf("tempdir: %v", err)
	}
	defer os.RemoveAll(dir)
	priv, _, err := crypto.GenerateKeyPair(crypto.Ed25519, 0)
	if err != nil {
		return nil, infraf("key: %v", err)
	}
	kb, _ := crypto.MarshalPrivateKey(priv)
	key := base64.StdEncoding.EncodeToString(kb)
	snap := run%3 != 2 // 2 of 3 runs with aggressive snapshots + truncation, 1 of 3 pure log replay
	trailing := run % 2
	nchild := 0
	start := func() (*child, error) {
		nchild++
		c, err := startChild(dir, key, seed, snap, trailing, nchild)
		if err != nil {
			return nil, err
		}
		if _, err := c.expect(90*time.Second, "ready"); err != nil {
			c.kill()
			return nil, err
		}
		return c, nil
	}
	c, err := start()
	if err != nil {
		return nil, err
	}
	defer func() {
		if c != nil {
			c.kill()
		}
	}()
	evs := []ev{{"ev": "reset", "run": run, "snap": snap, "trailing": trailing}}
	id := 0
	var lat time.Duration = 3 * time.Millisecond
	submit := func() (string, error) {
		id++
		typ := "pin"
		if rng.Intn(3) == 0 {
			typ = "unpin"
		}
		cid := cids[rng.Intn(len(cids))]
		evs = append(evs, ev{"ev": "submit", "id": id, "typ": typ, "cid": cid})
		st.ops++
		return typ, c.send(fmt.Sprintf("%s %s %d", typ, cid, id))
	}
	record := func(ln string) {
		f := strings.Fields(ln)
		if len(f) >= 2 && (f[0] == "ack" || f[0] == "err") {
			n, _ := strconv.Atoi(f[1])
			e := ev{"ev": f[0], "id": n}
			if f[0] == "err" {
				e["msg"] = strings.Join(f[2:], " ")
			}
			evs = append(evs, e)
		}
	}
	for k := 0; k < nKills; k++ {
		nops := 1 + rng.Intn(4)
		inflight := rng.Intn(2) == 0
		for i := 0; i < nops; i++ {
			last := i == nops-1
			t0 := time.Now()
			if _, err := submit(); err != nil {
				return nil, err
			}
			if last && inflight {
				// SIGKILL at a seeded random delay while the op is in flight
				d := time.Duration(rng.Float64() * 0.7 * float64(lat))
				for s0 := time.Now(); time.Since(s0) < d; { // spin: sleep granularity is coarser than an op
				}
				break
			}
			ln, err := c.expect(60*time.Second, "ack ", "err ")
			if err != nil {
				return nil, err
			}
			lat = (lat + time.Since(t0)) / 2
			record(ln)
		}
		if !inflight && rng.Intn(2) == 0 { // the committing peer shows what it acknowledged
			raw, err := dump(c)
			if err != nil {
				return nil, err
			}
			o, err := obsEv(raw)
			if err != nil {
				return nil, err
			}
			evs = append(evs, o)
			st.obs++
		}
		if snap && !inflight {
			time.Sleep(time.Duration(rng.Intn(80)) * time.Millisecond) // sometimes before, sometimes after the snapshot
		}
		for _, ln := range c.kill() { // acks written before the process died precede the kill
			if strings.HasPrefix(ln, "ack ") || strings.HasPrefix(ln, "err ") {
				record(ln)
				if inflight {
					st.inflightAckSeen++
				}
			}
		}
		evs = append(evs, ev{"ev": "kill", "mode": map[bool]string{true: "inflight", false: "after-ack"}[inflight]})
		if inflight {
			st.killsInflight++
		} else {
			st.killsAfterAck++
		}
		if c, err = start(); err != nil {
			return nil, err
		}
		evs = append(evs, ev{"ev": "restart"}, ev{"ev": "ready"})
		raw, err := dump(c)
		if err != nil {
			return nil, err
		}
		o, err := obsEv(raw)
		if err != nil {
			return nil, err
		}
		evs = append(evs, o)
		st.obs++
	}
	if ents, err := os.ReadDir(filepath.Join(dir, "raft", "snapshots")); err == nil && len(ents) > 0 {
		st.snapshots++
	}
	return evs, nil
}

func TestDriver(t *testing.T) {
	if os.Getenv("C01CRASH_CHILD") == "1" {
		t.Skip("child process")
	}
	res := hx.NewResult()
	defer killAll()
	seed := hx.Seed()
	kills := hx.EnvInt("C01CRASH_KILLS", 12)
	perRun := 3
	nRuns := (kills + perRun - 1) / perRun
	par := hx.EnvInt("C01CRASH_PAR", 4)
	type outT struct {
		evs []ev
		err error
		st  runStats
	}
	outs := make([]outT, nRuns)
	sem := make(chan struct{}, par)
	var wg sync.WaitGroup
	for r := 0; r < nRuns; r++ {
		wg.Add(1)
		go func(r int) {
			defer wg.Done()
			sem <- struct{}{}
			defer func() { <-sem }()
			outs[r].evs, outs[r].err = oneRun(r, seed, perRun, &outs[r].st)
		}(r)
	}
	wg.Wait()
	killAll()
	tf, err := os.Create(os.Getenv("VERIF_TRACE"))
	if err != nil {
		res.Infra("trace file: %v", err)
		res.Write()
		return
	}
	w := bufio.NewWriter(tf)
	tot := runStats{}
	good := 0
	for r := range outs {
		if outs[r].err != nil {
			res.Infra("run %d: %v", r, outs[r].err) // start-up failure, timeout, ...: never a verdict
			continue
		}
		good++
		for _, e := range outs[r].evs {
			b, _ := json.Marshal(e)
			w.Write(b)
			w.WriteString("\n")
		}
		s := outs[r].st
		tot.killsAfterAck += s.killsAfterAck
		tot.killsInflight += s.killsInflight
		tot.inflightAckSeen += s.inflightAckSeen
		tot.obs += s.obs
		tot.ops += s.ops
		tot.snapshots += s.snapshots
	}
	w.Flush()
	tf.Close()
	res.Count(tot.killsAfterAck + tot.killsInflight)
	res.Set("c01crash_runs", good)
	res.Set("c01crash_kills_after_ack", tot.killsAfterAck)
	res.Set("c01crash_kills_inflight", tot.killsInflight)
	res.Set("c01crash_inflight_ack_raced_kill", tot.inflightAckSeen)
	res.Set("c01crash_observations", tot.obs)
	res.Set("c01crash_ops", tot.ops)
	res.Set("c01crash_runs_with_snapshot_on_disk", tot.snapshots)
	if err := res.Write(); err != nil {
		t.Fatal(err)
	}
}
