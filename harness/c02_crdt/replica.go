// Package c02 drives real crdt.Consensus replicas (real libp2p hosts, pubsub,
// DHT, ipfs-lite/bitswap, go-ds-crdt) for property C02. The harness owns the
// datastore handed to crdt.New (fault injection, heads/blocks inspection) and
// the PinTracker RPC service that receives the Track/Untrack hand-offs.
package c02

import (
	"bytes"
	"context"
	"errors"
	"fmt"
	"sort"
	"strings"
	"sync"
	"time"

	"verifharness/hx"

	"github.com/ipfs/ipfs-cluster/api"
	"github.com/ipfs/ipfs-cluster/consensus/crdt"
	"github.com/ipfs/ipfs-cluster/datastore/inmem"

	cid "github.com/ipfs/go-cid"
	ds "github.com/ipfs/go-datastore"
	query "github.com/ipfs/go-datastore/query"
	ipns "github.com/ipfs/go-ipns"
	libp2p "github.com/libp2p/go-libp2p"
	host "github.com/libp2p/go-libp2p-core/host"
	peer "github.com/libp2p/go-libp2p-core/peer"
	rpc "github.com/libp2p/go-libp2p-gorpc"
	dht "github.com/libp2p/go-libp2p-kad-dht"
	dual "github.com/libp2p/go-libp2p-kad-dht/dual"
	pubsub "github.com/libp2p/go-libp2p-pubsub"
	record "github.com/libp2p/go-libp2p-record"
	routedhost "github.com/libp2p/go-libp2p/p2p/host/routed"
)

var errInjected = errors.New("verif: injected datastore failure")

// ---------------------------------------------------------------------------
// datastore wrapper

// faultStore wraps the in-memory datastore given to crdt.New. While armed, the
// next write (Put, Delete or Batch.Commit) fails; a commit of go-ds-crdt starts
// with the block write, so one armed failure aborts exactly one commit cleanly.
type faultStore struct {
	ds.Datastore
	mu     sync.Mutex
	armed  int
	onFail func(key string)
	// read faults: the next Query under the set's element namespace (/s/: go-ds-crdt set.Rmv,
	// i.e. a Delete on the crdt datastore) fails
	armedRead  int
	onReadFail func(prefix string)
}

func (f *faultStore) ArmRead(n int) { f.mu.Lock(); f.armedRead += n; f.mu.Unlock() }

// DisarmRead removes pending read faults and returns how many there were.
func (f *faultStore) DisarmRead() int {
	f.mu.Lock()
	defer f.mu.Unlock()
	n := f.armedRead
	f.armedRead = 0
	return n
}

func (f *faultStore) Query(q query.Query) (query.Results, error) {
	f.mu.Lock()
	trip := f.armedRead > 0 && strings.Contains(q.Prefix, "/s/")
	var cb func(string)
	if trip {
		f.armedRead--
		cb = f.onReadFail
	}
	f.mu.Unlock()
	if trip {
		if cb != nil {
			cb(q.Prefix)
		}
		return nil, errInjected
	}
	return f.Datastore.Query(q)
}

func (f *faultStore) trip(key string) bool {
	f.mu.Lock()
	if f.armed <= 0 {
		f.mu.Unlock()
		return false
	}
	f.armed--
	cb := f.onFail
	f.mu.Unlock()
	if cb != nil {
		cb(key)
	}
	return true
}

func (f *faultStore) Arm(n int) { f.mu.Lock(); f.armed += n; f.mu.Unlock() }
func (f *faultStore) Armed() int { f.mu.Lock(); defer f.mu.Unlock(); return f.armed }

func (f *faultStore) Put(k ds.Key, v []byte) error {
	if f.trip(k.String()) {
		return errInjected
	}
	return f.Datastore.Put(k, v)
}

func (f *faultStore) Delete(k ds.Key) error {
	if f.trip(k.String()) {
		return errInjected
	}
	return f.Datastore.Delete(k)
}

type faultBatch struct {
	ds.Batch
	f *faultStore
}

func (b *faultBatch) Commit() error {
	if b.f.trip("batch-commit") {
		return errInjected
	}
	return b.Batch.Commit()
}

func (f *faultStore) Batch() (ds.Batch, error) {
	b, err := f.Datastore.(ds.Batching).Batch()
	if err != nil {
		return nil, err
	}
	return &faultBatch{Batch: b, f: f}, nil
}

// keys lists the keys under a prefix (harness-side inspection of heads / blocks).
func (f *faultStore) keys(prefix string) []string {
	res, err := f.Datastore.Query(query.Query{Prefix: prefix, KeysOnly: true})
	if err != nil {
		return nil
	}
	defer res.Close()
	var out []string
	for r := range res.Next() {
		if r.Error == nil {
			out = append(out, strings.TrimPrefix(r.Key, prefix))
		}
	}
	sort.Strings(out)
	return out
}

// ---------------------------------------------------------------------------
// PinTracker RPC service

type trackerSvc struct {
	emit func(ev string, kv ...interface{})
	val  func(p *api.Pin) string
	name func(c cid.Cid) string
}

func (t *trackerSvc) Track(ctx context.Context, in *api.Pin, out *struct{}) error {
	t.emit("track", "c", t.name(in.Cid), "v", t.val(in))
	return nil
}

func (t *trackerSvc) Untrack(ctx context.Context, in *api.Pin, out *struct{}) error {
	t.emit("untrack", "c", t.name(in.Cid))
	return nil
}

type monitorSvc struct{}

func (m *monitorSvc) LatestMetrics(ctx context.Context, in string, out *[]*api.Metric) error {
	*out = nil
	return nil
}

// ---------------------------------------------------------------------------
// value classes: abstract values of the specification -> concrete pin options

var valueNames = []string{"A", "B", "C"}

func mkPin(c cid.Cid, v string, names *hx.Names) *api.Pin {
	p := api.PinCid(c)
	switch v {
	case "A":
		p.Name = "A"
		p.ReplicationFactorMin = -1
		p.ReplicationFactorMax = -1
	case "B":
		p.Name = "B"
		p.ReplicationFactorMin = 1
		p.ReplicationFactorMax = 2
		p.Metadata = map[string]string{"k": "b"}
		p.Allocations = []peer.ID{names.Peer("p1")}
	case "C":
		p.Name = "C"
		p.ReplicationFactorMin = 2
		p.ReplicationFactorMax = 3
		p.MaxDepth = 1
		p.Mode = api.PinModeDirect
		p.ExpireAt = time.Unix(4102444800, 0)
	default:
		p.Name = "?"
	}
	return p
}

// samePin compares field by field (never Pin.Equals).
func samePin(a, b *api.Pin) bool {
	if a.Cid.String() != b.Cid.String() || a.Type != b.Type || a.MaxDepth != b.MaxDepth ||
		a.Name != b.Name || a.ReplicationFactorMin != b.ReplicationFactorMin ||
		a.ReplicationFactorMax != b.ReplicationFactorMax || a.ShardSize != b.ShardSize ||
		len(a.Allocations) != len(b.Allocations) || len(a.Metadata) != len(b.Metadata) ||
		len(a.Origins) != len(b.Origins) || a.ExpireAt.Unix() != b.ExpireAt.Unix() {
		return false
	}
	if (a.Reference == nil) != (b.Reference == nil) {
		return false
	}
	for i := range a.Allocations {
		if a.Allocations[i] != b.Allocations[i] {
			return false
		}
	}
	for k, v := range a.Metadata {
		if w, ok := b.Metadata[k]; !ok || w != v {
			return false
		}
	}
	return true
}

// valueOf maps a concrete pin back to its abstract value ("?..." when it is none of them).
func valueOf(p *api.Pin, names *hx.Names) string {
	for _, v := range valueNames {
		want := mkPin(p.Cid, v, names)
		if v == "C" {
			// Mode is not serialized; MaxDepth carries it
			want.Mode = p.Mode
		}
		if samePin(p, want) {
			return v
		}
	}
	return "?" + p.Name
}

// valueOrder returns the abstract values sorted ascending by their serialized
// bytes for a CID (go-ds-crdt breaks priority ties with bytes.Compare).
func valueOrder(c cid.Cid, names *hx.Names) ([]string, error) {
	type kv struct {
		n string
		b []byte
	}
	var l []kv
	for _, v := range valueNames {
		b, err := mkPin(c, v, names).ProtoMarshal()
		if err != nil {
			return nil, err
		}
		l = append(l, kv{v, b})
	}
	sort.Slice(l, func(i, j int) bool { return bytes.Compare(l[i].b, l[j].b) < 0 })
	out := []string{}
	for _, e := range l {
		out = append(out, e.n)
	}
	return out, nil
}

// ---------------------------------------------------------------------------
// replica

type replica struct {
	name    string
	h       host.Host
	inner   host.Host
	ps      *pubsub.PubSub
	dht     *dual.DHT
	store   *faultStore
	cons    *crdt.Consensus
	names   *hx.Names
	emit    func(ev string, kv ...interface{})
	ns      string
	closed  bool
}

type replicaOpts struct {
	MaxBatchSize int
	MaxBatchAge  time.Duration
	MaxQueueSize int
	Rebroadcast  time.Duration
	ClusterName  string
	TrustAll     bool
	Trusted      []peer.ID
}

func newReplica(name string, names *hx.Names, o replicaOpts, emit func(ev string, kv ...interface{})) (*replica, error) {
	ctx := context.Background()
	h, err := libp2p.New(ctx, libp2p.ListenAddrStrings("/ip4/127.0.0.1/tcp/0"))
	if err != nil {
		return nil, err
	}
	psub, err := pubsub.NewGossipSub(ctx, h, pubsub.WithMessageSigning(true), pubsub.WithStrictSignatureVerification(true))
	if err != nil {
		h.Close()
		return nil, err
	}
	idht, err := dual.New(ctx, h,
		dual.DHTOption(dht.NamespacedValidator("pk", record.PublicKeyValidator{})),
		dual.DHTOption(dht.NamespacedValidator("ipns", ipns.Validator{KeyBook: h.Peerstore()})),
		dual.DHTOption(dht.Concurrency(10)),
		dual.DHTOption(dht.RoutingTableRefreshPeriod(200*time.Millisecond)),
		dual.DHTOption(dht.RoutingTableRefreshQueryTimeout(100*time.Millisecond)),
	)
	if err != nil {
		h.Close()
		return nil, err
	}
	rh := routedhost.Wrap(h, idht)
	r := &replica{name: name, h: rh, inner: h, ps: psub, dht: idht, names: names, emit: emit}
	r.store = &faultStore{Datastore: inmem.New()}
	r.store.onFail = func(key string) { emit("storefail", "r", name) }
	r.store.onReadFail = func(prefix string) { emit("readfail", "r", name) }

	cfg := &crdt.Config{}
	cfg.Default()
	cfg.ClusterName = o.ClusterName
	if cfg.ClusterName == "" {
		cfg.ClusterName = "verif-c02"
	}
	cfg.DatastoreNamespace = "/c"
	cfg.TrustAll = o.TrustAll
	cfg.TrustedPeers = o.Trusted
	cfg.Batching.MaxBatchSize = o.MaxBatchSize
	cfg.Batching.MaxBatchAge = o.MaxBatchAge
	if o.MaxQueueSize > 0 {
		cfg.Batching.MaxQueueSize = o.MaxQueueSize
	}
	cfg.RebroadcastInterval = time.Second
	if o.Rebroadcast > 0 {
		cfg.RebroadcastInterval = o.Rebroadcast
	}
	r.ns = cfg.DatastoreNamespace
	cons, err := crdt.New(rh, idht, psub, cfg, r.store)
	if err != nil {
		h.Close()
		return nil, err
	}
	r.cons = cons
	srv := rpc.NewServer(nil, "verif-c02")
	tr := &trackerSvc{emit: func(ev string, kv ...interface{}) { emit(ev, append([]interface{}{"r", name}, kv...)...) },
		val:  func(p *api.Pin) string { return valueOf(p, names) },
		name: names.CidName}
	if err := srv.RegisterName("PinTracker", tr); err != nil {
		return nil, err
	}
	if err := srv.RegisterName("PeerMonitor", &monitorSvc{}); err != nil {
		return nil, err
	}
	cons.SetClient(rpc.NewClientWithServer(nil, "verif-c02", srv))
	select {
	case <-cons.Ready(ctx):
	case <-time.After(30 * time.Second):
		r.close()
		return nil, fmt.Errorf("consensus %s not ready after 30s", name)
	}
	return r, nil
}

func (r *replica) close() {
	if r.closed {
		return
	}
	r.closed = true
	ctx, cancel := context.WithTimeout(context.Background(), 20*time.Second)
	defer cancel()
	done := make(chan struct{})
	go func() {
		r.cons.Shutdown(ctx)
		r.dht.Close()
		r.inner.Close()
		close(done)
	}()
	select {
	case <-done:
	case <-ctx.Done():
	}
}

// pins reads State().List() and maps it to abstract (cid, value) pairs.
func (r *replica) pins() ([]map[string]string, error) {
	ctx, cancel := context.WithTimeout(context.Background(), 20*time.Second)
	defer cancel()
	st, err := r.cons.State(ctx)
	if err != nil {
		return nil, err
	}
	l, err := st.List(ctx)
	if err != nil {
		return nil, err
	}
	out := []map[string]string{}
	for _, p := range l {
		out = append(out, map[string]string{"c": r.names.CidName(p.Cid), "v": valueOf(p, r.names)})
	}
	sort.Slice(out, func(i, j int) bool { return out[i]["c"] < out[j]["c"] })
	return out, nil
}

func (r *replica) heads() []string  { return r.store.keys(r.ns + "/h/") }
func (r *replica) blocks() []string { return r.store.keys(r.ns + "/b/") }

// submit calls LogPin / LogUnpin with its OWN request context and classifies the result.
// mode says what happens to that context, as with real callers (REST / RPC requests end as
// soon as the call has returned):
//   "now"   cancelled immediately after the call returns
//   "delay" cancelled ~2ms after the call returns
//   "dl"    carries a 300us deadline (expires while the item is still queued, or earlier)
//   "never" (or "") never cancelled
// Whatever returns nil is accepted and must take effect.
func (r *replica) submit(kind, c, v, mode string) (string, error) {
	ctx, cancel := context.WithCancel(context.Background())
	if mode == "dl" {
		ctx, cancel = context.WithTimeout(context.Background(), 300*time.Microsecond)
	}
	var err error
	if kind == "pin" {
		err = r.cons.LogPin(ctx, mkPin(r.names.Cid(c), v, r.names))
	} else {
		err = r.cons.LogUnpin(ctx, api.PinCid(r.names.Cid(c)))
	}
	switch mode {
	case "now":
		cancel()
	case "delay":
		time.AfterFunc(2*time.Millisecond, cancel)
	case "dl":
		time.AfterFunc(100*time.Millisecond, cancel)
	default:
		_ = cancel
	}
	switch {
	case err == nil:
		return "ok", nil
	case errors.Is(err, crdt.ErrMaxQueueSizeReached):
		return "full", err
	default:
		return "err", err
	}
}
