package c02

import (
	"context"
	"encoding/json"
	"fmt"
	"math/rand"
	"os"
	"sort"
	"sync"
	"sync/atomic"
	"testing"
	"time"

	"verifharness/hx"
	"verifharness/rig"

	"github.com/ipfs/ipfs-cluster/api"
)

// stressRec has the record shape of harness/c18_conc (kind, scenario, out, sent, sent0, panic, result, notes).
type stressRec struct {
	Kind     string   `json:"kind"`     // "crdt"
	Scenario string   `json:"scenario"` // free | free+shutdown
	Out      []int    `json:"out"`
	Sent     int      `json:"sent"`  // calls issued
	Sent0    int      `json:"sent0"` // LogPin/LogUnpin calls that returned nil
	Panic    string   `json:"panic"`
	Result   string   `json:"result"` // done | timeout
	Notes    []string `json:"notes"`  // non-empty = inconsistent (torn) result or stalled component
	Round    int      `json:"round"`
	MaxQ     int      `json:"maxq"`
	MaxSize  int      `json:"maxsize"`
}

type stressState struct {
	mu    sync.Mutex
	notes []string
	pan   string
	sent  int64
	acc   int64
	phase atomic.Value
}

func (s *stressState) note(format string, a ...interface{}) {
	s.mu.Lock()
	if len(s.notes) < 20 {
		s.notes = append(s.notes, fmt.Sprintf(format, a...))
	}
	s.mu.Unlock()
}

func (s *stressState) panicked(where string, p interface{}) {
	s.mu.Lock()
	if s.pan == "" {
		s.pan = fmt.Sprintf("%s: %v", where, p)
	}
	s.mu.Unlock()
}

// one round on ONE real crdt.Consensus with batching enabled
func stressRound(round int, seed int64, shutdown bool, maxq int, st *stressState, res *hx.Result) {
	const workers = 7
	const opsPer = 60
	names := hx.NewNames(seed)
	// pre-create everything the goroutines look up (hx.Names is not meant for concurrent creation)
	names.Peer("p1")
	others := []string{"p2", "p3", "p4"}
	for _, p := range others {
		names.Peer(p)
	}
	cids := make([][]string, workers)
	for g := 0; g < workers; g++ {
		for k := 1; k <= 3; k++ {
			n := fmt.Sprintf("g%dc%d", g, k)
			names.Cid(n)
			cids[g] = append(cids[g], n)
		}
	}
	maxsize := 2 + round%2
	st.phase.Store("start")
	r, err := newReplica("r0", names, replicaOpts{TrustAll: round%4 < 2, MaxBatchSize: maxsize,
		MaxBatchAge: 50 * time.Millisecond, MaxQueueSize: maxq}, func(string, ...interface{}) {})
	if err != nil {
		res.Infra("round %d: cannot create replica: %v", round, err)
		return
	}
	defer r.close()
	// quiescence detection only (counts of hook events)
	var batched, sinceCommit int64
	pid := r.h.ID()
	hookMu.Lock()
	hookMap[pid] = func(ev string, kv ...interface{}) {
		switch ev {
		case "batched":
			atomic.AddInt64(&batched, 1)
			atomic.AddInt64(&sinceCommit, 1)
		case "batcherr":
			atomic.AddInt64(&batched, 1)
		case "commit":
			for i := 0; i+1 < len(kv); i += 2 {
				if kv[i] == "ok" && kv[i+1] == true {
					atomic.StoreInt64(&sinceCommit, 0)
				}
			}
		}
	}
	hookMu.Unlock()
	defer func() {
		hookMu.Lock()
		delete(hookMap, pid)
		hookMu.Unlock()
	}()

	// expected final record per CID: each goroutine owns its CIDs, so the per-CID order is its own order
	expect := make([]map[string]string, workers)
	var issued int64
	var shutDone int32
	var wg sync.WaitGroup
	st.phase.Store("burst")
	for g := 0; g < workers; g++ {
		expect[g] = map[string]string{}
		wg.Add(1)
		go func(g int) {
			defer wg.Done()
			defer func() {
				if p := recover(); p != nil {
					st.panicked(fmt.Sprintf("goroutine %d", g), p)
				}
			}()
			rng := rand.New(rand.NewSource(seed*1000 + int64(g)))
			for n := 0; n < opsPer; n++ {
				atomic.AddInt64(&issued, 1)
				atomic.AddInt64(&st.sent, 1)
				ctx, cancel := context.WithCancel(context.Background())
				release := func() {
					switch rng.Intn(3) {
					case 0:
						cancel()
					case 1:
						time.AfterFunc(time.Millisecond, cancel)
					default:
						time.AfterFunc(200*time.Millisecond, cancel)
					}
				}
				switch x := rng.Intn(100); {
				case x < 40:
					c, v := cids[g][rng.Intn(3)], valueNames[rng.Intn(3)]
					err := r.cons.LogPin(ctx, mkPin(names.Cid(c), v, names))
					if err == nil {
						atomic.AddInt64(&st.acc, 1)
						if atomic.LoadInt32(&shutDone) == 0 {
							expect[g][c] = v
						}
					}
				case x < 60:
					c := cids[g][rng.Intn(3)]
					err := r.cons.LogUnpin(ctx, api.PinCid(names.Cid(c)))
					if err == nil {
						atomic.AddInt64(&st.acc, 1)
						if atomic.LoadInt32(&shutDone) == 0 {
							expect[g][c] = "-"
						}
					}
				case x < 75:
					s, err := r.cons.State(ctx)
					if err == nil {
						pins, err := s.List(ctx)
						if err == nil {
							for _, p := range pins {
								// a torn result: a record that is none of the records ever submitted
								if v := valueOf(p, names); v[0] == '?' || names.CidName(p.Cid)[0] == '?' {
									st.note("State().List() returned a record nobody submitted: cid=%s name=%q rmin=%d rmax=%d",
										names.CidName(p.Cid), p.Name, p.ReplicationFactorMin, p.ReplicationFactorMax)
								}
							}
						}
					}
				case x < 82:
					ps, err := r.cons.Peers(ctx)
					if err == nil && len(ps) != 1 {
						st.note("Peers() returned %d peers for a single replica", len(ps))
					}
				case x < 90:
					r.cons.IsTrustedPeer(ctx, names.Peer(others[rng.Intn(len(others))]))
				case x < 95:
					r.cons.Trust(ctx, names.Peer(others[rng.Intn(len(others))]))
				default:
					r.cons.Distrust(ctx, names.Peer(others[rng.Intn(len(others))]))
				}
				release()
				if maxq < 10 {
					// small queue: pace the callers a little so that refusals and acceptances interleave
					time.Sleep(time.Duration(rng.Intn(3000)) * time.Microsecond)
				} else if n%8 == 7 {
					time.Sleep(time.Duration(rng.Intn(3)) * time.Millisecond)
				}
			}
		}(g)
	}
	if shutdown {
		wg.Add(1)
		go func() {
			defer wg.Done()
			defer func() {
				if p := recover(); p != nil {
					st.panicked("Shutdown", p)
				}
			}()
			for atomic.LoadInt64(&issued) < workers*opsPer/2 {
				time.Sleep(200 * time.Microsecond)
			}
			ctx, cancel := context.WithTimeout(context.Background(), 30*time.Second)
			defer cancel()
			atomic.StoreInt32(&shutDone, 1)
			if err := r.cons.Shutdown(ctx); err != nil {
				st.note("Shutdown returned %v", err)
			}
		}()
	}
	wg.Wait()
	if shutdown {
		// the component is down: further calls may fail or succeed, never panic or block
		st.phase.Store("after-shutdown calls")
		func() {
			defer func() {
				if p := recover(); p != nil {
					st.panicked("LogPin after Shutdown", p)
				}
			}()
			for n := 0; n < maxq+3 && n < 40; n++ {
				ctx, cancel := context.WithCancel(context.Background())
				r.cons.LogPin(ctx, mkPin(names.Cid(cids[0][n%3]), "A", names))
				r.cons.LogUnpin(ctx, api.PinCid(names.Cid(cids[1][n%3])))
				cancel()
				atomic.AddInt64(&st.sent, 2)
			}
			ctx, cancel := context.WithTimeout(context.Background(), 5*time.Second)
			r.cons.State(ctx)
			r.cons.Peers(ctx)
			cancel()
		}()
		return
	}
	// free scenario: everything acknowledged must have been taken by the worker and committed,
	// and the final pinset is exactly the last acknowledged operation per CID
	st.phase.Store("quiesce")
	dl := time.Now().Add(20 * time.Second)
	for time.Now().Before(dl) {
		if atomic.LoadInt64(&batched) == atomic.LoadInt64(&st.acc) && atomic.LoadInt64(&sinceCommit) == 0 {
			break
		}
		time.Sleep(5 * time.Millisecond)
	}
	if atomic.LoadInt64(&batched) != atomic.LoadInt64(&st.acc) || atomic.LoadInt64(&sinceCommit) != 0 {
		st.note("batch worker stalled: %d operations acknowledged, %d taken, %d uncommitted 20s after the burst",
			atomic.LoadInt64(&st.acc), atomic.LoadInt64(&batched), atomic.LoadInt64(&sinceCommit))
		return
	}
	st.phase.Store("final read")
	got, err := r.pins()
	if err != nil {
		st.note("final State().List(): %v", err)
		return
	}
	have := map[string]string{}
	for _, p := range got {
		have[p["c"]] = p["v"]
	}
	var diff []string
	for g := 0; g < workers; g++ {
		for c, v := range expect[g] {
			h, ok := have[c]
			if v == "-" && ok {
				diff = append(diff, fmt.Sprintf("%s: unpinned last, still %s", c, h))
			} else if v != "-" && h != v {
				diff = append(diff, fmt.Sprintf("%s: last acknowledged %s, state has %q", c, v, h))
			}
			delete(have, c)
		}
	}
	for c, h := range have {
		diff = append(diff, fmt.Sprintf("%s: never acknowledged, state has %s", c, h))
	}
	sort.Strings(diff)
	if len(diff) > 0 {
		if len(diff) > 5 {
			diff = diff[:5]
		}
		st.note("final pinset is not the last acknowledged operation per CID: %v", diff)
	}
}

// TestStressConcurrent: free-running concurrent use of one batching crdt.Consensus, in half of the
// rounds with Shutdown() in the middle of the burst. Meant to run with -race (tools/props/c18.py).
func TestStressConcurrent(t *testing.T) {
	rig.Quiet()
	res := hx.NewResult()
	defer res.Write()
	installHook()
	var out *os.File
	if p := os.Getenv("VERIF_TRACE"); p != "" {
		f, err := os.OpenFile(p, os.O_CREATE|os.O_WRONLY|os.O_APPEND, 0644)
		if err != nil {
			res.Infra("trace file: %v", err)
			return
		}
		defer f.Close()
		out = f
	}
	rounds := hx.EnvInt("VERIF_ROUNDS", 4) // free / free+shutdown x queue larger / smaller than the burst
	if hx.Thorough() && os.Getenv("VERIF_ROUNDS") == "" {
		rounds = 24
	}
	seed := hx.Seed()
	for round := 0; round < rounds; round++ {
		shutdown := round%2 == 1
		// queue larger than the burst (7*60 calls) / much smaller than it
		maxq := 1000
		if (round/2+round)%2 == 1 {
			maxq = 3
		}
		scen := "free"
		if shutdown {
			scen = "free+shutdown"
		}
		if p := os.Getenv("VERIF_TRACE"); p != "" {
			os.WriteFile(p+".current", []byte("crdt/"+scen), 0644)
		}
		st := &stressState{}
		st.phase.Store("init")
		done := make(chan struct{})
		go func() {
			defer close(done)
			defer func() {
				if p := recover(); p != nil {
					st.panicked("round", p)
				}
			}()
			stressRound(round, seed*100+int64(round), shutdown, maxq, st, res)
		}()
		rec := stressRec{Kind: "crdt", Scenario: scen, Out: []int{}, Result: "done", Round: round, MaxQ: maxq, MaxSize: 2 + round%2}
		timedOut := false
		select {
		case <-done:
		case <-time.After(60 * time.Second):
			timedOut = true
			rec.Result = "timeout"
			st.note("deadlock: round not finished after 60s (phase %v)", st.phase.Load())
		}
		st.mu.Lock()
		rec.Notes = append([]string{}, st.notes...)
		rec.Panic = st.pan
		st.mu.Unlock()
		rec.Sent = int(atomic.LoadInt64(&st.sent))
		rec.Sent0 = int(atomic.LoadInt64(&st.acc))
		if out != nil {
			b, _ := json.Marshal(rec)
			out.Write(append(b, '\n'))
		}
		res.Case(map[string]interface{}{"kind": "crdt", "scenario": scen, "maxq": maxq, "round": round}, true)
		if timedOut {
			break // goroutines of the stuck round are still around; do not pile up more
		}
	}
}
