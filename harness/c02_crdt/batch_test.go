package c02

import (
	"encoding/json"
	"fmt"
	"os"
	"sync"
	"testing"
	"time"

	"verifharness/hx"
	"verifharness/rig"

	"github.com/ipfs/ipfs-cluster/consensus/crdt"

	cid "github.com/ipfs/go-cid"
	peer "github.com/libp2p/go-libp2p-core/peer"
)

// ---------------------------------------------------------------------------
// per-run event recorder (runs execute in parallel; each run's lines are
// written contiguously, starting with a "reset" line)

type recorder struct {
	mu    sync.Mutex
	t0    time.Time
	lines []map[string]interface{}
	// counters used only to detect quiescence (no oracle: counts, not contents)
	accepted, batched, sinceCommit int
}

func (rc *recorder) emit(ev string, kv ...interface{}) {
	m := map[string]interface{}{"ev": ev}
	for i := 0; i+1 < len(kv); i += 2 {
		m[kv[i].(string)] = kv[i+1]
	}
	rc.mu.Lock()
	m["t"] = time.Since(rc.t0).Microseconds()
	m["seq"] = len(rc.lines) + 1
	rc.lines = append(rc.lines, m)
	switch ev {
	case "ret":
		if m["res"] == "ok" {
			rc.accepted++
		}
	case "batched", "batcherr":
		rc.batched++
		if ev == "batched" {
			rc.sinceCommit++
		}
	case "commit":
		if m["ok"] == true {
			rc.sinceCommit = 0
		}
	}
	rc.mu.Unlock()
}

func (rc *recorder) quiescent(batching bool) bool {
	rc.mu.Lock()
	defer rc.mu.Unlock()
	return !batching || (rc.batched == rc.accepted && rc.sinceCommit == 0)
}

type traceFile struct {
	mu sync.Mutex
	f  *os.File
}

func (tf *traceFile) flush(lines []map[string]interface{}) error {
	tf.mu.Lock()
	defer tf.mu.Unlock()
	for _, m := range lines {
		b, err := json.Marshal(m)
		if err != nil {
			return err
		}
		if _, err := tf.f.Write(append(b, '\n')); err != nil {
			return err
		}
	}
	return nil
}

// hook routing: the crdt package hook is process-global, runs are told apart by peer ID
var (
	hookMu  sync.RWMutex
	hookMap = map[peer.ID]func(ev string, kv ...interface{}){}
)

func installHook() {
	crdt.SetVerifHook(func(ev string, kv ...interface{}) {
		if ev != "batched" && ev != "batcherr" && ev != "commit" {
			return // the drivers log their own call/return lines
		}
		var pid peer.ID
		out := make([]interface{}, 0, len(kv))
		for i := 0; i+1 < len(kv); i += 2 {
			if kv[i] == "peer" {
				pid, _ = kv[i+1].(peer.ID)
				continue
			}
			out = append(out, kv[i], kv[i+1])
		}
		hookMu.RLock()
		f := hookMap[pid]
		hookMu.RUnlock()
		if f != nil {
			f(ev, out...)
		}
	})
}

// ---------------------------------------------------------------------------

type bstep struct {
	K  string `json:"k"` // pin | unpin | arm | armread | pause | settle
	C  string `json:"c,omitempty"`
	V  string `json:"v,omitempty"`
	N  int    `json:"n,omitempty"`
	Ms int    `json:"ms,omitempty"`
	// request context of a pin/unpin: now | delay | dl | never (see replica.submit)
	Ctx string `json:"ctx,omitempty"`
}

type bscript struct {
	ID         int     `json:"id"`
	Batching   bool    `json:"batching"`
	MaxSize    int     `json:"maxsize"`
	MaxAgeMs   int     `json:"maxage_ms"`
	MaxQ       int     `json:"maxq"`
	Steps      []bstep `json:"steps"`
	Nontrivial bool    `json:"nontrivial"`
	Class      string  `json:"class"`
}

func runBatchScript(s *bscript, seed int64, tf *traceFile, res *hx.Result) {
	names := hx.NewNames(seed)
	rc := &recorder{t0: time.Now()}
	rc.emit("reset", "run", s.ID, "kind", "batch", "batching", s.Batching, "maxsize", s.MaxSize, "maxage_ms", s.MaxAgeMs,
		"maxq", s.MaxQ, "class", s.Class)
	o := replicaOpts{TrustAll: true, MaxQueueSize: s.MaxQ}
	if s.Batching {
		o.MaxBatchSize = s.MaxSize
		o.MaxBatchAge = time.Duration(s.MaxAgeMs) * time.Millisecond
	}
	r, err := newReplica("r0", names, o, func(ev string, kv ...interface{}) {
		// drop the replica name, single replica
		out := []interface{}{}
		for i := 0; i+1 < len(kv); i += 2 {
			if kv[i] != "r" {
				out = append(out, kv[i], kv[i+1])
			}
		}
		rc.emit(ev, out...)
	})
	if err != nil {
		res.Infra("run %d: cannot create replica: %v", s.ID, err)
		return
	}
	defer r.close()
	hookMu.Lock()
	hookMap[r.h.ID()] = func(ev string, kv ...interface{}) {
		out := []interface{}{}
		for i := 0; i+1 < len(kv); i += 2 {
			switch kv[i] {
			case "pin":
				if kv[i+1] == true {
					out = append(out, "op", "pin")
				} else {
					out = append(out, "op", "unpin")
				}
			case "cid":
				out = append(out, "c", names.CidName(kv[i+1].(cid.Cid)))
			default:
				out = append(out, kv[i], kv[i+1])
			}
		}
		rc.emit(ev, out...)
	}
	hookMu.Unlock()
	defer func() {
		hookMu.Lock()
		delete(hookMap, r.h.ID())
		hookMu.Unlock()
	}()

	age := time.Duration(s.MaxAgeMs) * time.Millisecond
	for i, st := range s.Steps {
		switch st.K {
		case "pin", "unpin":
			v := st.V
			if st.K == "unpin" {
				v = "-"
			}
			rc.emit("call", "op", st.K, "c", st.C, "v", v, "ctx", st.Ctx)
			out, _ := r.submit(st.K, st.C, st.V, st.Ctx)
			rc.emit("ret", "op", st.K, "c", st.C, "v", v, "res", out)
		case "arm":
			rc.emit("armcall", "n", st.N)
			r.store.Arm(st.N)
			rc.emit("armret")
		case "armread":
			rc.emit("rarmcall", "n", st.N)
			r.store.ArmRead(st.N)
			rc.emit("rarmret")
		case "pause":
			time.Sleep(time.Duration(st.Ms) * time.Millisecond)
		case "settle":
			final := i == len(s.Steps)-1
			wait := 25 * age
			if wait < 3*time.Second {
				wait = 3 * time.Second
			}
			q := false
			for attempt := 0; attempt < 2 && !q; attempt++ {
				dl := time.Now().Add(wait)
				for time.Now().Before(dl) {
					if rc.quiescent(s.Batching) {
						q = true
						break
					}
					time.Sleep(5 * time.Millisecond)
				}
				if !final {
					break
				}
				wait *= 2
			}
			if n := r.store.DisarmRead(); n > 0 {
				rc.emit("rdisarm", "n", n) // State().List() below reads the same namespace
			}
			pins, err := r.pins()
			if err != nil {
				res.Infra("run %d: State().List(): %v", s.ID, err)
				return
			}
			rc.emit("obs", "pins", pins, "q", q, "final", final, "armed", r.store.Armed())
		}
	}
	if err := tf.flush(rc.lines); err != nil {
		res.Infra("trace write: %v", err)
	}
	res.Case(map[string]interface{}{"batching": s.Batching, "maxsize": s.MaxSize, "maxq": s.MaxQ, "steps": s.Steps}, s.Nontrivial)
}

// TestBatch executes the batching scripts of $VERIF_IN on one real replica each.
func TestBatch(t *testing.T) {
	rig.Quiet()
	res := hx.NewResult()
	defer res.Write()
	installHook()
	cases, err := hx.LoadCases()
	if err != nil {
		res.Infra("load cases: %v", err)
		return
	}
	f, err := os.Create(os.Getenv("VERIF_TRACE"))
	if err != nil {
		res.Infra("trace file: %v", err)
		return
	}
	defer f.Close()
	tf := &traceFile{f: f}
	par := hx.EnvInt("VERIF_PAR", 8)
	sem := make(chan struct{}, par)
	var wg sync.WaitGroup
	for _, raw := range cases {
		s := &bscript{}
		if err := json.Unmarshal(raw, s); err != nil {
			res.Infra("bad case: %v", err)
			return
		}
		wg.Add(1)
		sem <- struct{}{}
		go func() {
			defer wg.Done()
			defer func() { <-sem }()
			defer func() {
				if p := recover(); p != nil {
					res.Infra("run %d: harness panic: %v", s.ID, p)
				}
			}()
			runBatchScript(s, hx.Seed(), tf, res)
		}()
	}
	wg.Wait()
	_ = fmt.Sprint
}
