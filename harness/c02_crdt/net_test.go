package c02

import (
	"context"
	"encoding/json"
	"os"
	"reflect"
	"sort"
	"sync"
	"testing"
	"time"

	"verifharness/hx"
	"verifharness/rig"

	peer "github.com/libp2p/go-libp2p-core/peer"
)

type nstep struct {
	K string `json:"k"` // pin | unpin | connect | sync
	R string `json:"r,omitempty"`
	S string `json:"s,omitempty"`
	C string `json:"c,omitempty"`
	V string `json:"v,omitempty"`
	// request context of the operation(s): now | delay | dl | never (see replica.submit)
	Ctx string `json:"ctx,omitempty"`
	// batch: operations submitted back to back and committed as ONE delta (bsize = len(ops))
	Ops []nop `json:"ops,omitempty"`
}

type nop struct {
	K string `json:"k"`
	C string `json:"c"`
	V string `json:"v"`
}

// commitCounter counts successful batch commits of one replica (hook events).
type commitCounter struct {
	mu sync.Mutex
	ok int
}

func (c *commitCounter) get() int { c.mu.Lock(); defer c.mu.Unlock(); return c.ok }

type nscript struct {
	ID         int     `json:"id"`
	NRep       int     `json:"nrep"`
	Trust      string  `json:"trust"` // "all": TrustAll; "mutual": explicit trusted-peer sets (everybody trusts everybody)
	BSize      int     `json:"bsize"` // 0: direct writes; n: batching with MaxBatchSize n, MaxBatchAge 400ms
	Steps      []nstep `json:"steps"`
	Nontrivial bool    `json:"nontrivial"`
	Class      string  `json:"class"`
}

var wantOrder = []string{"B", "A", "C"}

type obsRec struct {
	R     string              `json:"r"`
	Pins  []map[string]string `json:"pins"`
	Heads []string            `json:"heads"`
	NB    int                 `json:"nb"`
}

func observe(reps []*replica) ([]obsRec, error) {
	out := []obsRec{}
	for _, r := range reps {
		p, err := r.pins()
		if err != nil {
			return nil, err
		}
		h := r.heads()
		if h == nil {
			h = []string{}
		}
		out = append(out, obsRec{R: r.name, Pins: p, Heads: h, NB: len(r.blocks())})
	}
	return out, nil
}

func components(n int, edges [][2]int) [][]int {
	parent := make([]int, n)
	for i := range parent {
		parent[i] = i
	}
	var find func(int) int
	find = func(x int) int {
		if parent[x] != x {
			parent[x] = find(parent[x])
		}
		return parent[x]
	}
	for _, e := range edges {
		parent[find(e[0])] = find(e[1])
	}
	groups := map[int][]int{}
	for i := 0; i < n; i++ {
		groups[find(i)] = append(groups[find(i)], i)
	}
	out := [][]int{}
	for _, g := range groups {
		sort.Ints(g)
		out = append(out, g)
	}
	sort.Slice(out, func(i, j int) bool { return out[i][0] < out[j][0] })
	return out
}

// exchanged: every component's members have the same heads and the same blocks.
func exchanged(reps []*replica, comps [][]int) bool {
	for _, g := range comps {
		for _, i := range g[1:] {
			if !reflect.DeepEqual(reps[g[0]].heads(), reps[i].heads()) ||
				!reflect.DeepEqual(reps[g[0]].blocks(), reps[i].blocks()) {
				return false
			}
		}
	}
	return true
}

func samePins(obs []obsRec, comps [][]int) bool {
	for _, g := range comps {
		for _, i := range g[1:] {
			if !reflect.DeepEqual(obs[g[0]].Pins, obs[i].Pins) {
				return false
			}
		}
	}
	return true
}

func runNetScript(s *nscript, seed int64, tf *traceFile, res *hx.Result) {
	names := hx.NewNames(seed)
	rc := &recorder{t0: time.Now()}
	rc.emit("reset", "run", s.ID, "kind", "net", "nrep", s.NRep, "bsize", s.BSize, "trust", s.Trust, "class", s.Class)
	for _, c := range []string{"c1", "c2"} {
		o, err := valueOrder(names.Cid(c), names)
		if err != nil || !reflect.DeepEqual(o, wantOrder) {
			res.Infra("run %d: serialized value order for %s is %v, the trace spec assumes %v", s.ID, c, o, wantOrder)
			return
		}
	}
	reps := []*replica{}
	commits := []*commitCounter{}
	idx := map[string]int{}
	defer func() {
		for _, r := range reps {
			r.close()
		}
	}()
	for i := 0; i < s.NRep; i++ {
		name := "r" + string(rune('0'+i))
		o := replicaOpts{TrustAll: s.Trust != "mutual", Rebroadcast: time.Second, ClusterName: "verif-c02-" + string(rune('a'+s.ID%26))}
		if s.BSize > 0 {
			o.MaxBatchSize = s.BSize
			o.MaxBatchAge = 400 * time.Millisecond
		}
		r, err := newReplica(name, names, o, rc.emit)
		if err != nil {
			res.Infra("run %d: cannot create replica: %v", s.ID, err)
			return
		}
		cc := &commitCounter{}
		commits = append(commits, cc)
		pid := r.h.ID()
		hookMu.Lock()
		hookMap[pid] = func(ev string, kv ...interface{}) {
			if ev != "commit" {
				return
			}
			for i := 0; i+1 < len(kv); i += 2 {
				if kv[i] == "ok" && kv[i+1] == true {
					cc.mu.Lock()
					cc.ok++
					cc.mu.Unlock()
				}
			}
		}
		hookMu.Unlock()
		defer func() {
			hookMu.Lock()
			delete(hookMap, pid)
			hookMu.Unlock()
		}()
		idx[name] = i
		reps = append(reps, r)
	}
	if s.Trust == "mutual" {
		for _, a := range reps {
			for _, b := range reps {
				if a != b {
					a.cons.Trust(context.Background(), b.h.ID())
				}
			}
		}
	}
	var edges [][2]int
	for _, st := range s.Steps {
		switch st.K {
		case "batch":
			// s.BSize operations -> one size-triggered commit; fewer -> one age-triggered commit
			r, cc := reps[idx[st.R]], commits[idx[st.R]]
			before := cc.get()
			lops := []map[string]string{}
			for _, o := range st.Ops {
				v := o.V
				if o.K == "unpin" {
					v = "-"
				}
				if out, _ := r.submit(o.K, o.C, o.V, st.Ctx); out != "ok" {
					res.Infra("run %d: batched %s on %s refused", s.ID, o.K, st.R)
					return
				}
				lops = append(lops, map[string]string{"k": o.K, "c": o.C, "v": v})
			}
			dl := time.Now().Add(20 * time.Second)
			for cc.get() == before && time.Now().Before(dl) {
				time.Sleep(5 * time.Millisecond)
			}
			if cc.get() != before+1 {
				res.Infra("run %d: expected exactly one commit for a batch of %d on %s, saw %d", s.ID, len(st.Ops), st.R, cc.get()-before)
				return
			}
			rc.emit("batch", "r", st.R, "ops", lops)
		case "pin", "unpin":
			v := st.V
			if st.K == "unpin" {
				v = "-"
			}
			out, _ := reps[idx[st.R]].submit(st.K, st.C, st.V, st.Ctx)
			rc.emit("op", "r", st.R, "op", st.K, "c", st.C, "v", v, "res", out)
			if out != "ok" {
				res.Infra("run %d: direct %s on %s failed without an injected fault", s.ID, st.K, st.R)
				return
			}
		case "connect":
			a, b := reps[idx[st.R]], reps[idx[st.S]]
			ctx, cancel := context.WithTimeout(context.Background(), 20*time.Second)
			err := a.h.Connect(ctx, peer.AddrInfo{ID: b.inner.ID(), Addrs: b.inner.Addrs()})
			cancel()
			if err != nil {
				res.Infra("run %d: connect %s-%s: %v", s.ID, st.R, st.S, err)
				return
			}
			edges = append(edges, [2]int{idx[st.R], idx[st.S]})
			rc.emit("connect", "r", st.R, "s", st.S)
		case "sync":
			comps := components(s.NRep, edges)
			dl := time.Now().Add(60 * time.Second)
			stableSince := time.Time{}
			ok := false
			for time.Now().Before(dl) {
				if exchanged(reps, comps) {
					if stableSince.IsZero() {
						stableSince = time.Now()
					} else if time.Since(stableSince) > 700*time.Millisecond {
						ok = true
						break
					}
				} else {
					stableSince = time.Time{}
				}
				time.Sleep(50 * time.Millisecond)
			}
			if !ok {
				res.Infra("run %d: replicas did not exchange all updates within 60s", s.ID)
				return
			}
			obs, err := observe(reps)
			if err != nil {
				res.Infra("run %d: observe: %v", s.ID, err)
				return
			}
			if !samePins(obs, comps) {
				// not a verdict yet: give a pending merge every chance to finish, then look again
				time.Sleep(4 * time.Second)
				if !exchanged(reps, comps) {
					res.Infra("run %d: heads changed after a stable period", s.ID)
					return
				}
				if obs, err = observe(reps); err != nil {
					res.Infra("run %d: observe: %v", s.ID, err)
					return
				}
			}
			cn := [][]string{}
			for _, g := range comps {
				l := []string{}
				for _, i := range g {
					l = append(l, reps[i].name)
				}
				cn = append(cn, l)
			}
			rc.emit("sync", "obs", obs, "comps", cn)
		}
	}
	if err := tf.flush(rc.lines); err != nil {
		res.Infra("trace write: %v", err)
	}
	res.Case(map[string]interface{}{"nrep": s.NRep, "steps": s.Steps}, s.Nontrivial)
}

// TestNet executes the multi-replica scripts of $VERIF_IN.
func TestNet(t *testing.T) {
	rig.Quiet()
	res := hx.NewResult()
	defer res.Write()
	installHook()
	cases, err := hx.LoadCases()
	if err != nil {
		res.Infra("load cases: %v", err)
		return
	}
	f, err := os.Create(os.Getenv("VERIF_TRACE"))
	if err != nil {
		res.Infra("trace file: %v", err)
		return
	}
	defer f.Close()
	tf := &traceFile{f: f}
	par := hx.EnvInt("VERIF_PAR", 8)
	sem := make(chan struct{}, par)
	var wg sync.WaitGroup
	for _, raw := range cases {
		s := &nscript{}
		if err := json.Unmarshal(raw, s); err != nil {
			res.Infra("bad case: %v", err)
			return
		}
		wg.Add(1)
		sem <- struct{}{}
		go func() {
			defer wg.Done()
			defer func() { <-sem }()
			defer func() {
				if p := recover(); p != nil {
					res.Infra("run %d: harness panic: %v", s.ID, p)
				}
			}()
			runNetScript(s, hx.Seed(), tf, res)
		}()
	}
	wg.Wait()
}
