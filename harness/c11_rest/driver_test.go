// C11 driver: sends every abstract request produced by TLC (spec/RestAPICases)
// to a real rest.API (HTTP listener on 127.0.0.1:0, with and without basic-auth
// credentials) whose RPC client is wired to the recording services of
// recorder_test.go, and writes (request, observation) pairs for
// spec/RestAPITrace.tla. TestClient does the same through api/rest/client.
package c11

import (
	"bytes"
	"context"
	"crypto/sha256"
	"encoding/base64"
	"encoding/json"
	"fmt"
	"io"
	"io/ioutil"
	"mime/multipart"
	"net/http"
	"net/url"
	"os"
	"sort"
	"strconv"
	"strings"
	"testing"
	"time"

	"verifharness/hx"

	"github.com/ipfs/ipfs-cluster/api"
	"github.com/ipfs/ipfs-cluster/api/rest"
	"github.com/ipfs/ipfs-cluster/api/rest/client"

	cid "github.com/ipfs/go-cid"
	logging "github.com/ipfs/go-log/v2"
	peer "github.com/libp2p/go-libp2p-core/peer"
	ma "github.com/multiformats/go-multiaddr"
	mbase "github.com/multiformats/go-multibase"
	mh "github.com/multiformats/go-multihash"
)

type reqT struct {
	ID     int               `json:"id"`
	Via    string            `json:"via"`
	Cfg    string            `json:"cfg"`
	Cred   string            `json:"cred"`
	Method string            `json:"method"`
	Pat    string            `json:"pat"`
	Pre    string            `json:"pre"`
	Cid    string            `json:"cid"`
	Path   string            `json:"path"`
	Peer   string            `json:"peer"`
	Body   string            `json:"body"`
	Mname  string            `json:"mname"`
	Local  string            `json:"local"`
	Filter string            `json:"filter"`
	Ans    string            `json:"ans"`
	Tr     string            `json:"tr"` // configuration variant: plain | tracing | cors | tracingcors
	NT     bool              `json:"nt"`
	O      map[string]string `json:"o"`
	A      map[string]string `json:"a"`
}

type opT struct {
	Svc string                 `json:"svc"`
	M   string                 `json:"m"`
	Arg map[string]interface{} `json:"arg"`
}

type obsT struct {
	Status   int    `json:"status"`
	Docs     int    `json:"docs"`
	Ops      []opT  `json:"ops"`
	Body     string `json:"body,omitempty"`
	Trailer  string `json:"trailer,omitempty"`
	RetErr   bool   `json:"reterr"`
	ErrText  string `json:"errtext,omitempty"`
	ErrCode  int    `json:"errcode"`
	Ret      string `json:"ret"`
	Answered string `json:"answered"`
}

type recT struct {
	ID  int             `json:"id"`
	Req json.RawMessage `json:"req"`
	Obs obsT            `json:"obs"`
	URL string          `json:"url,omitempty"`
}

const (
	user1, pass1 = "alice", "correct horse"
	user2, pass2 = "bob", "battery:staple"
)

var t1 = time.Date(2030, 1, 2, 3, 4, 5, 0, time.UTC)
var t2 = time.Date(2030, 1, 2, 5, 4, 5, 500000000, time.FixedZone("", 2*3600))
var t0past = time.Date(2001, 2, 3, 4, 5, 6, 0, time.UTC)

const t2text = "2030-01-02T05:04:05.5+02:00"

var expireIn = map[string]time.Duration{"in1h": time.Hour, "in90m": 90 * time.Minute, "in1s": time.Second}

// ascii renders non-ASCII runes as U+XXXX so that tokens are plain ASCII in the specification.
func ascii(s string) string {
	var b strings.Builder
	for _, r := range s {
		if r < 0x80 {
			b.WriteRune(r)
		} else {
			fmt.Fprintf(&b, "U+%04X", r)
		}
	}
	return b.String()
}

type env struct {
	names   *hx.Names
	rec     *recorder
	apis    []*rest.API
	addr    map[string]string
	hc      *http.Client
	origins map[string]ma.Multiaddr
	nameVal map[string]string
	metaVal map[string]map[string]string
	paths   map[string]string
	clients map[string]client.Client
	addFile string
	tmp     string
}

func newAPI(creds map[string]string, variant string, e *env) (*rest.API, string, error) {
	cfg := &rest.Config{}
	cfg.Default()
	a, _ := ma.NewMultiaddr("/ip4/127.0.0.1/tcp/0")
	cfg.HTTPListenAddr = []ma.Multiaddr{a}
	cfg.BasicAuthCredentials = creds
	// configuration variants: the answers must not depend on them
	if variant == "tracing" || variant == "tracingcors" {
		cfg.Tracing = true // what the daemon sets with --tracing
	}
	if variant == "cors" || variant == "tracingcors" {
		cfg.CORSAllowedOrigins = []string{"http://allowed.example"}
		cfg.CORSAllowedMethods = []string{"GET"}
		cfg.CORSAllowCredentials = false
		cfg.CORSMaxAge = 10 * time.Minute
		cfg.Headers = map[string][]string{"X-Verif": {"1", "2"}, "Server": {"c11"}}
	}
	r, err := rest.NewAPI(context.Background(), cfg)
	if err != nil {
		return nil, "", err
	}
	c, err := newRPC(e.rec)
	if err != nil {
		return nil, "", err
	}
	r.SetClient(c)
	addrs, err := r.HTTPAddresses()
	if err != nil {
		return nil, "", err
	}
	return r, addrs[0], nil
}

func newEnv() (*env, error) {
	for _, l := range []string{"restapi", "restapilog", "apitypes", "adder", "singledags", "shardingdags", "restapiclient", "blockadder"} {
		logging.SetLogLevel(l, "fatal")
	}
	logging.SetAllLoggers(logging.LevelFatal)
	e := &env{names: hx.NewNames(hx.Seed()), addr: map[string]string{}, clients: map[string]client.Client{}}
	// p4: a sha256 ("Qm...") peer ID, the other textual family of peer IDs
	qsum := sha256.Sum256([]byte(fmt.Sprintf("c11/qm/%d", hx.Seed())))
	qmh, _ := mh.Encode(qsum[:], mh.SHA2_256)
	e.names.SetPeer("p4", peer.ID(qmh))
	c1, c2, c3 := e.names.Cid("c1"), e.names.Cid("c2"), e.names.Cid("c3")
	seed := []*api.Pin{api.PinCid(c3), api.PinCid(c1), api.PinCid(c2)}
	for i, p := range seed {
		p.Name = fmt.Sprintf("seed%d", i)
		p.Allocations = []peer.ID{e.names.Peer("p1")}
		p.ReplicationFactorMin, p.ReplicationFactorMax = 1, 2
	}
	e.rec = newRecorder(e.names.Peer("p1"), e.names.Peer("p2"), seed)
	for _, variant := range variants {
		for _, k := range []string{"open", "auth"} {
			var creds map[string]string
			if k == "auth" {
				creds = map[string]string{user1: pass1, user2: pass2}
			}
			r, addr, err := newAPI(creds, variant, e)
			if err != nil {
				return nil, err
			}
			e.apis = append(e.apis, r)
			e.addr[k+"/"+variant] = addr
		}
	}
	e.hc = &http.Client{Timeout: 60 * time.Second,
		CheckRedirect: func(*http.Request, []*http.Request) error { return http.ErrUseLastResponse }}
	o1, _ := ma.NewMultiaddr("/ip4/1.2.3.4/tcp/4001/p2p/" + peer.Encode(e.names.Peer("p1")))
	o2, _ := ma.NewMultiaddr("/dns4/example.com/tcp/4001/p2p/" + peer.Encode(e.names.Peer("p2")))
	o3, _ := ma.NewMultiaddr("/p2p/" + peer.Encode(e.names.Peer("p1")))
	e.origins = map[string]ma.Multiaddr{"o1": o1, "o2": o2, "o3": o3}
	e.nameVal = map[string]string{"plain": "mypin", "special": "a&b=c é#%+/?;", "ws": "  padded name\t"}
	e.metaVal = map[string]map[string]string{"one": {"k1": "v1"}, "two": {"k1": "v1", "k2": "v 2&x"},
		"prefixy":  {"meta": "1", "type": "2", "a": "3", "-x": "4", "team": "5", "e": "6", "mm": "7"},
		"special":  {"a=b": "1", "c&d": "2", "ké": "中", "sp ace": "4", "meta-inner": "5", "empty-val": ""},
		"emptykey": {"": "x", "k1": "v1"}}
	if o1 == nil || o2 == nil || o3 == nil {
		return nil, fmt.Errorf("cannot build the origin multiaddresses")
	}
	s1, s2 := c1.String(), c2.String()
	e.paths = map[string]string{
		"ipfs": "/ipfs/" + s1, "ipfssub": "/ipfs/" + s1 + "/a/b.txt", "ipns": "/ipns/example.com",
		"ipnssub": "/ipns/example.com/dir/file", "ipld": "/ipld/" + s2, "space": "/ipfs/" + s1 + "/my file",
		"qmark": "/ipfs/" + s1 + "/a?b", "hash": "/ipfs/" + s1 + "/a#b", "pct": "/ipfs/" + s1 + "/a%41b",
		"unicode": "/ipfs/" + s1 + "/é中", "badcid": "/ipfs/notacid", "badcidsub": "/ipld/notacid/x",
		"plus": "/ipfs/" + s1 + "/a+b c", "amp": "/ipfs/" + s2 + "/a&b=c;d",
	}
	// wait until both servers answer
	deadline := time.Now().Add(30 * time.Second)
	for k := range e.addr {
		for {
			resp, err := e.hc.Get("http://" + e.addr[k] + "/version")
			if err == nil {
				resp.Body.Close()
				break
			}
			if time.Now().After(deadline) {
				return nil, fmt.Errorf("REST API %s did not come up: %v", k, err)
			}
			time.Sleep(20 * time.Millisecond)
		}
	}
	e.rec.prepare("ok")
	return e, nil
}

var variants = []string{"plain", "tracing", "cors", "tracingcors"}

func (e *env) apiAddr(r *reqT) string {
	tr := r.Tr
	if tr == "" {
		tr = "plain"
	}
	return e.addr[r.Cfg+"/"+tr]
}

func (e *env) close() {
	if e.tmp != "" {
		os.RemoveAll(e.tmp)
	}
	for _, a := range e.apis {
		a.Shutdown(context.Background())
	}
}

// ---------------------------------------------------------------- concretise

func (e *env) cidStr(class string) string {
	switch class {
	case "v0":
		return e.names.Cid("c1").String()
	case "v1":
		return e.names.Cid("c2").String()
	case "v1b58":
		s, err := e.names.Cid("c2").StringOfBase(mbase.Base58BTC)
		if err != nil {
			panic(err)
		}
		return s
	case "trunc":
		return e.names.Cid("c1").String()[:20]
	case "v1trunc":
		return e.names.Cid("c2").String()[:30]
	case "space":
		return " "
	default:
		return "notacid"
	}
}

func esc(p string) string { return (&url.URL{Path: p}).EscapedPath() }

func (e *env) urlPath(r *reqT) string {
	switch r.Pat {
	case "id":
		return "/id"
	case "version":
		return "/version"
	case "peers":
		return "/peers"
	case "peers_peer":
		switch r.Peer {
		case "valid":
			return "/peers/" + peer.Encode(e.names.Peer("p3"))
		case "qm":
			return "/peers/" + peer.Encode(e.names.Peer("p4"))
		case "cidform":
			return "/peers/" + peer.ToCid(e.names.Peer("p3")).String()
		case "trunc":
			return "/peers/" + peer.Encode(e.names.Peer("p3"))[:20]
		}
		return "/peers/notapeer"
	case "add":
		return "/add"
	case "allocations":
		return "/allocations"
	case "allocations_hash":
		return "/allocations/" + esc(e.cidStr(r.Cid))
	case "pins":
		return "/pins"
	case "pins_hash_recover":
		return "/pins/" + esc(e.cidStr(r.Cid)) + "/recover"
	case "pins_recover":
		return "/pins/recover"
	case "pins_hash":
		return "/pins/" + esc(e.cidStr(r.Cid))
	case "pins_path":
		return "/pins" + esc(e.paths[r.Path])
	case "ipfs_gc":
		return "/ipfs/gc"
	case "health_graph":
		return "/health/graph"
	case "health_alerts":
		return "/health/alerts"
	case "monitor_metrics_name":
		return "/monitor/metrics/" + esc(e.mname(r.Mname))
	case "monitor_metrics":
		return "/monitor/metrics"
	case "root":
		return "/"
	case "unknown1":
		return "/nonexistent"
	default:
		return "/api/v0/pin/add"
	}
}

func (e *env) mname(class string) string {
	if class == "special" {
		return "disk free+x"
	}
	return "ping"
}

type kv struct{ k, v string }

func (e *env) optQuery(o map[string]string) []kv {
	var q []kv
	p1, p2, p4 := peer.Encode(e.names.Peer("p1")), peer.Encode(e.names.Peer("p2")), peer.Encode(e.names.Peer("p4"))
	add := func(k, v string) { q = append(q, kv{k, v}) }
	if v, ok := e.nameVal[o["name"]]; ok {
		add("name", v)
	}
	switch o["mode"] {
	case "recursive", "direct":
		add("mode", o["mode"])
	case "garbage":
		add("mode", "dirct")
	case "upper":
		add("mode", "DIRECT")
	}
	num := map[string]string{"zero": "0", "one": "1", "two": "2", "three": "3", "neg": "-1", "negtwo": "-2", "plus": "+2",
		"garbage": "abc", "float": "1.5", "spacey": " 2", "huge": "99999999999999999999"}
	if c := o["rmin"]; c != "absent" {
		add("replication-min", num[c])
	}
	if c := o["rmax"]; c != "absent" {
		add("replication-max", num[c])
	}
	if c := o["repl"]; c != "absent" {
		add("replication", map[string]string{"one": "1", "neg": "-1", "zero": "0", "garbage": "1x"}[c])
	}
	if c := o["shard"]; c != "absent" {
		add("shard-size", map[string]string{"k1024": "1024", "zero": "0", "big": "9223372036854775813", "garbage": "big",
			"negative": "-5", "float": "10.5", "plus": "+5"}[c])
	}
	switch o["ualloc"] {
	case "one":
		add("user-allocations", p1)
	case "two":
		add("user-allocations", p1+","+p2)
	case "qm":
		add("user-allocations", p4)
	case "dup":
		add("user-allocations", p1+","+p1)
	case "garbage":
		add("user-allocations", "notapeer")
	case "mixed":
		add("user-allocations", p1+",notapeer")
	case "spaced":
		add("user-allocations", p1+", "+p2)
	}
	switch o["expire"] {
	case "at":
		add("expire-at", t1.Format(time.RFC3339))
	case "atfrac":
		add("expire-at", t2text)
	case "atpast":
		add("expire-at", t0past.Format(time.RFC3339))
	case "atgarbage":
		add("expire-at", "tomorrow")
	case "atdate":
		add("expire-at", "2030-01-02")
	case "in1h":
		add("expire-in", "1h")
	case "in90m":
		add("expire-in", "1h30m")
	case "in1s":
		add("expire-in", "1s")
	case "inshort":
		add("expire-in", "999ms")
	case "ingarbage":
		add("expire-in", "soon")
	case "inneg":
		add("expire-in", "-1h")
	case "innounit":
		add("expire-in", "3600")
	}
	if m, ok := e.metaVal[o["meta"]]; ok {
		ks := []string{}
		for k := range m {
			ks = append(ks, k)
		}
		sort.Strings(ks)
		for _, k := range ks {
			add("meta-"+k, m[k])
		}
	}
	switch o["update"] {
	case "v0":
		add("pin-update", e.names.Cid("c9").String())
	case "v1":
		add("pin-update", e.names.Cid("c8").String())
	case "garbage":
		add("pin-update", "notacid")
	}
	switch o["origins"] {
	case "one":
		add("origins", e.origins["o1"].String())
	case "two":
		add("origins", e.origins["o1"].String()+","+e.origins["o2"].String())
	case "onlyp2p":
		add("origins", e.origins["o3"].String())
	case "nopeer":
		add("origins", "/ip4/1.2.3.4/tcp/4001")
	case "garbage":
		add("origins", "notamultiaddr")
	case "spaced":
		add("origins", e.origins["o1"].String()+", "+e.origins["o2"].String())
	}
	return q
}

var addKeys = map[string]string{"layout": "layout", "format": "format", "recursive": "recursive", "hidden": "hidden",
	"wrap": "wrap-with-directory", "shardflag": "shard", "progress": "progress", "cidv": "cid-version",
	"rawleaves": "raw-leaves", "stream": "stream-channels", "nocopy": "nocopy", "chunker": "chunker", "hash": "hash",
	"alocal": "local"}

func addQuery(a map[string]string) []kv {
	var q []kv
	ks := []string{}
	for k := range a {
		ks = append(ks, k)
	}
	sort.Strings(ks)
	for _, k := range ks {
		c := a[k]
		if c == "absent" {
			continue
		}
		v := c
		switch c {
		case "garbage":
			v = "maybe"
			if k == "cidv" {
				v = "v1"
			}
		case "zero":
			v = "0"
		case "one":
			v = "1"
		case "size1024":
			v = "size-1024"
		case "bogus":
			v = "bogus-chunker"
		case "sha2256":
			v = "sha2-256"
		}
		q = append(q, kv{addKeys[k], v})
	}
	return q
}

func (e *env) query(r *reqT) string {
	var q []kv
	if r.O != nil {
		q = append(q, e.optQuery(r.O)...)
	}
	if r.A != nil && r.Pat == "add" {
		q = append(q, addQuery(r.A)...)
	}
	switch r.Local {
	case "true", "false":
		q = append(q, kv{"local", r.Local})
	case "upper":
		q = append(q, kv{"local", "TRUE"})
	case "one":
		q = append(q, kv{"local", "1"})
	case "garbage":
		q = append(q, kv{"local", "maybe"})
	}
	alloc := r.Pat == "allocations"
	pick := func(a, b string) string {
		if alloc {
			return a
		}
		return b
	}
	switch r.Filter {
	case "valid":
		q = append(q, kv{"filter", pick("pin", "pinned")})
	case "multi":
		q = append(q, kv{"filter", pick("pin,meta-pin", "pinned,pin_error")})
	case "composite":
		q = append(q, kv{"filter", pick("all", "error")})
	case "dup":
		q = append(q, kv{"filter", pick("pin,pin", "pinned,pinned")})
	case "mixed":
		q = append(q, kv{"filter", pick("pin,garbage", "pinned,garbage")})
	case "invalid":
		q = append(q, kv{"filter", "garbage"})
	case "undefined":
		q = append(q, kv{"filter", "undefined"})
	}
	parts := []string{}
	for _, x := range q {
		parts = append(parts, url.QueryEscape(x.k)+"="+url.QueryEscape(x.v))
	}
	return strings.Join(parts, "&")
}

var fileContent = bytes.Repeat([]byte("ipfs-cluster verification payload 0123456789\n"), 80) // 3600 bytes

func (e *env) body(r *reqT) (io.Reader, string) {
	p3 := peer.Encode(e.names.Peer("p3"))
	switch r.Body {
	case "valid":
		return strings.NewReader(`{"peer_id":"` + p3 + `"}`), "application/json"
	case "badjson":
		return strings.NewReader(`{"peer_id":`), "application/json"
	case "wrongfield":
		return strings.NewReader(`{"peer":"` + p3 + `"}`), "application/json"
	case "badpeer":
		return strings.NewReader(`{"peer_id":"notapeer"}`), "application/json"
	case "empty":
		return strings.NewReader(""), "application/json"
	case "wrongtype":
		return strings.NewReader(`{"peer_id":5}`), "application/json"
	case "extra":
		return strings.NewReader(`{"unknown":[1,2],"peer_id":"` + p3 + `"}`), "application/json"
	case "array":
		return strings.NewReader(`["` + p3 + `"]`), "application/json"
	case "null":
		return strings.NewReader(`null`), "application/json"
	case "file":
		var buf bytes.Buffer
		w := multipart.NewWriter(&buf)
		fw, _ := w.CreateFormFile("file", "hello.txt")
		fw.Write(fileContent)
		w.Close()
		return &buf, w.FormDataContentType()
	case "notmultipart":
		return bytes.NewReader(fileContent), "text/plain"
	}
	return nil, ""
}

func (e *env) setCred(r *reqT, h *http.Request) {
	b64 := func(x string) string { return base64.StdEncoding.EncodeToString([]byte(x)) }
	switch r.Cred {
	case "right":
		h.SetBasicAuth(user1, pass1)
	case "right2":
		h.SetBasicAuth(user2, pass2)
	case "rightlower":
		h.Header.Set("Authorization", "basic "+b64(user1+":"+pass1))
	case "wronguser":
		h.SetBasicAuth("mallory", pass1)
	case "wrongpass":
		h.SetBasicAuth(user1, "Correct horse")
	case "swapped":
		h.SetBasicAuth(user1, pass2)
	case "user2pass1":
		h.SetBasicAuth(user2, pass1)
	case "emptypass":
		h.SetBasicAuth(user1, "")
	case "unknownempty":
		h.SetBasicAuth("mallory", "")
	case "emptyempty":
		h.SetBasicAuth("", "")
	case "emptyuser":
		h.SetBasicAuth("", pass1)
	case "userpassswap":
		h.SetBasicAuth(pass1, user1)
	case "caseuser":
		h.SetBasicAuth("Alice", pass1)
	case "passspace":
		h.SetBasicAuth(user1, pass1+" ")
	case "passprefix":
		h.SetBasicAuth(user1, pass1[:len(pass1)-1])
	case "nocolon":
		h.Header.Set("Authorization", "Basic "+b64(user1))
	case "malformed":
		h.Header.Set("Authorization", "Basic !!!not-base64!!!")
	case "bearer":
		h.Header.Set("Authorization", "Bearer "+pass1)
	case "digest":
		h.Header.Set("Authorization", `Digest username="`+user1+`", response="`+pass1+`"`)
	}
}

// ------------------------------------------------------------------ project

func (e *env) projOpts(po *api.PinOptions, t0, t1x time.Time) map[string]interface{} {
	name := "?" + po.Name
	if po.Name == "" {
		name = ""
	}
	for k, v := range e.nameVal {
		if v == po.Name {
			name = k
		}
	}
	mode := fmt.Sprintf("?%d", int(po.Mode))
	switch int(po.Mode) {
	case 0:
		mode = "recursive"
	case 1:
		mode = "direct"
	}
	expire := "?" + po.ExpireAt.String()
	switch {
	case po.ExpireAt.IsZero():
		expire = "none"
	case po.ExpireAt.Equal(t1):
		expire = "T1"
	case po.ExpireAt.Equal(t2):
		expire = "T2"
	case po.ExpireAt.Equal(t0past):
		expire = "T0"
	default:
		for tok, d := range expireIn {
			if !po.ExpireAt.Before(t0.Add(d-100*time.Millisecond)) && !po.ExpireAt.After(t1x.Add(d+100*time.Millisecond)) {
				expire = tok
			}
		}
	}
	// metadata field by field: (key, value) pairs in key order
	meta := [][]string{}
	for k, v := range po.Metadata {
		meta = append(meta, []string{ascii(k), ascii(v)})
	}
	sort.Slice(meta, func(i, j int) bool { return meta[i][0] < meta[j][0] })
	update := "none"
	if po.PinUpdate.Defined() {
		update = e.names.CidName(po.PinUpdate)
	}
	origins := []string{}
	for _, o := range po.Origins {
		tok := "?nil"
		if o != nil {
			tok = "?" + o.String()
			for k, v := range e.origins {
				if v.Equal(o) {
					tok = k
				}
			}
		}
		origins = append(origins, tok)
	}
	ua := e.names.PeerNames(po.UserAllocations)
	return map[string]interface{}{"name": name, "mode": mode, "rmin": po.ReplicationFactorMin,
		"rmax": po.ReplicationFactorMax, "shard": strconv.FormatUint(po.ShardSize, 10), "ualloc": ua, "expire": expire, "meta": meta,
		"update": update, "origins": origins}
}

func (e *env) cidTok(c cid.Cid, root string) string {
	if !c.Defined() {
		return "undef"
	}
	if root == "-" {
		return "notold" // the caller was not told any root CID
	}
	if root != "" && c.String() == root {
		return "root"
	}
	return e.names.CidName(c)
}

func (e *env) project(calls []call, t0, t1x time.Time, root string) []opT {
	ops := []opT{}
	// the blocks put by an add that got as far as its final pin: how many, how many raw, CID version of the dag-pb ones
	pinned := false
	for _, c := range calls {
		if c.Svc == "Cluster" && c.M == "Pin" {
			pinned = true
		}
	}
	blocks := map[string]bool{}
	nraw, pbv := 0, -1
	for _, c := range calls {
		if bc, ok := c.Arg.(cid.Cid); ok && c.M == "BlockPut" && !blocks[bc.String()] {
			blocks[bc.String()] = true
			if bc.Type() == cid.Raw {
				nraw++
			} else if v := int(bc.Version()); pbv == -1 || pbv == v {
				pbv = v
			} else {
				pbv = 2 // mixed
			}
		}
	}
	for _, c := range calls {
		var arg map[string]interface{}
		if c.M == "BlockPut" {
			if n := len(ops); n > 0 && ops[n-1].M == "BlockPut" {
				continue // a run of block puts is one step of the add pipeline
			}
			arg = map[string]interface{}{"k": "block"}
			if pinned {
				arg = map[string]interface{}{"k": "block", "n": len(blocks), "raw": nraw, "pbv": pbv}
			}
			ops = append(ops, opT{Svc: c.Svc, M: c.M, Arg: arg})
			continue
		}
		switch a := c.Arg.(type) {
		case nil:
			arg = map[string]interface{}{"k": "none"}
		case *api.Pin:
			if n := len(ops); c.M == "BlockAllocate" && n > 0 && ops[n-1].M == "BlockAllocate" {
				continue // the adder asks again for every node while allocation fails: one step
			}
			if c.M == "BlockAllocate" || root != "" {
				arg = map[string]interface{}{"k": "addpin", "cid": e.cidTok(a.Cid, root), "opts": e.projOpts(&a.PinOptions, t0, t1x)}
			} else {
				arg = map[string]interface{}{"k": "pin", "cid": e.cidTok(a.Cid, ""), "maxdepth": int(a.MaxDepth),
					"opts": e.projOpts(&a.PinOptions, t0, t1x)}
			}
		case *api.PinPath:
			tok := "?" + a.Path
			for k, v := range e.paths {
				if v == a.Path {
					tok = k
				}
			}
			arg = map[string]interface{}{"k": "pinpath", "path": tok, "opts": e.projOpts(&a.PinOptions, t0, t1x)}
		case cid.Cid:
			arg = map[string]interface{}{"k": "cid", "cid": e.cidTok(a, "")}
		case peer.ID:
			arg = map[string]interface{}{"k": "peer", "peer": e.names.PeerName(a)}
		case api.TrackerStatus:
			f := fmt.Sprintf("?%d", uint64(a))
			switch a {
			case api.TrackerStatusUndefined:
				f = "undefined"
			case api.TrackerStatusPinned:
				f = "pinned"
			case api.TrackerStatusPinned | api.TrackerStatusPinError:
				f = "pinned,pin_error"
			case api.TrackerStatusError:
				f = "error"
			}
			arg = map[string]interface{}{"k": "filter", "f": f}
		case string:
			tok := "?" + a
			for _, cl := range []string{"ping", "special"} {
				if e.mname(cl) == a {
					tok = cl
				}
			}
			arg = map[string]interface{}{"k": "str", "s": tok}
		default:
			arg = map[string]interface{}{"k": fmt.Sprintf("?%T", a)}
		}
		ops = append(ops, opT{Svc: c.Svc, M: c.M, Arg: arg})
	}
	return ops
}

// countDocs counts the top-level JSON documents of a body with a streaming decoder.
func countDocs(body []byte) (n int, last json.RawMessage, clean bool) {
	dec := json.NewDecoder(bytes.NewReader(body))
	for {
		var raw json.RawMessage
		err := dec.Decode(&raw)
		if err == io.EOF {
			return n, last, true
		}
		if err != nil {
			return n, last, false
		}
		n++
		last = raw
	}
}

// ---------------------------------------------------------------- HTTP cases

func (e *env) runHTTP(r *reqT, raw json.RawMessage) (*recT, error) {
	base := "http://" + e.apiAddr(r)
	u := base + e.urlPath(r)
	if q := e.query(r); q != "" {
		u += "?" + q
	}
	body, ctype := e.body(r)
	h, err := http.NewRequest(r.Method, u, body)
	if err != nil {
		return nil, fmt.Errorf("case %d: cannot build request %s: %v", r.ID, u, err)
	}
	if ctype != "" {
		h.Header.Set("Content-Type", ctype)
	}
	e.setCred(r, h)
	switch r.Pre {
	case "origin":
		h.Header.Set("Origin", "http://example.org")
	case "yes":
		h.Header.Set("Origin", "http://example.org")
		h.Header.Set("Access-Control-Request-Method", "POST")
	case "yesput":
		h.Header.Set("Origin", "http://example.org")
		h.Header.Set("Access-Control-Request-Method", "PUT")
	}
	e.rec.prepare(r.Ans)
	t0 := time.Now()
	resp, err := e.hc.Do(h)
	if err != nil {
		return nil, fmt.Errorf("case %d: %s %s: %v", r.ID, r.Method, u, err)
	}
	b, err := ioutil.ReadAll(resp.Body)
	resp.Body.Close()
	if err != nil {
		return nil, fmt.Errorf("case %d: reading body: %v", r.ID, err)
	}
	t1x := time.Now()
	calls, _ := e.rec.take()
	n, last, clean := countDocs(b)
	if !clean {
		n += 100 // not JSON at all
	}
	root := ""
	if r.Pat == "add" && r.Method == "POST" {
		root = "-"
		var ao struct {
			Cid cid.Cid `json:"cid"`
		}
		if last != nil {
			var arr []json.RawMessage
			if json.Unmarshal(last, &arr) == nil && len(arr) > 0 { // stream-channels=false: one array
				last = arr[len(arr)-1]
			}
			if json.Unmarshal(last, &ao) == nil && ao.Cid.Defined() {
				root = ao.Cid.String()
			}
		}
	}
	obs := obsT{Status: resp.StatusCode, Docs: n, Ops: e.project(calls, t0, t1x, root), Trailer: resp.Trailer.Get("X-Stream-Error")}
	if len(b) < 300 {
		obs.Body = string(b)
	} else {
		obs.Body = string(b[:300])
	}
	return &recT{ID: r.ID, Req: raw, Obs: obs, URL: r.Method + " " + u}, nil
}

func abstractID(raw json.RawMessage) interface{} {
	var m map[string]interface{}
	json.Unmarshal(raw, &m)
	delete(m, "id")
	delete(m, "nt")
	return m
}

func TestDriver(t *testing.T) {
	res := hx.NewResult()
	defer res.Write()
	cases, err := hx.LoadCases()
	if err != nil {
		res.Infra("loading cases: %v", err)
		return
	}
	e, err := newEnv()
	if err != nil {
		res.Infra("environment: %v", err)
		return
	}
	defer e.close()
	f, err := os.Create(os.Getenv("VERIF_TRACE"))
	if err != nil {
		res.Infra("trace: %v", err)
		return
	}
	defer f.Close()
	enc := json.NewEncoder(f)
	for _, raw := range cases {
		var r reqT
		if err := json.Unmarshal(raw, &r); err != nil {
			res.Infra("bad case: %v", err)
			return
		}
		var rc *recT
		if r.Via == "client" {
			rc, err = e.runClient(&r, raw)
		} else {
			rc, err = e.runHTTP(&r, raw)
		}
		if err != nil {
			res.Infra("%v", err)
			return
		}
		if err := enc.Encode(rc); err != nil {
			res.Infra("trace write: %v", err)
			return
		}
		res.Case(abstractID(raw), r.NT)
	}
}
