package c11

import (
	"context"
	"encoding/json"
	"fmt"
	"io/ioutil"
	"os"
	"path/filepath"
	"time"

	"github.com/ipfs/ipfs-cluster/api"
	"github.com/ipfs/ipfs-cluster/api/rest/client"

	peer "github.com/libp2p/go-libp2p-core/peer"
	ma "github.com/multiformats/go-multiaddr"
)

func (e *env) client(r *reqT) (client.Client, error) {
	key := r.Cfg + "/" + r.Tr + "/" + r.Cred
	if c, ok := e.clients[key]; ok {
		return c, nil
	}
	addr, err := ma.NewMultiaddr("/ip4/127.0.0.1/tcp/" + e.apiAddr(r)[len("127.0.0.1:"):])
	if err != nil {
		return nil, err
	}
	cfg := &client.Config{APIAddr: addr, DisableKeepAlives: false, Timeout: 60 * time.Second, LogLevel: "fatal"}
	switch r.Cred {
	case "right":
		cfg.Username, cfg.Password = user1, pass1
	case "right2":
		cfg.Username, cfg.Password = user2, pass2
	case "wrongpass":
		cfg.Username, cfg.Password = user1, "Correct horse"
	case "wronguser":
		cfg.Username, cfg.Password = "mallory", pass1
	case "unknownempty":
		cfg.Username, cfg.Password = "mallory", ""
	case "emptypass":
		cfg.Username, cfg.Password = user1, ""
	case "swapped":
		cfg.Username, cfg.Password = user1, pass2
	}
	c, err := client.NewDefaultClient(cfg)
	if err != nil {
		return nil, err
	}
	e.clients[key] = c
	return c, nil
}

func (e *env) typedOpts(o map[string]string) api.PinOptions {
	po := api.PinOptions{}
	if v, ok := e.nameVal[o["name"]]; ok {
		po.Name = v
	}
	if o["mode"] == "direct" {
		po.Mode = api.PinModeDirect
	}
	num := map[string]int{"absent": 0, "zero": 0, "two": 2, "three": 3, "neg": -1, "negtwo": -2, "one": 1}
	po.ReplicationFactorMin = num[o["rmin"]]
	po.ReplicationFactorMax = num[o["rmax"]]
	switch o["shard"] {
	case "k1024":
		po.ShardSize = 1024
	case "big":
		po.ShardSize = 9223372036854775813
	}
	p1, p2, p4 := e.names.Peer("p1"), e.names.Peer("p2"), e.names.Peer("p4")
	switch o["ualloc"] {
	case "one":
		po.UserAllocations = []peer.ID{p1}
	case "two":
		po.UserAllocations = []peer.ID{p1, p2}
	case "qm":
		po.UserAllocations = []peer.ID{p4}
	case "dup":
		po.UserAllocations = []peer.ID{p1, p1}
	}
	switch o["expire"] {
	case "at":
		po.ExpireAt = t1
	case "atfrac":
		po.ExpireAt = t2
	case "atpast":
		po.ExpireAt = t0past
	}
	if m, ok := e.metaVal[o["meta"]]; ok {
		po.Metadata = map[string]string{}
		for k, v := range m {
			po.Metadata[k] = v
		}
	}
	switch o["update"] {
	case "v0":
		po.PinUpdate = e.names.Cid("c9")
	case "v1":
		po.PinUpdate = e.names.Cid("c8")
	}
	switch o["origins"] {
	case "one":
		po.Origins = []ma.Multiaddr{e.origins["o1"]}
	case "two":
		po.Origins = []ma.Multiaddr{e.origins["o1"], e.origins["o2"]}
	case "onlyp2p":
		po.Origins = []ma.Multiaddr{e.origins["o3"]}
	case "nopeer":
		a, _ := ma.NewMultiaddr("/ip4/1.2.3.4/tcp/4001")
		po.Origins = []ma.Multiaddr{a}
	}
	return po
}

// norm renders a value as canonical JSON with empty containers and nulls removed,
// so that "what the client returned" and "what the server answered" compare by content.
func norm(v interface{}) (s string) {
	defer func() {
		if r := recover(); r != nil {
			s = fmt.Sprintf("!panic while encoding: %v", r)
		}
	}()
	b, err := json.Marshal(v)
	if err != nil {
		return "!" + err.Error()
	}
	var x interface{}
	if err := json.Unmarshal(b, &x); err != nil {
		return "!" + err.Error()
	}
	b, _ = json.Marshal(strip(x))
	return string(b)
}

func strip(x interface{}) interface{} {
	switch t := x.(type) {
	case map[string]interface{}:
		out := map[string]interface{}{}
		for k, v := range t {
			if s := strip(v); s != nil {
				out[k] = s
			}
		}
		if len(out) == 0 {
			return nil
		}
		return out
	case []interface{}:
		out := []interface{}{}
		for _, v := range t {
			out = append(out, strip(v))
		}
		if len(out) == 0 {
			return nil
		}
		return out
	}
	return x
}

// relayed is what the REST server is expected to relay for the recorder's answer:
// the answer itself, or its local -> global form for ?local=true calls.
func relayed(answered interface{}) interface{} {
	toGlobal := func(pi *api.PinInfo) *api.GlobalPinInfo {
		s := pi.PinInfoShort
		return &api.GlobalPinInfo{Cid: pi.Cid, Name: pi.Name, PeerMap: map[string]*api.PinInfoShort{peer.Encode(pi.Peer): &s}}
	}
	switch a := answered.(type) {
	case *api.PinInfo:
		return toGlobal(a)
	case []*api.PinInfo:
		out := []*api.GlobalPinInfo{}
		for _, pi := range a {
			out = append(out, toGlobal(pi))
		}
		return out
	case *api.RepoGC:
		return &api.GlobalRepoGC{PeerMap: map[string]*api.RepoGC{peer.Encode(a.Peer): a}}
	}
	return answered
}

func (e *env) runClient(r *reqT, raw json.RawMessage) (*recT, error) {
	c, err := e.client(r)
	if err != nil {
		return nil, fmt.Errorf("case %d: client: %v", r.ID, err)
	}
	ctx, cancel := context.WithTimeout(context.Background(), 60*time.Second)
	defer cancel()
	local := r.Local == "true"
	ci := e.names.Cid("c1")
	if r.Cid == "v1" {
		ci = e.names.Cid("c2")
	}
	route := ""
	for _, rt := range clientRoutes {
		if rt.pat == r.Pat && rt.method == r.Method {
			route = rt.name
		}
	}
	e.rec.prepare(r.Ans)
	t0 := time.Now()
	var ret interface{}
	var cerr error
	noret := false
	root := ""
	switch route {
	case "ID":
		ret, cerr = c.ID(ctx)
	case "Version":
		ret, cerr = c.Version(ctx)
	case "Peers":
		ret, cerr = c.Peers(ctx)
	case "PeerAdd":
		ret, cerr = c.PeerAdd(ctx, e.names.Peer("p3"))
	case "PeerRemove":
		rm := e.names.Peer("p3")
		if r.Peer == "qm" {
			rm = e.names.Peer("p4")
		}
		cerr = c.PeerRm(ctx, rm)
		noret = true
	case "Allocations":
		f := api.AllType
		switch r.Filter {
		case "valid":
			f = api.DataType
		case "multi":
			f = api.DataType | api.MetaType
		case "composite":
			f = api.AllType
		}
		ret, cerr = c.Allocations(ctx, f)
	case "Allocation":
		ret, cerr = c.Allocation(ctx, ci)
	case "StatusAll":
		f := api.TrackerStatusUndefined
		switch r.Filter {
		case "valid":
			f = api.TrackerStatusPinned
		case "multi":
			f = api.TrackerStatusPinned | api.TrackerStatusPinError
		case "composite":
			f = api.TrackerStatusError
		}
		ret, cerr = c.StatusAll(ctx, f, local)
	case "Recover":
		ret, cerr = c.Recover(ctx, ci, local)
	case "RecoverAll":
		ret, cerr = c.RecoverAll(ctx, local)
	case "Status":
		ret, cerr = c.Status(ctx, ci, local)
	case "Pin":
		ret, cerr = c.Pin(ctx, ci, e.typedOpts(r.O))
	case "PinPath":
		ret, cerr = c.PinPath(ctx, e.paths[r.Path], e.typedOpts(r.O))
	case "Unpin":
		ret, cerr = c.Unpin(ctx, ci)
	case "UnpinPath":
		ret, cerr = c.UnpinPath(ctx, e.paths[r.Path])
	case "RepoGC":
		ret, cerr = c.RepoGC(ctx, local)
	case "ConnectionGraph":
		ret, cerr = c.GetConnectGraph(ctx)
	case "Alerts":
		ret, cerr = c.Alerts(ctx)
	case "Metrics":
		ret, cerr = c.Metrics(ctx, e.mname(r.Mname))
	case "MetricNames":
		ret, cerr = c.MetricNames(ctx)
	case "Add":
		noret = true
		root, cerr = e.clientAdd(ctx, c, r)
	default:
		return nil, fmt.Errorf("case %d: no client method for %s %s", r.ID, r.Method, r.Pat)
	}
	t1x := time.Now()
	calls, answered := e.rec.take()
	obs := obsT{Ops: e.project(calls, t0, t1x, root), RetErr: cerr != nil}
	if cerr != nil {
		obs.ErrText = cerr.Error()
		if ae, ok := cerr.(*api.Error); ok {
			obs.ErrCode = ae.Code
		}
	} else if !noret {
		obs.Ret = norm(ret)
		obs.Answered = norm(relayed(answered))
	}
	return &recT{ID: r.ID, Req: raw, Obs: obs}, nil
}

// clientAdd adds one small file through the client; it returns the root CID the
// client reported (the token "root" of the projection is "the CID the caller was told").
func (e *env) clientAdd(ctx context.Context, c client.Client, r *reqT) (string, error) {
	if e.addFile == "" {
		dir, err := ioutil.TempDir(os.Getenv("VERIF_WORK"), "c11-add-")
		if err != nil {
			return "-", err
		}
		e.tmp = dir
		e.addFile = filepath.Join(dir, "hello.txt")
		if err := ioutil.WriteFile(e.addFile, fileContent, 0644); err != nil {
			return "-", err
		}
	}
	params := api.DefaultAddParams()
	params.PinOptions = e.typedOpts(r.O)
	a := r.A
	b := func(k string, dst *bool) {
		switch a[k] {
		case "true":
			*dst = true
		case "false":
			*dst = false
		}
	}
	if a["layout"] != "absent" {
		params.Layout = a["layout"]
	}
	if a["format"] == "unixfs" {
		params.Format = "unixfs"
	}
	b("recursive", &params.Recursive)
	b("hidden", &params.Hidden)
	b("wrap", &params.Wrap)
	b("shardflag", &params.Shard)
	b("progress", &params.Progress)
	b("rawleaves", &params.RawLeaves)
	b("nocopy", &params.NoCopy)
	b("alocal", &params.Local)
	if a["cidv"] == "one" { // raw leaves stay as the caller states them (api.AddParams.RawLeaves)
		params.CidVersion = 1
	}
	switch a["chunker"] {
	case "size1024":
		params.Chunker = "size-1024"
	case "bogus":
		params.Chunker = "bogus-chunker"
	}
	out := make(chan *api.AddedOutput, 16)
	root := "-"
	done := make(chan struct{})
	go func() {
		for o := range out {
			if o.Cid.Defined() {
				root = o.Cid.String()
			}
		}
		close(done)
	}()
	err := c.Add(ctx, []string{e.addFile}, params, out)
	<-done
	return root, err
}

var clientRoutes = []struct{ name, method, pat string }{
	{"Add", "POST", "add"},
	{"ID", "GET", "id"}, {"Version", "GET", "version"}, {"Peers", "GET", "peers"}, {"PeerAdd", "POST", "peers"},
	{"PeerRemove", "DELETE", "peers_peer"}, {"Allocations", "GET", "allocations"}, {"Allocation", "GET", "allocations_hash"},
	{"StatusAll", "GET", "pins"}, {"Recover", "POST", "pins_hash_recover"}, {"RecoverAll", "POST", "pins_recover"},
	{"Status", "GET", "pins_hash"}, {"Pin", "POST", "pins_hash"}, {"PinPath", "POST", "pins_path"},
	{"Unpin", "DELETE", "pins_hash"}, {"UnpinPath", "DELETE", "pins_path"}, {"RepoGC", "POST", "ipfs_gc"},
	{"ConnectionGraph", "GET", "health_graph"}, {"Alerts", "GET", "health_alerts"},
	{"Metrics", "GET", "monitor_metrics_name"}, {"MetricNames", "GET", "monitor_metrics"},
}
