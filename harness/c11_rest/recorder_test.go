package c11

import (
	"context"
	"errors"
	"sync"
	"time"

	"github.com/ipfs/ipfs-cluster/api"
	"github.com/ipfs/ipfs-cluster/state"

	cid "github.com/ipfs/go-cid"
	peer "github.com/libp2p/go-libp2p-core/peer"
	rpc "github.com/libp2p/go-libp2p-gorpc"
)

// call is one RPC received by the recording services behind the REST API.
type call struct {
	Svc string
	M   string
	Arg interface{}
}

// recorder implements every Cluster / PeerMonitor / IPFSConnector method the
// REST API (and the adder behind POST /add) calls. Answers are consistent with
// a small pinset; ans scripts the outcome of the next calls.
type recorder struct {
	mu       sync.Mutex
	calls    []call
	ans      string // ok | err | notfound
	answered interface{}
	self     peer.ID
	other    peer.ID
	pins     map[string]*api.Pin
	order    []string
	seed     []*api.Pin
}

var errScripted = errors.New("scripted cluster error")
var fixedTS = time.Date(2021, 6, 7, 8, 9, 10, 0, time.UTC)

func newRecorder(self, other peer.ID, seedPins []*api.Pin) *recorder {
	r := &recorder{self: self, other: other, ans: "ok", seed: seedPins}
	r.resetPins()
	return r
}

// resetPins puts the pinset back to the seed so that answers do not depend on the order of the cases.
func (r *recorder) resetPins() {
	r.pins = map[string]*api.Pin{}
	r.order = nil
	for _, p := range r.seed {
		r.pins[p.Cid.String()] = p
		r.order = append(r.order, p.Cid.String())
	}
}

func (r *recorder) prepare(ans string) {
	r.mu.Lock()
	r.calls = nil
	r.ans = ans
	r.answered = nil
	r.resetPins()
	r.mu.Unlock()
}

func (r *recorder) take() ([]call, interface{}) {
	r.mu.Lock()
	defer r.mu.Unlock()
	c := r.calls
	r.calls = nil
	return c, r.answered
}

// rec records the call and returns the scripted error (nil when ans = ok).
func (r *recorder) rec(svc, m string, arg interface{}, nf bool) error {
	r.mu.Lock()
	defer r.mu.Unlock()
	r.calls = append(r.calls, call{svc, m, arg})
	switch r.ans {
	case "ok":
		return nil
	case "err_alloc", "err_put", "err_pin": // the add pipeline fails at one step
		if m == map[string]string{"err_alloc": "BlockAllocate", "err_put": "BlockPut", "err_pin": "Pin"}[r.ans] {
			return errScripted
		}
		return nil
	case "notfound":
		if nf {
			return state.ErrNotFound
		}
		return errScripted
	default:
		return errScripted
	}
}

func (r *recorder) setAnswered(v interface{}) {
	r.mu.Lock()
	r.answered = v
	r.mu.Unlock()
}

func (r *recorder) id(p peer.ID, name string) *api.ID {
	return &api.ID{ID: p, ClusterPeers: []peer.ID{r.self, r.other}, Version: "0.14.0-verif", Commit: "abc",
		RPCProtocolVersion: "/c11/1", Peername: name}
}

func (r *recorder) allPins() []*api.Pin {
	out := []*api.Pin{}
	for _, k := range r.order {
		out = append(out, r.pins[k])
	}
	return out
}

func (r *recorder) pinInfo(c cid.Cid, p peer.ID) *api.PinInfo {
	return &api.PinInfo{Cid: c, Name: "n-" + c.String()[:6], Peer: p,
		PinInfoShort: api.PinInfoShort{PeerName: "peer-" + p.Pretty()[:6], Status: api.TrackerStatusPinned, TS: fixedTS}}
}

func (r *recorder) gpi(c cid.Cid) *api.GlobalPinInfo {
	g := &api.GlobalPinInfo{Cid: c, Name: "n-" + c.String()[:6], PeerMap: map[string]*api.PinInfoShort{}}
	for _, p := range []peer.ID{r.self, r.other} {
		pi := r.pinInfo(c, p)
		s := pi.PinInfoShort
		g.PeerMap[peer.Encode(p)] = &s
	}
	return g
}

type clusterSvc struct{ r *recorder }
type monitorSvc struct{ r *recorder }
type ipfsSvc struct{ r *recorder }

func (s *clusterSvc) ID(ctx context.Context, in struct{}, out *api.ID) error {
	if err := s.r.rec("Cluster", "ID", nil, false); err != nil {
		return err
	}
	*out = *s.r.id(s.r.self, "self")
	s.r.setAnswered(out)
	return nil
}

func (s *clusterSvc) Version(ctx context.Context, in struct{}, out *api.Version) error {
	if err := s.r.rec("Cluster", "Version", nil, false); err != nil {
		return err
	}
	*out = api.Version{Version: "0.14.0-verif"}
	s.r.setAnswered(out)
	return nil
}

func (s *clusterSvc) Peers(ctx context.Context, in struct{}, out *[]*api.ID) error {
	if err := s.r.rec("Cluster", "Peers", nil, false); err != nil {
		return err
	}
	*out = []*api.ID{s.r.id(s.r.self, "self"), s.r.id(s.r.other, "other")}
	s.r.setAnswered(*out)
	return nil
}

func (s *clusterSvc) PeerAdd(ctx context.Context, in peer.ID, out *api.ID) error {
	if err := s.r.rec("Cluster", "PeerAdd", in, false); err != nil {
		return err
	}
	*out = *s.r.id(in, "added")
	s.r.setAnswered(out)
	return nil
}

func (s *clusterSvc) PeerRemove(ctx context.Context, in peer.ID, out *struct{}) error {
	return s.r.rec("Cluster", "PeerRemove", in, false)
}

func (s *clusterSvc) ConnectGraph(ctx context.Context, in struct{}, out *api.ConnectGraph) error {
	if err := s.r.rec("Cluster", "ConnectGraph", nil, false); err != nil {
		return err
	}
	*out = api.ConnectGraph{ClusterID: s.r.self,
		IDtoPeername:      map[string]string{peer.Encode(s.r.self): "self", peer.Encode(s.r.other): "other"},
		IPFSLinks:         map[string][]peer.ID{peer.Encode(s.r.self): {s.r.other}},
		ClusterLinks:      map[string][]peer.ID{peer.Encode(s.r.self): {s.r.other}, peer.Encode(s.r.other): {s.r.self}},
		ClusterTrustLinks: map[string]bool{peer.Encode(s.r.other): true},
		ClustertoIPFS:     map[string]peer.ID{peer.Encode(s.r.self): s.r.other}}
	s.r.setAnswered(out)
	return nil
}

func (s *clusterSvc) Alerts(ctx context.Context, in struct{}, out *[]api.Alert) error {
	if err := s.r.rec("Cluster", "Alerts", nil, false); err != nil {
		return err
	}
	*out = []api.Alert{{Metric: api.Metric{Name: "ping", Peer: s.r.other, Value: "x", Expire: 12345, Valid: true, ReceivedAt: 777},
		TriggeredAt: fixedTS}}
	s.r.setAnswered(*out)
	return nil
}

func clonePin(p *api.Pin) *api.Pin {
	c := *p
	return &c
}

func (s *clusterSvc) Pin(ctx context.Context, in *api.Pin, out *api.Pin) error {
	if err := s.r.rec("Cluster", "Pin", clonePin(in), false); err != nil {
		return err
	}
	p := clonePin(in)
	p.Allocations = []peer.ID{s.r.self}
	s.r.mu.Lock()
	k := p.Cid.String()
	if _, ok := s.r.pins[k]; !ok {
		s.r.order = append(s.r.order, k)
	}
	s.r.pins[k] = p
	s.r.mu.Unlock()
	*out = *p
	s.r.setAnswered(clonePin(p))
	return nil
}

func (s *clusterSvc) Unpin(ctx context.Context, in *api.Pin, out *api.Pin) error {
	if err := s.r.rec("Cluster", "Unpin", clonePin(in), true); err != nil {
		return err
	}
	p := clonePin(in)
	p.Allocations = []peer.ID{s.r.self}
	*out = *p
	s.r.setAnswered(clonePin(p))
	return nil
}

func (s *clusterSvc) pathPin(in *api.PinPath) *api.Pin {
	// resolution is the cluster's business: answer a fixed CID carrying the options given
	var any *api.Pin
	for _, k := range s.r.order {
		any = s.r.pins[k]
		break
	}
	p := api.PinWithOpts(any.Cid, in.PinOptions)
	p.Allocations = []peer.ID{s.r.self}
	return p
}

func (s *clusterSvc) PinPath(ctx context.Context, in *api.PinPath, out *api.Pin) error {
	cp := *in
	if err := s.r.rec("Cluster", "PinPath", &cp, false); err != nil {
		return err
	}
	p := s.pathPin(in)
	*out = *p
	s.r.setAnswered(clonePin(p))
	return nil
}

func (s *clusterSvc) UnpinPath(ctx context.Context, in *api.PinPath, out *api.Pin) error {
	cp := *in
	if err := s.r.rec("Cluster", "UnpinPath", &cp, true); err != nil {
		return err
	}
	p := s.pathPin(in)
	*out = *p
	s.r.setAnswered(clonePin(p))
	return nil
}

func (s *clusterSvc) Pins(ctx context.Context, in struct{}, out *[]*api.Pin) error {
	if err := s.r.rec("Cluster", "Pins", nil, false); err != nil {
		return err
	}
	s.r.mu.Lock()
	*out = s.r.allPins()
	s.r.mu.Unlock()
	s.r.setAnswered(*out)
	return nil
}

func (s *clusterSvc) PinGet(ctx context.Context, in cid.Cid, out *api.Pin) error {
	if err := s.r.rec("Cluster", "PinGet", in, true); err != nil {
		return err
	}
	s.r.mu.Lock()
	p, ok := s.r.pins[in.String()]
	s.r.mu.Unlock()
	if !ok {
		p = api.PinCid(in)
		p.Allocations = []peer.ID{s.r.self}
	}
	*out = *p
	s.r.setAnswered(clonePin(p))
	return nil
}

func (s *clusterSvc) StatusAll(ctx context.Context, in api.TrackerStatus, out *[]*api.GlobalPinInfo) error {
	if err := s.r.rec("Cluster", "StatusAll", in, false); err != nil {
		return err
	}
	for _, p := range s.r.allPins() {
		*out = append(*out, s.r.gpi(p.Cid))
	}
	s.r.setAnswered(*out)
	return nil
}

func (s *clusterSvc) StatusAllLocal(ctx context.Context, in api.TrackerStatus, out *[]*api.PinInfo) error {
	if err := s.r.rec("Cluster", "StatusAllLocal", in, false); err != nil {
		return err
	}
	for _, p := range s.r.allPins() {
		*out = append(*out, s.r.pinInfo(p.Cid, s.r.self))
	}
	s.r.setAnswered(*out)
	return nil
}

func (s *clusterSvc) Status(ctx context.Context, in cid.Cid, out *api.GlobalPinInfo) error {
	if err := s.r.rec("Cluster", "Status", in, false); err != nil {
		return err
	}
	*out = *s.r.gpi(in)
	s.r.setAnswered(out)
	return nil
}

func (s *clusterSvc) StatusLocal(ctx context.Context, in cid.Cid, out *api.PinInfo) error {
	if err := s.r.rec("Cluster", "StatusLocal", in, false); err != nil {
		return err
	}
	*out = *s.r.pinInfo(in, s.r.self)
	s.r.setAnswered(out)
	return nil
}

func (s *clusterSvc) RecoverAll(ctx context.Context, in struct{}, out *[]*api.GlobalPinInfo) error {
	if err := s.r.rec("Cluster", "RecoverAll", nil, false); err != nil {
		return err
	}
	for _, p := range s.r.allPins() {
		*out = append(*out, s.r.gpi(p.Cid))
	}
	s.r.setAnswered(*out)
	return nil
}

func (s *clusterSvc) RecoverAllLocal(ctx context.Context, in struct{}, out *[]*api.PinInfo) error {
	if err := s.r.rec("Cluster", "RecoverAllLocal", nil, false); err != nil {
		return err
	}
	for _, p := range s.r.allPins() {
		*out = append(*out, s.r.pinInfo(p.Cid, s.r.self))
	}
	s.r.setAnswered(*out)
	return nil
}

func (s *clusterSvc) Recover(ctx context.Context, in cid.Cid, out *api.GlobalPinInfo) error {
	if err := s.r.rec("Cluster", "Recover", in, false); err != nil {
		return err
	}
	*out = *s.r.gpi(in)
	s.r.setAnswered(out)
	return nil
}

func (s *clusterSvc) RecoverLocal(ctx context.Context, in cid.Cid, out *api.PinInfo) error {
	if err := s.r.rec("Cluster", "RecoverLocal", in, false); err != nil {
		return err
	}
	*out = *s.r.pinInfo(in, s.r.self)
	s.r.setAnswered(out)
	return nil
}

func (s *clusterSvc) BlockAllocate(ctx context.Context, in *api.Pin, out *[]peer.ID) error {
	if err := s.r.rec("Cluster", "BlockAllocate", clonePin(in), false); err != nil {
		return err
	}
	*out = []peer.ID{""} // "" = this peer: block puts come back to the recorder
	return nil
}

func (s *clusterSvc) RepoGC(ctx context.Context, in struct{}, out *api.GlobalRepoGC) error {
	if err := s.r.rec("Cluster", "RepoGC", nil, false); err != nil {
		return err
	}
	*out = api.GlobalRepoGC{PeerMap: map[string]*api.RepoGC{
		peer.Encode(s.r.self):  s.r.repoGC(s.r.self),
		peer.Encode(s.r.other): s.r.repoGC(s.r.other)}}
	s.r.setAnswered(out)
	return nil
}

func (r *recorder) repoGC(p peer.ID) *api.RepoGC {
	var any cid.Cid
	for _, k := range r.order {
		any = r.pins[k].Cid
		break
	}
	return &api.RepoGC{Peer: p, Peername: "peer-" + p.Pretty()[:6], Keys: []api.IPFSRepoGC{{Key: any}}}
}

func (s *clusterSvc) RepoGCLocal(ctx context.Context, in struct{}, out *api.RepoGC) error {
	if err := s.r.rec("Cluster", "RepoGCLocal", nil, false); err != nil {
		return err
	}
	*out = *s.r.repoGC(s.r.self)
	s.r.setAnswered(out)
	return nil
}

func (s *monitorSvc) LatestMetrics(ctx context.Context, in string, out *[]*api.Metric) error {
	if err := s.r.rec("PeerMonitor", "LatestMetrics", in, false); err != nil {
		return err
	}
	*out = []*api.Metric{{Name: in, Peer: s.r.self, Value: "1", Expire: 99, Valid: true, ReceivedAt: 5},
		{Name: in, Peer: s.r.other, Value: "2", Expire: 98, Valid: true, ReceivedAt: 6}}
	s.r.setAnswered(*out)
	return nil
}

func (s *monitorSvc) MetricNames(ctx context.Context, in struct{}, out *[]string) error {
	if err := s.r.rec("PeerMonitor", "MetricNames", nil, false); err != nil {
		return err
	}
	*out = []string{"ping", "freespace"}
	s.r.setAnswered(*out)
	return nil
}

func (s *ipfsSvc) BlockPut(ctx context.Context, in *api.NodeWithMeta, out *struct{}) error {
	return s.r.rec("IPFSConnector", "BlockPut", in.Cid, false)
}

func newRPC(r *recorder) (*rpc.Client, error) {
	s := rpc.NewServer(nil, "c11")
	if err := s.RegisterName("Cluster", &clusterSvc{r}); err != nil {
		return nil, err
	}
	if err := s.RegisterName("PeerMonitor", &monitorSvc{r}); err != nil {
		return nil, err
	}
	if err := s.RegisterName("IPFSConnector", &ipfsSvc{r}); err != nil {
		return nil, err
	}
	return rpc.NewClientWithServer(nil, "c11", s), nil
}
