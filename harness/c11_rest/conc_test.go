package c11

// Concurrent stage of C11: K goroutines send M requests each, at the same
// moment, to the real rest.API configured with basic-auth credentials. Every
// request carries its own credentials class and an operation on a CID unique to
// it, so that "whose operation reached the RPC layer" is attributable. The
// outcomes are judged by TLC (spec/RestAPIConcTrace.tla), not here.

import (
	"encoding/json"
	"fmt"
	"io"
	"io/ioutil"
	"math/rand"
	"net/http"
	"os"
	"sync"
	"testing"
	"time"

	"verifharness/hx"

	"github.com/ipfs/ipfs-cluster/api"

	cid "github.com/ipfs/go-cid"
)

type concRec struct {
	ID      int    `json:"id"`
	Worker  int    `json:"worker"`
	Round   int    `json:"round"`
	Cred    string `json:"cred"`
	Op      string `json:"op"`
	Status  int    `json:"status"`
	Reached int    `json:"reached"`
	Err     string `json:"err,omitempty"`
}

func TestConcurrent(t *testing.T) {
	res := hx.NewResult()
	defer res.Write()
	e, err := newEnv()
	if err != nil {
		res.Infra("environment: %v", err)
		return
	}
	defer e.close()
	K := hx.EnvInt("C11_CONC_WORKERS", 12)
	M := hx.EnvInt("C11_CONC_ROUNDS", 250)
	rng := rand.New(rand.NewSource(hx.Seed()))
	// half of the traffic carries right credentials so that every bad request has good ones in flight
	good := []string{"right", "right2", "rightlower"}
	bad := []string{"missing", "wrongpass", "wronguser", "swapped", "user2pass1", "emptypass", "unknownempty", "emptyempty",
		"emptyuser", "caseuser", "passspace", "passprefix", "nocolon", "malformed", "bearer"}
	ops := []string{"pin", "unpin", "status"}
	type job struct {
		rec concRec
		c   cid.Cid
		req *reqT
	}
	jobs := make([][]job, K)
	n := 0
	for w := 0; w < K; w++ {
		for m := 0; m < M; m++ {
			n++
			cr := good[rng.Intn(len(good))]
			if rng.Intn(2) == 0 {
				cr = bad[rng.Intn(len(bad))]
			}
			j := job{rec: concRec{ID: n, Worker: w, Round: m, Cred: cr, Op: ops[rng.Intn(len(ops))]},
				c: e.names.Cid(fmt.Sprintf("u%d", 2*n+1))}
			j.req = &reqT{Cred: cr, Cfg: "auth"}
			jobs[w] = append(jobs[w], j)
		}
	}
	tr := &http.Transport{MaxIdleConnsPerHost: K, MaxConnsPerHost: 0}
	hc := &http.Client{Transport: tr, Timeout: 120 * time.Second}
	e.rec.prepare("ok")
	base := "http://" + e.addr["auth/plain"]
	var wg sync.WaitGroup
	start := make([]chan struct{}, M)
	for m := range start {
		start[m] = make(chan struct{})
	}
	arrived := make(chan int, K)
	errs := make(chan error, K)
	for w := 0; w < K; w++ {
		wg.Add(1)
		go func(w int) {
			defer wg.Done()
			for m := 0; m < M; m++ {
				j := &jobs[w][m]
				method, path := "POST", "/pins/"+j.c.String()
				switch j.rec.Op {
				case "unpin":
					method = "DELETE"
				case "status":
					method = "GET"
				}
				h, err := http.NewRequest(method, base+path, nil)
				if err != nil {
					errs <- err
					return
				}
				e.setCred(j.req, h)
				arrived <- w
				<-start[m] // all workers fire the round together
				resp, err := hc.Do(h)
				if err != nil {
					// no answer at all (connection dropped): recorded as such, judged on "reached" only
					j.rec.Status = -1
					j.rec.Err = err.Error()
					continue
				}
				io.Copy(ioutil.Discard, resp.Body)
				resp.Body.Close()
				j.rec.Status = resp.StatusCode
			}
		}(w)
	}
	go func() {
		for m := 0; m < M; m++ {
			for i := 0; i < K; i++ {
				<-arrived
			}
			close(start[m])
		}
	}()
	done := make(chan struct{})
	go func() { wg.Wait(); close(done) }()
	select {
	case <-done:
	case err := <-errs:
		res.Infra("concurrent stage: %v", err)
		return
	case <-time.After(10 * time.Minute):
		res.Infra("concurrent stage did not finish in 10 minutes")
		return
	}
	select {
	case err := <-errs:
		res.Infra("concurrent stage: %v", err)
		return
	default:
	}
	calls, _ := e.rec.take()
	reached := map[string]int{}
	for _, c := range calls {
		switch a := c.Arg.(type) {
		case *api.Pin:
			reached[a.Cid.String()]++
		case cid.Cid:
			reached[a.String()]++
		}
	}
	f, err := os.Create(os.Getenv("VERIF_TRACE"))
	if err != nil {
		res.Infra("trace: %v", err)
		return
	}
	defer f.Close()
	enc := json.NewEncoder(f)
	total := 0
	for w := range jobs {
		for m := range jobs[w] {
			j := &jobs[w][m]
			j.rec.Reached = reached[j.c.String()]
			total += j.rec.Reached
			if err := enc.Encode(j.rec); err != nil {
				res.Infra("trace write: %v", err)
				return
			}
			res.Case(map[string]interface{}{"stage": "concurrent", "cred": j.rec.Cred, "op": j.rec.Op}, true)
		}
	}
	if total != len(calls) {
		res.Infra("concurrent stage: %d RPC calls received, %d attributed to a request", len(calls), total)
	}
	res.Set("concurrent_requests", n)
	res.Set("concurrent_workers", K)
}
